#!/bin/sh
# usage: tools/sweep.sh "<seeds>" "<props>" [tier]   — runs ./check for every seed x property, one line each
cd "$(dirname "$0")/.."
for s in $1; do for p in $2; do
  out=$(VERIF_SEED=$s VERIF_TIER=${3:-quick} ./check $p --tier ${3:-quick} 2>&1); rc=$?
  echo "seed=$s $p rc=$rc $(echo "$out" | grep -E 'VIOLATION' | head -2 | tr '\n' ' ') $(echo "$out" | tail -1 | cut -c1-140)"
done; done
