#!/usr/bin/env python3
"""Replays the design-phase defect witnesses (DESIGN.md section 11) on a tree; prints ok/BAD per witness.
usage: witness.py [repo_root] [ids...]"""
import sys, os, tempfile, subprocess, textwrap, json
root = sys.argv[1] if len(sys.argv) > 1 else '/repo'
only = set(sys.argv[2:])
W = {}
def w(name):
    def d(f): W[name] = f; return f
    return d
PRE = f"import sys; sys.path.insert(0, {root!r}); sys.path.insert(0, '.')\nimport awesomeyaml\nfrom awesomeyaml import Config\nfrom awesomeyaml.builder import Builder\n"
def run(code, timeout=20, files=None):
    with tempfile.TemporaryDirectory() as td:
        for n, c in (files or {}).items():
            open(os.path.join(td, n), 'w').write(c)
        open(os.path.join(td, 'rec.py'), 'w').write("log=[]\ndef f(*a, **k):\n    log.append((a,k)); return ('f',a,tuple(sorted(k.items())))\n")
        open(os.path.join(td, 'sig.py'), 'w').write("def f1(a=0, b=0):\n    return ('f1', a, b)\n")
        try:
            p = subprocess.run(['/venv/bin/python', '-c', PRE + textwrap.dedent(code)], cwd=td, capture_output=True, text=True, timeout=timeout)
        except subprocess.TimeoutExpired:
            return 'TIMEOUT', ''
        return p.returncode, p.stdout.strip() + ('\n' + p.stderr.strip()[-300:] if p.returncode else '')
def expect(code, want, **kw):
    rc, out = run(code, **kw)
    return (rc == 0 and out.splitlines()[-1:] == [want]), f'rc={rc} out={out[-200:]!r} want={want!r}'
@w('D01')
def _(): return expect("print(Config.build('a: !force {b: {c: [1,2]}}').a.b.c)", '[1, 2]')
@w('D02')
def _(): return expect("print(dict(Config.build('_w: 3\\na: {_u: 1, v: 2}')))", "{'_w': 3, 'a': {'_u': 1, 'v': 2}}")
@w('D03')
def _(): return expect("print(Config.build('a: !force {b: {c: 1}}', 'a: {b: {c: 2}}').a.b.c)", '1')
@w('D04')
def _(): return expect("print(Config.build('k: {a: {p: 1, q: 2}}', 'k: {a: !del {q: 3, k: !weak 5}}').k.a)", "{'q': 3, 'k': 5}")
@w('D05')
def _(): return expect("import rec\nc=Config.build('c: {d: !call:rec.f {x: 1}, e: 1}', 'c: !del {e: 2}')\nprint(dict(c.c), rec.log)", "{'e': 2} []")
@w('D06')
def _(): return expect("print(Config.build('m.yaml').a)", '[9]', files={'f1.yaml': 'a: [1,2,3]\n', 'f2.yaml': 'a: [9]\n', 'm.yaml': '!include [f1.yaml, f2.yaml]\n'})
@w('D07')
def _():
    return expect("""
    import rec
    b = Builder(); b.add_source('f: !required', raw_yaml=True); b.add_source('f: !call:rec.f {}', raw_yaml=True, safe=False)
    try:
        Config(b.build()); print('built', rec.log)
    except awesomeyaml.errors.EvalError as e:
        print('unsafe', rec.log)
    """, 'unsafe []')
@w('D08')
def _():
    return expect("""
    import rec
    try:
        Config.build('bar: !unsafe 12\\nfn: !call:rec.f {x: !xref bar}'); print('built', rec.log)
    except awesomeyaml.errors.EvalError as e:
        print('unsafe', rec.log)
    """, 'unsafe []')
@w('D09')
def _():
    return expect("""
    for src in ['a: !xref a', 'a: !xref b\\nb: !xref a']:
        try:
            Config.build(src); print('built')
        except awesomeyaml.errors.EvalError as e:
            print('evalerror')
    """, 'evalerror', timeout=10)
@w('D10')
def _(): return expect("print(Config.build('a: 1\\nb: 2\\nc: !eval a + b', filename='x.yaml').c, Config.build(\"c: !eval 'len([1,2])'\").c)", '3 2')
@w('D12')
def _(): return expect("print(Config.build('r: !call:sig.f1 {a: 1, b: 2}', 'r: sig.f1').r)", "('f1', 1, 2)")
@w('D13')
def _(): return expect("print(Config.build('a: {l: [!force {p: 0}]}', '!unsafe\\na: {l: [{s: 5}]}').a.l == Config.build('a: {l: [!force {p: 0}]}', 'a: {l: [{s: 5}]}').a.l)", 'True')
@w('D14')
def _(): return expect("from awesomeyaml.nodes.list import ConfigList\nfrom awesomeyaml.eval_context import EvalContext\nl=ConfigList([1,2]); l.insert(0,9); print(EvalContext().evaluate_node(l) if False else [int(c) for c in l.ayns.children()], [k for k,_ in l.ayns.named_children()])", '[9, 1, 2] [0, 1, 2]')
@w('D15')
def _(): return expect("from awesomeyaml.nodes.list import ConfigList\nl=ConfigList([1,2,3]); l.pop(); print(len(l), l.ayns.children_count())", '2 2')
@w('D16')
def _(): return expect("from awesomeyaml.nodes.dict import ConfigDict\nd=ConfigDict({'a':1,'b':2}); d.ayns.rename_child('a','z'); print(sorted(d.keys()), sorted(d.ayns.children_names()))", "['b', 'z'] ['b', 'z']")
@w('D17b')
def _(): return expect("from awesomeyaml import yaml\nn=list(yaml.parse('a: !force ~'))[0]\nt=yaml.dump(n)\nm=list(yaml.parse(t))[0]\nprint(m.a.ayns.priority)", '1')
@w('D18')
def _(): return expect("print(Config.build('a: [!force 1, 2]', 'a: [8, 9]').a)", '[1, 9]')
res = {}
for k, f in W.items():
    if only and k not in only: continue
    ok, info = f()
    res[k] = ok
    print(k, 'ok ' if ok else 'BAD', '' if ok else info)
