#!/venv/bin/python
"""usage: tie_try.py [--patch FILE | --edit 'path::old::new[::occurrence]' ...] [--label NAME]

Runs the Python -> Lean translator and the TIE_* theorems against a scratch worktree of /repo (under
$TIE_SCRATCH, default /tmp/wpT) to which a patch (git apply) or textual one-line edits have been applied;
prints one JSON line: which target functions fell back (and why), which TIE theorems failed to check.
The worktree is removed afterwards; lean/AY/Gen/Translated.lean is regenerated from /repo at the end.
Used for the robustness / sensitivity tables of notes/translator-section.md."""
import os, sys, json, subprocess, tempfile, argparse, shutil

VERIF = os.path.dirname(os.path.dirname(os.path.abspath(__file__)))
PY = '/venv/bin/python'


def run(cmd, **kw):
    return subprocess.run(cmd, stdout=subprocess.PIPE, stderr=subprocess.STDOUT, **kw)


def tie_against(repo):
    env = dict(os.environ, AY_REPO=repo, AWESOMEYAML_VERIF='1')
    p = run([PY, os.path.join(VERIF, 'harness', 'py2lean.py')], cwd=VERIF, env=env)
    code = ("import sys, json; sys.path.insert(0, %r); import framework; "
            "i = framework.tie_obligations(); print('TIEJSON' + json.dumps(i))" % os.path.join(VERIF, 'harness'))
    q = run([PY, '-c', code], cwd=VERIF, env=env)
    line = [l for l in q.stdout.decode().splitlines() if l.startswith('TIEJSON')]
    if not line:
        return {'error': q.stdout.decode()[-1500:], 'translator': p.stdout.decode()[-500:]}
    info = json.loads(line[0][7:])
    return {
        'translator': p.stdout.decode().strip().splitlines()[-1] if p.stdout else '',
        'fallback': {fn: r['reason'] for fn, r in info['functions'].items() if r['status'] != 'translated'},
        'failed': sorted(n for n, r in info['theorems'].items() if r['status'] != 'discharged'),
        'discharged': info['discharged'], 'obligations': info['obligations'],
    }


def main():
    ap = argparse.ArgumentParser()
    ap.add_argument('--patch')
    ap.add_argument('--edit', action='append', default=[])
    ap.add_argument('--label', default='')
    ap.add_argument('--sep', default='::')
    ap.add_argument('--repo')
    a = ap.parse_args()
    if a.repo:
        print(json.dumps({'label': a.label, **tie_against(a.repo)}))
        return 0
    base = os.environ.get('TIE_SCRATCH', '/tmp/wpT')
    d = tempfile.mkdtemp(prefix='tiewt.', dir=base)
    wt = os.path.join(d, 'repo')
    out = {'label': a.label}
    try:
        r = run(['git', '-C', '/repo', 'worktree', 'add', '-q', '--detach', wt, 'HEAD'])
        if r.returncode != 0:
            out['error'] = 'worktree: ' + r.stdout.decode()[-300:]
            print(json.dumps(out)); return 2
        if a.patch:
            r = run(['git', '-C', wt, 'apply', os.path.realpath(a.patch)])
            if r.returncode != 0:
                out['error'] = 'patch does not apply'
                print(json.dumps(out)); return 3
        for e in a.edit:
            parts = e.split(a.sep)
            path, old, new = parts[:3]
            which = int(parts[3]) if len(parts) > 3 else None      # 1-based occurrence; default: the only one
            f = os.path.join(wt, path)
            raw = open(f, 'rb').read()
            o, n = old.encode().decode('unicode_escape').encode(), new.encode().decode('unicode_escape').encode()
            if (which is None and raw.count(o) != 1) or (which is not None and raw.count(o) < which):
                out['error'] = f'edit: {raw.count(o)} occurrences of {old!r} in {path}'
                print(json.dumps(out)); return 3
            pos = -1
            for _ in range(which or 1):
                pos = raw.index(o, pos + 1)
            open(f, 'wb').write(raw[:pos] + n + raw[pos + len(o):])
        out.update(tie_against(wt))
        print(json.dumps(out))
        return 0
    finally:
        run(['git', '-C', '/repo', 'worktree', 'remove', '--force', wt])
        shutil.rmtree(d, ignore_errors=True)
        run([PY, os.path.join(VERIF, 'harness', 'py2lean.py')], cwd=VERIF, env={k: v for k, v in os.environ.items() if k != 'AY_REPO'})


if __name__ == '__main__':
    sys.exit(main())
