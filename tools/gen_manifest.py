#!/usr/bin/env python3
"""Regenerates MANIFEST.json from the table below (claimed properties) + properties.jsonl (the rest go to not_applicable)."""
import json, os
V = os.path.dirname(os.path.dirname(os.path.abspath(__file__)))
ids = [json.loads(l)['id'] for l in open(os.path.join(V, 'properties.jsonl'))]
CLAIMS = json.load(open(os.path.join(V, 'tools', 'claims.json')))
checks = []
for pid in ids:
    c = CLAIMS.get(pid)
    if not c:
        continue
    checks.append({
        'property_id': pid,
        'quick_cmd': f'./check {pid} --tier quick',
        'thorough_cmd': f'./check {pid} --tier thorough',
        'evidence_file': f'evidence/{pid}.json',
        'replay_cmd_template': f'./check {pid} --replay {{path}}',
        'engine': 'lean4-model+correspondence',
        'level_claimed': {'category': 'proof', 'text': c['text'], 'design_ref': f'DESIGN.md section 8, {pid}'},
        'level_note': c['note'],
        'technique': c.get('technique', 'Lean 4 theorems about an executable model of the code; model tied to /repo by tables and decision functions translated from the source on every run (kernel-checked equality with the hand-written model) and by a differential correspondence check; property oracle on the implementation for failing-input search'),
    })
na = [{'property_id': pid, 'reason': CLAIMS.get('_na', {}).get(pid, 'no theorem is registered for this property yet; it is not claimed (see DESIGN.md section 8)')} for pid in ids if pid not in CLAIMS]
m = {
    'version': 1,
    'setup_cmd': './check --setup',
    'hooks': {'guard': 'AWESOMEYAML_VERIF', 'enable': 'export AWESOMEYAML_VERIF=1 (set by ./check; no source hook exists in /repo, instrumentation is external: recording callables, sys.settrace, temp directories)',
              'baseline_off_cmd': 'python3 tools/baseline.py /repo', 'source_commits': [], 'add_only': True},
    'engines': [{'name': 'lean4-model+correspondence', 'path': 'lean/ harness/ check', 'serves_properties': [c['property_id'] for c in checks],
                 'kind_free_text': 'Lean 4.33 library AY (model, specs, theorems), compiled line-protocol driver ayd, Python harness running /repo in-process'}],
    'checks': checks,
    'not_applicable': na,
    'notes': 'Every check regenerates lean/AY/Gen/Tables.lean and lean/AY/Gen/Translated.lean from /repo, rebuilds the Lean library, audits the axioms of the registered theorems, then runs the correspondence and the property oracle. KNOWN_FINDINGS lists recorded defects; fix: commits in /repo repair the others (DESIGN.md section 7).',
}
json.dump(m, open(os.path.join(V, 'MANIFEST.json'), 'w'), indent=1)
print('claimed:', [c['property_id'] for c in checks], 'not claimed:', [n['property_id'] for n in na])
