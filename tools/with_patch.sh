#!/bin/sh
# usage: with_patch.sh <patch.diff> -- <command ...>   applies a patch in a scratch worktree of /repo and runs the command with AY_REPO
p="$(realpath "$1")"; shift; shift
d=$(mktemp -d /tmp/mutrepo.XXXXXX)
git -C /repo worktree add -q --detach "$d/repo" HEAD || exit 2
git -C "$d/repo" apply "$p" || { echo "patch does not apply"; git -C /repo worktree remove --force "$d/repo"; rm -rf "$d"; exit 2; }
AY_REPO="$d/repo" "$@"; rc=$?
git -C /repo worktree remove --force "$d/repo"; rm -rf "$d"
exit $rc
