#!/bin/sh
# usage: revert_fix.sh <pattern in commit subject> -- <command ...>
# Reverse-applies one "fix:" commit in a SCRATCH COPY of /repo and runs the command against it (AY_REPO),
# so /repo itself is never touched. The copy is removed afterwards.
pat="$1"; shift; shift
c=$(git -C /repo log --format='%h %s' | grep -i -- "$pat" | head -1 | cut -d' ' -f1)
[ -n "$c" ] || { echo "no commit matches $pat"; exit 2; }
d=$(mktemp -d /tmp/mutrepo.XXXXXX)
git -C /repo worktree add -q --detach "$d/repo" HEAD || exit 2
git -C /repo show "$c" | git -C "$d/repo" apply -R || { echo "cannot reverse-apply $c"; git -C /repo worktree remove --force "$d/repo"; rm -rf "$d"; exit 2; }
echo "== reverted $c in scratch copy: $(git -C /repo log -1 --format=%s $c)"
AY_REPO="$d/repo" "$@"; rc=$?
git -C /repo worktree remove --force "$d/repo"; rm -rf "$d"
exit $rc
