#!/bin/sh
# usage: revert_fix.sh <pattern in commit subject> -- <command ...>
# Temporarily reverse-applies one "fix:" commit of /repo in the working tree, runs the command, restores.
pat="$1"; shift; shift
c=$(git -C /repo log --format='%h %s' | grep -i -- "$pat" | head -1 | cut -d' ' -f1)
[ -n "$c" ] || { echo "no commit matches $pat"; exit 2; }
git -C /repo show "$c" | git -C /repo apply -R || { echo "cannot reverse-apply $c"; exit 2; }
echo "== reverted $c: $(git -C /repo log -1 --format=%s $c)"
"$@"; rc=$?
git -C /repo checkout -- . 
exit $rc
