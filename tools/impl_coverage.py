#!/venv/bin/python
"""Which lines of the implementation do the correspondence inputs of the checks execute?

usage: tools/impl_coverage.py [Cxx ...] [--seed N] [--out FILE]

For every named property (default: all 20) the quick-tier inputs (corpus + generated cases, same generator and seed as
./check) are run through the property's `impl` observable only - no model, no proof obligations - under coverage.py
(line + branch) restricted to <repo>/awesomeyaml.  The report lists, per file, the statements no check ever executed.
This is a tool for widening generators (a line of an anchored file that no input reaches is a line a seeded change can
hide in); it is not part of any registered check and decides nothing.
"""
import sys, os, json, random, importlib, argparse, io
VERIF = os.path.dirname(os.path.dirname(os.path.abspath(__file__)))
sys.path.insert(0, os.path.join(VERIF, 'harness'))
os.environ.setdefault('AWESOMEYAML_VERIF', '1')
import coverage

def main():
    ap = argparse.ArgumentParser()
    ap.add_argument('props', nargs='*')
    ap.add_argument('--seed', type=int, default=0)
    ap.add_argument('--out', default=None)
    a = ap.parse_args()
    ids = a.props or ['C%02d' % i for i in range(1, 21)]
    repo = os.environ.get('AY_REPO', '/repo')
    cov = coverage.Coverage(branch=True, include=[os.path.join(repo, 'awesomeyaml', '*')], data_file=None)
    cov.start()
    import common  # noqa  (puts the implementation on sys.path; imported under coverage so that module-level code counts)
    per = {}
    for pid in ids:
        mod = importlib.import_module('props.' + pid.lower())
        prop = mod.PROP
        rng = random.Random(f'{pid}-{a.seed}')
        cases = list(prop.corpus()) + list(prop.gen_cases(rng, prop.QUICK_N, 'quick'))
        n_err = 0
        for c in cases:
            try:
                prop.impl(c)
            except BaseException as e:  # noqa
                if isinstance(e, KeyboardInterrupt):
                    raise
                n_err += 1
        per[pid] = {'cases': len(cases), 'impl_raised': n_err}
        print(pid, per[pid], file=sys.stderr)
    cov.stop()
    rep = {}
    tot_s = tot_m = 0
    for f in sorted(cov.get_data().measured_files()):
        an = cov.analysis2(f)
        stmts, missing = an[1], an[3]
        rel = os.path.relpath(f, repo)
        rep[rel] = {'statements': len(stmts), 'missing': missing}
        tot_s += len(stmts); tot_m += len(missing)
    out = {'props': per, 'seed': a.seed, 'statements': tot_s, 'missing': tot_m, 'files': rep}
    if a.out:
        json.dump(out, open(a.out, 'w'), indent=1)
    print(f'{tot_s - tot_m}/{tot_s} statements executed ({100.0 * (tot_s - tot_m) / max(1, tot_s):.1f}%)')
    for rel, r in rep.items():
        if r['missing']:
            print(f"{rel}: {len(r['missing'])}/{r['statements']} never executed: {compact(r['missing'])}")

def compact(ls):
    out, i = [], 0
    while i < len(ls):
        j = i
        while j + 1 < len(ls) and ls[j + 1] == ls[j] + 1:
            j += 1
        out.append(str(ls[i]) if i == j else f'{ls[i]}-{ls[j]}')
        i = j + 1
    return ' '.join(out)

if __name__ == '__main__':
    main()
