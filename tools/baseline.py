#!/usr/bin/env python3
"""Run the repository's pinned baseline (guard OFF) and compare with /root/.vp/BASELINE.json.
exit 0 iff every stable_pass test passes."""
import json, os, subprocess, sys, tempfile, xml.etree.ElementTree as ET
repo = sys.argv[1] if len(sys.argv) > 1 else '/repo'
base = json.load(open('/root/.vp/BASELINE.json'))
env = dict(os.environ); env.pop('AWESOMEYAML_VERIF', None)
with tempfile.TemporaryDirectory() as td:
    x = os.path.join(td, 'j.xml')
    subprocess.run(['/venv/bin/python', '-m', 'pytest', '-ra', '-q', '-p', 'no:cacheprovider', '--timeout=900',
                    '--continue-on-collection-errors', '--junitxml=' + x], cwd=repo, env=env,
                   stdout=subprocess.DEVNULL, stderr=subprocess.DEVNULL)
    passed = set()
    for tc in ET.parse(x).getroot().iter('testcase'):
        if not any(c.tag in ('failure', 'error', 'skipped') for c in tc):
            passed.add(f"{tc.get('classname')}::{tc.get('name')}")
want = set(t for t in base['stable_pass'] if t != '::')
missing = sorted(want - passed)
print(f'baseline: {len(want & passed)}/{len(want)} stable tests pass; {len(passed)} passed in total')
for m in missing: print('MISSING', m)
sys.exit(1 if missing else 0)
