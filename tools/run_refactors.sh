#!/bin/sh
# usage: tools/run_refactors.sh [Rnn ...]   — every refactoring x every check, one result line each (false-alarm measurement)
cd "$(dirname "$0")/.."
rs="${*:-$(ls seeded/refactors | grep '^R')}"
for r in $rs; do
  d=seeded/refactors/$r
  git -C /repo apply --check "$(realpath $d/patch.diff)" 2>/dev/null || { echo "$r :: patch no longer applies to /repo HEAD"; continue; }
  for p in ${CHECKS:-C01 C02 C03 C04 C05 C06 C07 C08 C09 C10 C11 C12 C13 C14 C15 C16 C17 C18 C19 C20}; do
    out=$(tools/with_patch.sh $d/patch.diff -- ./check $p 2>&1); rc=$?
    echo "$r $p rc=$rc :: $(echo "$out" | grep -c '^VIOLATION') violation lines :: $(echo "$out" | tail -1 | cut -c1-150)"
  done
done
