#!/usr/bin/env python3
"""Validate a seeded change and run our checks against it.
usage: try_seeded.py <dir with patch.diff demo.py meta.json> [check ids ...]
Steps: scratch worktree of /repo HEAD; baseline there (must pass); demo must PASS; apply patch; baseline must still pass;
demo must FAIL; run ./check for the property (and any extra ids) with AY_REPO pointing at the patched tree; clean up."""
import sys, os, json, subprocess, tempfile, shutil
d = os.path.abspath(sys.argv[1])
meta = json.load(open(os.path.join(d, 'meta.json')))
pid = meta.get('property')
ids = sys.argv[2:] or [pid]
tmp = tempfile.mkdtemp(prefix='seedtry.')
wt = os.path.join(tmp, 'repo')
def sh(cmd, **kw):
    p = subprocess.run(cmd, stdout=subprocess.PIPE, stderr=subprocess.STDOUT, text=True, **kw)
    return p.returncode, p.stdout
res = {'dir': d, 'property': pid}
try:
    rc, out = sh(['git', '-C', '/repo', 'worktree', 'add', '-q', '--detach', wt, 'HEAD'])
    assert rc == 0, out
    env = dict(os.environ, PYTHONPATH=wt)
    rc, out = sh(['python3', '/verif/tools/baseline.py', wt]); res['baseline_clean'] = rc == 0
    rc, out = sh(['/venv/bin/python', os.path.join(d, 'demo.py')], env=env, cwd=tmp, timeout=300); res['demo_clean'] = (rc, out.strip().splitlines()[-1:] )
    rc, out = sh(['git', '-C', wt, 'apply', os.path.join(d, 'patch.diff')]); res['applies'] = rc == 0
    if rc != 0: res['apply_out'] = out[-300:]
    rc, out = sh(['python3', '/verif/tools/baseline.py', wt]); res['baseline_patched'] = rc == 0; res['baseline_out'] = out.strip().splitlines()[:3]
    rc, out = sh(['/venv/bin/python', os.path.join(d, 'demo.py')], env=env, cwd=tmp, timeout=300); res['demo_patched'] = (rc, out.strip().splitlines()[-1:])
    res['checks'] = {}
    for i in ids:
        rc, out = sh(['./check', i], cwd='/verif', env=dict(os.environ, AY_REPO=wt), timeout=3600)
        lines = [l for l in out.splitlines() if l.startswith(('VIOLATION', 'KNOWN-FINDING', i, 'INFRA'))]
        if os.environ.get('SAVE_CORPUS') and i == pid:
            # keep the shrunk failing input as a regression case of the property's own check (harness/corpus/<id>/<change>.json)
            seed = os.environ.get('VERIF_SEED', '0') or '0'
            rp = os.path.join(wt, '.verif-evidence', 'replays', f'{i}-{seed}-violation.json')
            if os.path.exists(rp):
                try:
                    payload = json.load(open(rp))
                    if 'case' in payload:
                        cd = os.path.join('/verif/harness/corpus', i)
                        os.makedirs(cd, exist_ok=True)
                        json.dump({'origin': os.path.basename(d), 'what': str(payload.get('what'))[:300], 'case': payload['case'], 'unshrunk': payload.get('unshrunk_case')},
                                  open(os.path.join(cd, os.path.basename(d) + '.json'), 'w'), indent=1)
                        res.setdefault('saved_corpus', []).append(i)
                except Exception as e:  # noqa
                    res.setdefault('saved_corpus_error', str(e))
        res['checks'][i] = {'exit': rc, 'lines': [l[:200] for l in lines][-4:]}
finally:
    subprocess.run(['git', '-C', '/repo', 'worktree', 'remove', '--force', wt])
    shutil.rmtree(tmp, ignore_errors=True)
print(json.dumps(res, indent=1))
