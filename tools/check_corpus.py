#!/venv/bin/python
"""Every kept input (harness/corpus/<id>/*.json) is run alone on the current tree: it must neither disagree with the model nor
violate the property (known findings aside). usage: tools/check_corpus.py [--prune] [Cxx ...]
--prune removes the kept inputs that do (a shrunk input can leave the family its oracle is written for)."""
import sys, os, json, importlib
VERIF = os.path.dirname(os.path.dirname(os.path.abspath(__file__)))
sys.path.insert(0, os.path.join(VERIF, 'harness'))
os.environ.setdefault('AWESOMEYAML_VERIF', '1')
import framework
prune = '--prune' in sys.argv
ids = [a for a in sys.argv[1:] if not a.startswith('--')] or sorted(os.listdir(os.path.join(VERIF, 'harness', 'corpus')))
bad = 0
for pid in ids:
    d = os.path.join(VERIF, 'harness', 'corpus', pid)
    if not os.path.isdir(d):
        continue
    prop = importlib.import_module('props.' + pid.lower()).PROP
    known = [k for k in framework.load_known() if k['property'] == pid]
    for f in sorted(os.listdir(d)):
        kept = json.load(open(os.path.join(d, f)))
        for case in [kept['case']] + ([kept['unshrunk']] if kept.get('unshrunk') is not None and kept['unshrunk'] != kept['case'] else []):
            r = framework.evaluate_cases(prop, [case])[0]
            why = None
            if r.get('harness_error'):
                why = 'harness error: ' + r['harness_error'].splitlines()[0][:150]
            elif r['disagree']:
                why = 'disagreement: ' + r['disagree'][:150]
            elif r['violation']:
                key = prop.finding_key(case, r['violation'])
                if not (key and any(k.get('key') == key for k in known)) and not any(r['violation'].startswith(k['id']) for k in known):
                    why = 'violation: ' + r['violation'][:150]
            if why:
                bad += 1
                print(pid, f, why)
                if prune and os.path.exists(os.path.join(d, f)):
                    os.remove(os.path.join(d, f))
print('kept inputs that alarm on this tree:', bad)
