import sys, os, subprocess, json
root = sys.argv[1]
files = sorted(subprocess.check_output(['find', root+'/tests/yaml_files', '-name', '*_test.yaml']).decode().split())
code = r'''
import sys, unittest
sys.path.insert(0, sys.argv[1])
os_root = sys.argv[1]
import os; os.chdir(os_root)
from tests.yaml_files_test import YamlFileTest
T = YamlFileTest.make_test_case_type(test_file=sys.argv[2], class_arg='x')
r = unittest.TextTestRunner(stream=open(os.devnull,'w')).run(unittest.defaultTestLoader.loadTestsFromTestCase(T))
print('RESULT', 'ok' if r.wasSuccessful() else 'FAIL')
'''
res = {}
for f in files:
    try:
        p = subprocess.run(['/venv/bin/python', '-c', code, root, f], capture_output=True, timeout=30, text=True)
        out = [l for l in p.stdout.splitlines() if l.startswith('RESULT')]
        res[os.path.relpath(f, root)] = out[0].split()[1] if out else 'CRASH(%d)' % p.returncode
    except subprocess.TimeoutExpired:
        res[os.path.relpath(f, root)] = 'TIMEOUT'
json.dump(res, open(sys.argv[2], 'w'), indent=1)
from collections import Counter
print(Counter(res.values()))
