"""C10 — every dynamic node is evaluated exactly once, independent of layout."""
from props.evalfam import *
import random as _random
from props.c15 import permute, unordered

class C10(EvalFamProp):
    ID = 'C10'
    P_UNSAFE = 0.0
    P_UNSAFE_SRC = 0.0
    P_BAD = 0.03
    RULE = ('1-3 stages with recording !call nodes and restricted !eval nodes consumed by !xref chains, call arguments and eval names; '
            'each case is also built with the keys of every mapping permuted; later stages overwrite / delete dynamic nodes; '
            'non-trivial = some dynamic node has >= 2 consumers or the case has >= 2 stages; distinct by SHA-1')
    ASSUMPTIONS = ['executions are attributed to node objects by frame inspection of the recording callables',
                   'dependency cycles through !eval names (known finding D21) are skipped by the layout comparison']

    def corpus(self):
        D = lambda *raws: {'docs': [{'raw': r} for r in raws], 'style': ['flow', 0, 0], 'vseed': 3}
        X = lambda p: Stext(p, 'xref')
        call = lambda items: M(items, tag={'k': 'call', 'f': 'rec.f'})
        return [
            D(M({'a': X('c'), 'b': Stext('T(c, a)', 'eval'), 'c': call({0: S(1)}), 'd': Q([X('c'), X('a'), X('b')])})),
            D(M({'r': X('bar.z'), 'c': Stext('T(bar)', 'eval'), 'bar': M({'z': S(1), 'y': S(2)})})),                                  # D20
            D(M({'c': M({'d': call({'x': S(1)}), 'e': S(1)})}), M({'c': M({'e': S(2)}, kw={'del': True})})),                         # D05
            D(M({'x': call({0: S(1)}), 'y': X('x')}), M({'x': S(5)})),
        ]

    def gen_cases(self, rng, n, tier):
        out = super().gen_cases(rng, n, tier)
        for c in out:
            c['vseed'] = rng.randrange(1 << 30)
        # evaluated code that hands back a NODE of the tree (`ayns.ctx.get_node(path)`): the node is evaluated through the context, once,
        # whichever of the two keys comes first (seeded change S9-C10: such a node was evaluated past the per-node cache). The code is
        # outside the model's restricted !eval: oracle only.
        for _ in range(max(2, n // 40)):
            call = M([(0, S(rng.randrange(9)))], tag={'k': 'call', 'f': rng.choice(['rec.f', 'rec.g'])})
            items = [('alias', Stext("ayns.ctx.get_node('worker')", 'eval')), ('worker', call), ('k', S(1))]
            if rng.random() < 0.5:
                items.append(('again', Stext('worker', 'xref')))
            rng.shuffle(items)
            out.append({'docs': [{'raw': M(items)}], 'style': ['flow', 0, 0], 'vseed': rng.randrange(1 << 30), 'ctxfam': True})
        return out

    def impl(self, case):
        io = super().impl(case)
        rng = _random.Random(case.get('vseed', 0))
        pdocs = [dict(d, raw=permute(rng, d['raw'])) for d in case['docs']]
        io['perm'] = run_case(pdocs, self.WORLD, tuple(case.get('style', ['flow', 0, 0])))
        # one evaluation context used for two consecutive builds (a different config first): the second build must
        # not see anything of the first
        try:
            with WorldImpl(self.WORLD) as w:
                ctx = EvalContext(eval_symbols=w.syms)
                other = [dict(d, raw=permute(rng, d['raw'])) for d in case['docs'][:1]]
                try:
                    Config(build_root(other), eval_ctx=ctx)
                except Exception:
                    pass
                del EXEC_LOG[:]
                try:
                    cfg = Config(build_root(case['docs']), eval_ctx=ctx)
                    io['reuse'] = {'ok': renumber(conv_val(cfg, w, {})), 'exec': sorted(e[0] + '@' + str(e[1]) for e in EXEC_LOG)}
                except RecursionError:
                    io['reuse'] = {'err': 'recursion'}
                except Exception as e:  # noqa
                    io['reuse'] = classify_error(e)
        except Exception as e:  # noqa
            io['reuse'] = {'err': 'harness:' + str(e)[:80]}
        return io

    def model_obs(self, case, answers):
        return {'err': 'unsupported'} if case.get('ctxfam') else super().model_obs(case, answers)

    def model_requests(self, case):
        if case.get('ctxfam'):
            return []
        # the model is also asked about the permuted layout: a dependency cycle through an !eval name (recorded finding D21) may be
        # reached in one layout only (another error comes first in the other)
        rng = _random.Random(case.get('vseed', 0))
        pdocs = [dict(d, raw=permute(rng, d['raw'])) for d in case['docs']]
        return super().model_requests(case) + [{'op': 'config', 'docs': pdocs, 'world': self.WORLD}]

    def oracle(self, case, io, ans):
        cfg = io['cfg']
        if cfg.get('err') == 'HANG':
            return 'evaluation did not terminate'
        if case.get('ctxfam'):
            keys = [sc_py(k) for k, _ in (case['docs'][0]['raw'].get('m', []) if case['docs'] else [])]
            if 'alias' not in keys or 'worker' not in keys:
                return None       # (shrunk) out of the family
            for what, r in (('as written', cfg), ('with permuted keys', io['perm']['cfg'])):
                if 'ok' not in r:
                    return f'{what}: a node handed back by evaluated code must evaluate: ' + json.dumps({k: v for k, v in r.items() if k != "log"})[:160]
                calls = [l for l in r.get('log', []) if l.startswith('call:')]
                if len(calls) != 1:
                    return f'{what}: the !call node reached through its own key and through the node handed back by evaluated code ran {len(calls)} times'
                d = dict((sc_py(k), v) for k, v in r['ok']['d'])
                if d.get('alias') != d.get('worker'):
                    return f'{what}: the value of the node handed back by evaluated code is not the value (the same object) of the node at its own key'
            return None
        nodes = io.get('nodes')
        if nodes is None:
            return None
        by_path = {n['p']: n for n in nodes}
        seen = {}
        for what, path, safe, args in io.get('exec', []):
            n = by_path.get(path)
            if n is None or n['kind'] not in ('call', 'bind', 'eval'):
                return f'{what} ran on behalf of {path!r}, which is not a dynamic node of the merged tree'
            seen[path] = seen.get(path, 0) + 1
        cyc0 = ans and ans[0].get('err') in ('recursion', 'unsupported')
        if 'ok' in cfg and cyc0 and any(k > 1 for k in seen.values()):
            return 'D21: a dependency cycle through an !eval name lookup does not fail and a dynamic node runs twice: ' + json.dumps({p: k for p, k in seen.items() if k > 1})
        if 'ok' in cfg and not has_leak(cfg['ok']) and not cyc0:
            for p, k in seen.items():
                if k != 1:
                    return f'the dynamic node at {p!r} was executed {k} times in one successful build'
            for n in nodes:
                if n['kind'] in ('call', 'eval') and n['p'] not in seen:
                    return f'the {n["kind"]} node at {n["p"]!r} survives merging but never ran in a successful build'
        if 'ok' in cfg and has_leak(cfg['ok']) and not cyc0:
            return 'a consumer received a lazy placeholder / node object instead of the evaluated object (depends on the order of keys)'
        ru = io.get('reuse')
        if ru is not None and not cyc0 and not str(ru.get('err', '')).startswith('harness:'):
            if ('ok' in cfg) != ('ok' in ru):
                return f'the same documents built with an evaluation context that was used before give {ru.get("err", "ok")} instead of {cfg.get("err", "ok")}'
            if 'ok' in cfg and not has_leak(cfg['ok']):
                if strip_ids(cfg['ok']) != strip_ids(ru['ok']) or cfg['ok'] != ru['ok']:
                    return 'a build with an evaluation context that was used before differs from the build with a fresh one (values or sharing of objects)'
                if sorted(e[0] + '@' + str(e[1]) for e in io['exec']) != ru['exec']:
                    return 'a build with a re-used evaluation context runs a different set of dynamic nodes'
        pc = io['perm']['cfg']
        cycp = bool(ans) and ans[-1].get('err') in ('recursion', 'unsupported')
        if 'ok' in pc and has_leak(pc['ok']) and not cyc0:
            if cycp:
                return ('D21: with permuted keys a dependency cycle through an !eval name lookup is reached (the model refuses it), the build '
                        'succeeds and a consumer receives a lazy placeholder')
            return 'with permuted keys a consumer received a lazy placeholder / node object instead of the evaluated object'
        cyc = ans and ans[0].get('err') in ('recursion', 'unsupported')
        if not cyc and not (('ok' in cfg and has_leak(cfg['ok'])) or ('ok' in pc and has_leak(pc['ok']))):
            if ('ok' in cfg) != ('ok' in pc):
                return f'permuting keys changed the outcome: {cfg.get("err", "ok")} vs {pc.get("err", "ok")}'
            if 'ok' in cfg and unordered(strip_ids(cfg['ok'])) != unordered(strip_ids(pc['ok'])):
                return 'permuting keys changed the evaluated config beyond key order'
            if 'ok' in cfg and sorted(e[0] + '@' + str(e[1]) for e in io['exec']) != sorted(e[0] + '@' + str(e[1]) for e in io['perm']['exec']):
                return 'permuting keys changed which dynamic nodes ran'
        return None

    def finding_key(self, case, desc):
        if desc and desc.startswith('D21'):
            return 'eval-cycle-placeholder'
        return None

    def nontrivial(self, case, io):
        return len(case['docs']) >= 2 or sum(1 for n in io.get('nodes', []) if n['kind'] == 'xref') >= 2

PROP = C10()
