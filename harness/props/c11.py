"""C11 — evaluation yields plain Python data and leaves the source tree reusable.

Input family: the dynamic-node documents of the evaluation family (gen_eval.gen_dyn_case); in a fraction P_ALIAS of the
cases one stage additionally gets a second spelling of a path that exists in the case (add_alias): a single mapping key
whose text is the NodePath string of several nested keys / list positions ("b.c" or "l[0]" next to b: {c: ..} / l: [..],
at any depth, in any stage, before or after the nested spelling), or a float key next to nested digit-string keys
(1.5 next to "1": {"5": ..}).  Two different nodes of the merged tree then have the same path string; each must still
evaluate to its own value (the `mirror` walk of the oracle)."""
from props.evalfam import *
import random
import gen_merge as G
from awesomeyaml.utils import Bunch

# ------------------------------------------------------------------------------------------------
# family `bunch`: operation sequences on a real Bunch / on a mapping of a real evaluated Config, step by step
# against AY.Model.Bunch (driver op bunch).  A case: {'kind': 'bunch', 'docs': [plain documents] | [], 'init': [[name, n]..]
# (a bare Bunch), 'target': path to the mapping inside the evaluated config, 'ops': [[kind, name] | [kind, name, n]..]}.
# Values are object NUMBERS: every Python object met is numbered by identity, so "is" is equality of numbers.
# ------------------------------------------------------------------------------------------------
_B_NAMES = ['a', 'b', 'lr', 'k', 'x1', '_x', '_y', '_w', '__m', 'keys', 'items', 'get', 'update', 'ayns', 'pop', 'ü', '', 'a b', '_',
            '_source', '_user_data', 'build', '_pprint_is_simple_list', 'copy', 'A', 'a.b']
_B_KINDS = ['getitem', 'setitem', 'delitem', 'getattr', 'setattr', 'delattr', 'contains']

class _Objs:
    """identity numbering of Python objects (kept alive, so that ids are not reused)"""
    def __init__(self):
        self.objs = []
    def num(self, o):
        for i, x in enumerate(self.objs):
            if x is o:
                return i
        self.objs.append(o)
        return len(self.objs) - 1
    def fresh(self, n):
        """the object a `set` operation with value number n writes: a new object, registered under the next number"""
        o = ['value', n]
        assert self.num(o) == n, (self.num(o), n)
        return o

def _key_token(k):
    return k if isinstance(k, str) else '\x00' + type(k).__name__ + ':' + repr(k)

def bunch_target(case):
    """(the real object the operations run on, the config it belongs to or None)"""
    if not case['docs']:
        return Bunch({k: ['init', v] for k, v in case['init']}), None
    cfg = Config(build_root(case['docs']))
    t = cfg
    for k in case['target']:
        t = t[sc_py(k)]
    return t, cfg

def bunch_state(b, objs):
    return {'items': [[_key_token(k), objs.num(v)] for k, v in dict.items(b)],
            'attrs': [[k, objs.num(v)] for k, v in b.__dict__.items()]}

def bunch_run(case):
    """the operations on the real object: initial state, per step the outcome, the state and what the oracle needs"""
    b, cfg = bunch_target(case)
    objs = _Objs()
    obs = {'type': type(b).__name__, 'is_bunch': isinstance(b, Bunch), 'init': bunch_state(b, objs), 'steps': [], 'checks': []}
    names = sorted(set(o[1] for o in case['ops']) | set(k for k in dict.keys(b) if isinstance(k, str)))
    obs['cls'] = [n for n in names if hasattr(type(b), n)]
    src = cfg.__dict__.get('_source') if cfg is not None else None      # an empty config keeps no source
    src_before = dump_node(src) if src is not None else None
    base = len(objs.objs)
    nxt = [base]
    for op in case['ops']:
        kind, name = op[0], op[1]
        val = None
        if len(op) > 2:
            val = objs.fresh(nxt[0]); nxt[0] += 1
        try:
            if kind == 'getitem': r = {'val': objs.num(b[name])}
            elif kind == 'setitem': b[name] = val; r = 'done'
            elif kind == 'delitem': del b[name]; r = 'done'
            elif kind == 'getattr':
                v = getattr(b, name)
                r = 'cls' if name in obs['cls'] and name not in b.__dict__ else {'val': objs.num(v)}
            elif kind == 'setattr': setattr(b, name, val); r = 'done'
            elif kind == 'delattr': delattr(b, name); r = 'done'
            elif kind == 'contains': r = {'bool': name in b}
            elif kind == 'dictSet': b.__dict__[name] = val; r = 'done'
            else: raise RuntimeError(kind)
        except (KeyError, AttributeError, ValueError) as e:
            r = type(e).__name__
        except Exception as e:  # noqa
            r = 'other:' + type(e).__name__
        obs['steps'].append({'res': r, 'state': bunch_state(b, objs)})
        # the property on the implementation alone, after every step
        backdoor = any(o[0] == 'dictSet' for o in case['ops'])
        for k, v in list(dict.items(b)):
            if isinstance(k, str) and k not in obs['cls'] and k not in b.__dict__ and not k.startswith('__'):
                try:
                    if getattr(b, k) is not v:
                        obs['checks'].append(f'after {op}: b.{k} is not b[{k!r}]')
                except Exception as e:  # noqa
                    obs['checks'].append(f'after {op}: b.{k} raised {type(e).__name__} although the key exists')
        if name not in b and name not in b.__dict__ and name not in obs['cls'] and not name.startswith('__'):
            try:
                getattr(b, name)
                obs['checks'].append(f'after {op}: b.{name} does not raise although {name!r} is not a key')
            except AttributeError:
                pass
            except Exception as e:  # noqa
                obs['checks'].append(f'after {op}: b.{name} raised {type(e).__name__}, not AttributeError')
        if kind in ('setattr', 'setitem') and r == 'done' and not name.startswith('_'):
            if name not in b or b[name] is not val:
                obs['checks'].append(f'after {op}: b[{name!r}] is not the object that was set')
        if kind in ('delattr', 'delitem') and r == 'done' and not name.startswith('_') and name in b and not backdoor:
            obs['checks'].append(f'after {op}: {name!r} is still a key')
        if kind == 'setattr' and r == 'ValueError' and not backdoor:
            obs['checks'].append(f'{op}: Name conflict without anybody writing to __dict__')
    if src is not None and dump_node(src) != src_before:
        obs['checks'].append('operating on the evaluated config changed the source tree')
    return obs

def _map_paths(raw, pre=()):
    """(path in protocol keys / list positions, raw mapping) of every mapping of a document"""
    out = [(list(pre), raw)] if 'm' in raw else []
    for k, c in (raw['m'] if 'm' in raw else list(enumerate(raw.get('q', [])))):
        out += _map_paths(c, pre + (k,))
    return out

def gen_bunch_case(rng):
    docs, init, target = [], [], []
    if rng.random() < 0.55:
        raw = G.gen_doc(rng, G.PLAIN, 3, 0.0)
        docs = [{'raw': raw}]
        target, m = rng.choice(_map_paths(raw))
        keys = [sc_py(k) for k, _ in m['m']]
    else:
        keys = rng.sample(['a', 'b', 'lr', '_w', 'keys', 'x1', 'ü'], rng.choice([0, 1, 2, 3]))
        init = [[k, i] for i, k in enumerate(keys)]
    pool = _B_NAMES + [k for k in keys if isinstance(k, str) and not (k.startswith('__') and k.endswith('__'))] * 3
    ops, backdoor = [], rng.random() < 0.12
    for _ in range(rng.choice([1, 3, 6, 10, 16])):
        kind = rng.choice(_B_KINDS + (['dictSet'] if backdoor else []))
        name = rng.choice(pool)
        if kind == 'dictSet':
            name = rng.choice(['q', 'a', 'lr', '_x', 'k'])
        ops.append([kind, name] + ([0] if kind in ('setitem', 'setattr', 'dictSet') else []))
    return {'docs': docs, 'style': ['flow', 0, 0], 'kind': 'bunch', 'init': init, 'target': target, 'ops': ops}

def bunch_requests(case, io):
    # value numbers of the set operations are assigned in order, after the objects of the initial state
    n = max([v for _, v in io['init']['items'] + io['init']['attrs']] + [-1]) + 1
    ops = []
    for op in case['ops']:
        if len(op) > 2:
            ops.append([op[0], op[1], n]); n += 1
        else:
            ops.append(list(op))
    return [{'op': 'bunch', 'cls': io['cls'], 'items': io['init']['items'], 'attrs': io['init']['attrs'], 'ops': ops}]

def bunch_compare(case, io, a):
    if 'bad' in a:
        return 'driver op bunch failed: ' + a['bad']
    for i, (op, st, res, mst) in enumerate(zip(case['ops'], io['steps'], a['trace'], a['states'])):
        if st['res'] != res:
            return f'step {i} {op}: implementation {json.dumps(st["res"])}, model {json.dumps(res)}'
        if st['state'] != mst:
            return f'step {i} {op}: state after the operation differs: implementation {json.dumps(st["state"])}, model {json.dumps(mst)}'
    return None

def py_walk_leaks(v, path='cfg', seen=None):
    """paths at which an awesomeyaml object (node / PartialChild) or a non-exact scalar type occurs, keys included"""
    seen = seen if seen is not None else set()
    out = []
    if id(v) in seen:
        return out
    if isinstance(v, (ConfigNode, EvalContext.PartialChild)):
        return [f'{path}: {type(v).__name__}']
    if isinstance(v, dict):
        seen.add(id(v))
        for k, x in v.items():
            if isinstance(k, ConfigNode):
                out.append(f'{path}: key {k!r} is a {type(k).__name__}')
            out += py_walk_leaks(x, f'{path}[{k!r}]', seen)
    elif isinstance(v, (list, tuple)):
        seen.add(id(v))
        for i, x in enumerate(v):
            out += py_walk_leaks(x, f'{path}[{i}]', seen)
    elif isinstance(v, (bool, int, float, str)) and type(v) not in (bool, int, float, str):
        out.append(f'{path}: scalar of type {type(v).__name__}')
    elif isinstance(v, (evalrun.Rec,)):
        for k, x in v.named: out += py_walk_leaks(x, f'{path}.{k}', seen)
        for i, x in enumerate(v.va): out += py_walk_leaks(x, f'{path}.va[{i}]', seen)
        for k, x in v.vk.items(): out += py_walk_leaks(x, f'{path}.vk[{k}]', seen)
    elif isinstance(v, evalrun.TupleRec):
        for i, x in enumerate(v.items): out += py_walk_leaks(x, f'{path}.t[{i}]', seen)
    return out

def raw_at(raw, path):
    """the raw node at `path` of a document, or None"""
    for k in path:
        if 'm' in raw:
            hit = [c for kk, c in raw['m'] if (sc_py(kk) if not isinstance(kk, dict) else kk['f']) == k]
            if not hit: return None
            raw = hit[-1]
        elif 'q' in raw and isinstance(k, int) and 0 <= k < len(raw['q']):
            raw = raw['q'][k]
        else:
            return None
    return raw

def is_plain_map(raw):
    return raw is not None and 'm' in raw and (raw.get('t') or {'k': 'plain'}).get('k') == 'plain'

def xref_texts(docs):
    return set(n['s']['x'] for d in docs for _, n in G.paths_of(d['raw']) if 's' in n and 'x' in n['s'] and (n.get('t') or {}).get('k') == 'xref')

def ambiguous_strings(docs):
    """path strings spelled by two different paths of the documents (NodePath strings are not injective:
    the key 'a.b' below the root and the key 'b' below 'a' are both 'a.b')"""
    by = {}
    for d in docs:
        for p, _ in G.paths_of(d['raw']):
            by.setdefault(NodePath.join_path(list(p)), set()).add(tuple((type(k).__name__, k) for k in p))
    return set(s for s, ps in by.items() if len(ps) > 1)

def alias_value(rng):
    """a plain value that differs in value (and mostly in type) from everything the base generator writes"""
    return rng.choice([lambda: S('alias'), lambda: S(77), lambda: S(2.5), lambda: Q([S('alias')]), lambda: Q([]),
                       lambda: M({'al': S(77)}), lambda: M({})])()

def add_alias(rng, docs):
    """Adds to a plain mapping of one stage a second spelling of a path that exists in the case: a single key whose
    text is the path string of several nested keys / list positions ('b.c' or 'l[0]' next to b: {c: ..} / l: [..]),
    or a float key next to nested digit-string keys (1.5 next to '1': {'5': ..}); placed before or after the nested
    spelling. Returns the new documents, or None when no alias fits."""
    docs = copy.deepcopy(docs)
    j = rng.randrange(len(docs))
    if rng.random() < 0.15:
        def deleting(n):
            return n is not None and ('q' in n or (n.get('t') or {}).get('k') in ('call', 'bind') or (n.get('kw') or {}).get('del'))
        def pruned(p):   # another stage holds a deleting node (list, function node, !del) at or above the mapping
            return any(deleting(raw_at(d['raw'], p[:i])) for dj, d in enumerate(docs) if dj != j for i in range(1, len(p) + 1))
        maps = [n for p, n in G.paths_of(docs[j]['raw']) if is_plain_map(n)]      # also where a deleting node prunes it (repo fix D34)
        if not maps:
            return None
        tgt = rng.choice(maps)
        pair = [[sc_json(1.5), alias_value(rng)], ['1', M({'5': S(rng.choice([0, 'p', None]))})]]
        rng.shuffle(pair)
        for kv in pair:
            tgt['m'].insert(rng.randrange(len(tgt['m']) + 1), kv)
    else:
        cands = [p for d in docs for p, _ in G.paths_of(d['raw']) if len(p) >= 2 and all(isinstance(k, (str, int)) and not isinstance(k, bool) for k in p)]
        if not cands:
            return None
        p = rng.choice(cands)
        splits = [i for i in range(len(p) - 1) if isinstance(p[i], str) and is_plain_map(raw_at(docs[j]['raw'], p[:i]))]
        if not splits:
            return None
        i = rng.choice(splits)
        tgt = raw_at(docs[j]['raw'], p[:i])
        key = NodePath.join_path(list(p[i:]))
        keys = [sc_py(k) if not isinstance(k, dict) else k['f'] for k, _ in tgt['m']]
        if key in keys:
            return None
        pos = keys.index(p[i]) + rng.choice([0, 1]) if p[i] in keys and rng.random() < 0.8 else rng.randrange(len(keys) + 1)
        tgt['m'].insert(pos, [key, alias_value(rng)])
    return docs      # references that spell a shared path string are included (repo fix D33: they mean the nested path)

class C11(EvalFamProp):
    ID = 'C11'
    P_ALIAS = 0.3
    P_UNSAFE = 0.0
    P_UNSAFE_SRC = 0.0
    P_BAD = 0.03
    RULE = ('1-3 stages of plain and dynamic nodes (all scalar types, underscore keys, empty containers, xref / call / bind / eval); '
            'in 30% of the cases a plain mapping of one stage also gets a key that spells an existing nested path as one string '
            '("b.c", "l[0]", float 1.5 next to "1": {"5": ..}) so that two nodes share a path string; '
            'after a successful build the result is walked for node objects (keys included) and non-exact scalar types, attribute '
            'access is compared with item access, the kept source is evaluated again (twice) and the result is mutated; '
            'non-trivial = the build succeeds with a non-empty config; distinct by SHA-1')
    ASSUMPTIONS = ['the value returned by a user callable is the callable\'s business: only what awesomeyaml itself produces is walked',
                   'a reference whose text is shared by two paths ("a.b" next to a key "a.b") means the nested path; before repo fix D33 '
                   'the answer depended on the evaluation order, before D34 a float key below a pruned mapping raised MergeError - both '
                   'kinds of input are part of the family now']

    def gen_cases(self, rng, n, tier):
        cases = EvalFamProp.gen_cases(self, rng, n, tier)
        r2 = random.Random(rng.random())
        CODE = ['q = [1, 2]\nq', "d = {'a': [1], 'b': {}}\nd", 'x = []\nx.append([0])\nx', 'y = {}\ny["l"] = [k]\ny',
                'def mk():\n    return [[1], {"z": 2}]\nmk()']
        for i in range(max(3, len(cases) // 15)):
            items = [(nm, Stext(r2.choice(CODE), 'eval')) for nm in r2.sample(['a', 'b', 'c', 'e'], r2.choice([1, 2]))] + [('k', S(5))]
            if r2.random() < 0.5:
                items = [('n', M(items[:1])), ('l', Q([Stext(r2.choice(CODE), 'eval')]))] + items[1:]
            r2.shuffle(items)
            cases[(7 * i + 3) % len(cases)] = {'docs': [{'raw': M(items)}], 'style': ['flow', 0, 0]}
        # evaluated code that EDITS the tree being evaluated (it reaches it through `ayns.ctx.cfg`; outside the model: oracle only):
        # evaluation works on its own copy, the source kept by the config must stay as merged and evaluate to the same again (S7-C11)
        MUT = ["f = ayns.ctx.cfg.ayns.get_node('m.l')\nf.append(9)\nlen(f)",
               "d = ayns.ctx.cfg['m']['d']\nd['w'] = 2 * int(d['w'])\nint(d['w'])",
               "ayns.ctx.cfg['m']['d']['n'] = 1\nlen(ayns.ctx.cfg['m']['d'])",
               "l = ayns.ctx.cfg['m']['l']\ndel l[0]\nlen(l)"]
        for i in range(max(2, len(cases) // 25)):
            items = [('m', M([('l', Q([S(1), S(2)])), ('d', M([('w', S(8))]))])), ('c', Stext(r2.choice(MUT), 'eval')), ('k', S(5))]
            r2.shuffle(items)
            if r2.random() < 0.4:
                items = [('o', M(items[:2]))] + items[2:] if items[0][0] != 'm' and items[1][0] != 'm' else items
            cases.append({'docs': [{'raw': M(items)}], 'style': ['block', 0, 0], 'mutating': True})
        # SIZE: nesting just beyond a hundred levels, and one anchored mapping aliased dozens of times (the evaluation of a node that
        # was evaluated before is answered from a cache: many such answers in one evaluation) - seeded change S8-C11: a depth guard
        # counting entries that are never popped. The aliased documents are outside the model (shared nodes): oracle only.
        for i in range(2):
            depth = r2.choice([101, 102, 103, 104])
            inner = S(r2.randrange(9))
            for _ in range(depth):
                inner = M([('a', inner)])
            cases.append({'docs': [{'raw': M([('k', S(1)), ('d', inner)])}], 'style': ['flow', 0, 0], 'huge': True})
        for i in range(2):
            cnt = r2.choice([40, 55, 70])
            body = r2.choice([M([('k', S(1)), ('l', Q([S(2)]))]), Q([S(1), M([('z', S(2))])]), M([('k', S(1))], kw={'prio': 1})])
            items = [('first', dict(body, anchor='rep'))] + [('r%d' % j, {'alias': 'rep'}) for j in range(cnt)]
            cases.append({'docs': [{'raw': M(items)}], 'style': ['flow', 0, 0], 'huge': True, 'mutating': False, 'shared_doc': True})
        for c in cases:
            if c.get('mutating') or c.get('huge'):
                continue
            if r2.random() < self.P_ALIAS:
                for _ in range(3):
                    docs = add_alias(r2, c['docs'])
                    if docs is not None:
                        c['docs'] = docs
                        break
        r3 = random.Random(rng.random())      # drawn after the others: those stay as they were
        return cases + [gen_bunch_case(r3) for _ in range(max(1, n // 2))]

    def model_requests(self, case):
        if case.get('files') or case.get('mutating') or case.get('shared_doc'):
            return []           # !rec is outside the model (DESIGN section 6): the oracle alone applies
        if case.get('kind') == 'bunch':
            return bunch_requests(case, bunch_run(case))
        return EvalFamProp.model_requests(self, case)

    def model_obs(self, case, answers):
        if case.get('files') or case.get('mutating') or case.get('shared_doc'):
            return {'rec': True}
        if case.get('kind') == 'bunch':
            return {'bunch': answers[0]}
        return EvalFamProp.model_obs(self, case, answers)

    def compare(self, case, io, mo):
        if case.get('files') or case.get('mutating') or case.get('shared_doc'):
            return 'SKIP'
        if case.get('kind') == 'bunch':
            return bunch_compare(case, io, mo['bunch'])
        return EvalFamProp.compare(self, case, io, mo)

    def render(self, case):
        if case.get('kind') == 'bunch':
            head = EvalFamProp.render(self, case) + [f'target: cfg{"".join("[%r]" % sc_py(k) for k in case["target"])}'] if case['docs'] \
                else [f'Bunch({dict((k, ("init", v)) for k, v in case["init"])!r})']
            return head + ['ops: ' + json.dumps(case['ops'], ensure_ascii=False)]
        return EvalFamProp.render(self, case)

    def shrink(self, case):
        if case.get('kind') == 'bunch':
            ops = case['ops']
            for i in range(len(ops)):
                yield dict(case, ops=ops[:i] + ops[i + 1:])
            return
        yield from EvalFamProp.shrink(self, case)

    def corpus(self):
        D = lambda *raws: {'docs': [{'raw': r} for r in raws], 'style': ['flow', 0, 0]}
        B = lambda init, ops, docs=(), target=(): {'docs': [{'raw': r} for r in docs], 'style': ['flow', 0, 0], 'kind': 'bunch',
                                                   'init': init, 'target': list(target), 'ops': ops}
        cfgdoc = M({'_w': S(3), 'a': M({'_u': S(1), 'v': S(True), 'lr': Q([S(0.1)])}), 'k': S('x')})
        return [
            # the witnesses of Props/C11_Bunch.lean: underscore attribute, class attribute, Name conflict, KeyError of `del b.zz`
            B([['a', 0], ['_w', 1]], [['setattr', '_t', 0], ['getattr', '_t'], ['getitem', '_t'], ['getattr', '_w'], ['delattr', '_t'], ['getattr', '_t']]),
            B([['a', 0]], [['setattr', 'keys', 0], ['getitem', 'keys'], ['getattr', 'keys'], ['delattr', 'keys'], ['delattr', 'keys']]),
            B([['a', 0]], [['dictSet', 'q', 0], ['setattr', 'q', 0], ['getattr', 'q'], ['getitem', 'q'], ['delattr', 'q'], ['setattr', 'q', 0], ['getattr', 'q']]),
            B([['a', 0]], [['delattr', 'zz'], ['delitem', 'zz'], ['getattr', 'zz'], ['getitem', 'zz'], ['contains', 'zz'], ['contains', 'a']]),
            B([], [['setattr', 'lr', 0], ['getitem', 'lr'], ['setitem', 'k', 0], ['getattr', 'k'], ['delattr', 'lr'], ['getattr', 'lr']], [cfgdoc]),
            B([], [['getattr', '_u'], ['setattr', '_u', 0], ['getattr', '_u'], ['getitem', '_u'], ['delattr', '_u'], ['getattr', '_u'], ['delattr', '_u'],
                   ['getattr', '_u'], ['getattr', 'lr'], ['setattr', 'lr', 0], ['getitem', 'lr']], [cfgdoc], ['a']),
            B([], [['getattr', 'ayns'], ['setattr', 'ayns', 0], ['getitem', 'ayns'], ['getattr', 'ayns'], ['delattr', 'ayns'], ['delattr', 'ayns'],
                   ['getattr', '_source'], ['delattr', '_user_data'], ['getattr', '_user_data']], [cfgdoc]),
        ] + [
            # lazily included files (!rec): evaluating must not rewrite the kept source (seeded change S6-C11), outside the model
            dict(D(M({'which': S(1), 'sub': Stext('t1.yaml', 'rec', txt='!rec'), 'm': M({'r': Stext('t2.yaml', 'rec', txt='!rec')})})),       # (a !rec node inside a LIST fails on getattr(enode, int): !rec is outside every domain)
                 files={'t1.yaml': 'p: 1\nq: [1, {r: 2}]\n', 't2.yaml': 'x: {y: 3}\n'}),
            dict(D(M({'a': M({'b': Q([Stext('t1.yaml', 'rec', txt='!rec'), Stext('t2.yaml', 'rec', txt='!rec')], tag='rec', txt='!rec')})})),
                 files={'t1.yaml': 'p: 1\n', 't2.yaml': 'p: 2\nz: [0]\n'}),
            # evaluated code that builds containers (several statements): outside the model's restricted !eval (comparison skipped),
            # the re-evaluation / mutation checks apply (seeded change S5-C11: a cached namespace handed the same objects out again)
            D(M({'k': S(3), 'e': Stext('q = [1, 2]\nq', 'eval'), 'm': Stext("d = {'a': [k], 'b': {}}\nd", 'eval')})),
            D(M({'n': M({'e': Stext('import collections\nq = collections.OrderedDict(a=[1])\ndict(q)', 'eval')}), 'l': Q([Stext('x = []\nx.append([0])\nx', 'eval')])})),
            D(M({'_w': S(3), 'a': M({'_u': S(1), 'v': S(True), 'n': S(None), 'f': S(1.5), 'e': Sempty()}), 'l': Q([M({}), Q([])])})),   # D02
            D(M({'r': Stext('bar.z', 'xref'), 'c': Stext('T(bar)', 'eval'), 'bar': M({'z': S(1), 'y': S(2)})})),                        # D20
            D(M({'c': Stext('T(d, S1, k)', 'eval'), 'k': S(12), 'd': M({'a': M({}), 'c': Stext('c', 'xref')})})),                        # D21 (known finding)
            # two nodes with one path string (seeded S3-C11): each evaluates to its own value, whichever comes first
            D(M([('k.z', S(2.5)), ('k', M({'z': S(True)}))])),
            D(M({'x': M({'a': Q([])})}), M({'x.a': S('alias')})),
            D(M([('b[0]', S(2.5)), ('b', Q([Q([])]))])),
            D(M([(1.5, M({})), ('1', M({'5': S(0)}))])),
            D(M({'o': M({'lr': Q([S(0.1), S(0.01)]), 'm': S(0.9)}), 'o.lr': S(0.1), 'r': Stext('o.m', 'xref'), 'c': Stext('T(o)', 'eval')})),
        ]

    def impl(self, case):
        if case.get('kind') == 'bunch':
            return bunch_run(case)
        def extra(obs, root, cfg, w):
            checks = []
            checks += py_walk_leaks(cfg)
            def attrs(b, path, depth=0):
                if isinstance(b, dict):
                    for k in list(b.keys()):
                        if isinstance(b, Bunch) and isinstance(k, str) and k.isidentifier() and not k.startswith('__') and not hasattr(dict, k) and k not in ('ayns',) \
                                and not (depth == 0 and k in ('_source', '_user_data')):
                            try:
                                if getattr(b, k) is not b[k]:
                                    checks.append(f'{path}.{k} is not {path}[{k!r}]')
                            except Exception as e:
                                checks.append(f'{path}.{k} raised {type(e).__name__} although the key exists')
                        attrs(b[k], f'{path}[{k!r}]', depth + 1)
                elif isinstance(b, list):
                    for i, x in enumerate(b):
                        attrs(x, f'{path}[{i}]', depth + 1)
            attrs(cfg, 'cfg')
            def mirror(node, val, path):
                t = type(node)
                if t is ConfigDict:
                    if not isinstance(val, dict):
                        checks.append(f'{path}: mapping node evaluated to {type(val).__name__}'); return
                    nk = [sc_py(native_key(k)) for k, _ in node.ayns.named_children()]
                    if list(val.keys()) != nk:
                        checks.append(f'{path}: keys {list(val.keys())!r} do not mirror the merged tree {nk!r}'); return
                    for k, c in node.ayns.named_children():
                        mirror(c, val[sc_py(native_key(k))], f'{path}[{sc_py(native_key(k))!r}]')
                elif t is ConfigList:
                    if type(val) is not list or len(val) != node.ayns.children_count():
                        checks.append(f'{path}: list node evaluated to {type(val).__name__} of length {len(val) if hasattr(val, "__len__") else "?"}'); return
                    for (k, c), v in zip(node.ayns.named_children(), val):
                        mirror(c, v, f'{path}[{k}]')
                elif type(node).__name__.startswith('ConfigScalar'):
                    nv = node.ayns.native_value
                    if type(val) is not type(nv) or (val != nv and not (val != val and nv != nv)):
                        checks.append(f'{path}: scalar {nv!r} ({type(nv).__name__}) evaluated to {val!r} ({type(val).__name__})')
            if not case.get('mutating'):      # code that edits the tree under evaluation: the result mirrors the edited copy, not the source
                mirror(cfg.ayns.source, cfg, 'cfg')
            if not isinstance(cfg, Bunch):
                checks.append('result is not a Bunch')
            src = cfg.ayns.source
            before = dump_node(src)
            if obs.get('pre_dump') is not None:
                d = first_diff(obs.pop('pre_dump'), before)
                if d:
                    checks.append('the source tree kept by the config differs from the merged tree it was constructed from (evaluation rewrote it): ' + d)
            first = renumber(conv_val(cfg, w, {}))
            for i in range(2):
                again = Config(src, eval_ctx=EvalContext(eval_symbols=w.syms))
                if renumber(conv_val(again, w, {})) != first:
                    checks.append(f're-evaluating the kept source (#{i + 1}) gives a different result')
                if '"part"' not in json.dumps(first) and again != cfg:
                    checks.append(f'Config(cfg.ayns.source) != cfg (#{i + 1})')
            if dump_node(src) != before:
                checks.append('evaluating modified the source tree')
            # the other way in: a copy of the kept source evaluated directly with EvalContext.evaluate, not through Config - evaluation
            # reads the nodes, it does not rewrite them (seeded change S9-C11: the imported target was stored on the node)
            if not case.get('files') and not case.get('mutating'):
                try:
                    import copy as _copy
                    t2 = _copy.deepcopy(src)
                    b2 = dump_node(t2)
                    EvalContext(eval_symbols=w.syms).evaluate(t2)
                    d2 = first_diff(b2, dump_node(t2))
                    if d2:
                        checks.append('evaluating a tree directly (EvalContext.evaluate) rewrote its nodes: ' + d2)
                except Exception:  # noqa
                    pass
            # mutate the evaluated config everywhere we can, the source must not change
            def mutate(v, depth=0):
                if isinstance(v, dict):
                    for k in list(v.keys()):
                        mutate(v[k], depth + 1)
                    v['__mut__'] = depth
                elif isinstance(v, list):
                    for x in v: mutate(x, depth + 1)
                    v.append('__mut__')
            mutate(cfg)
            if dump_node(src) != before:
                checks.append('mutating the evaluated config changed the source tree')
            # ... nor what the source evaluates to (objects built by evaluated code must be fresh in every evaluation)
            try:
                again = Config(src, eval_ctx=EvalContext(eval_symbols=w.syms))
                if renumber(conv_val(again, w, {})) != first:
                    checks.append('after mutating the evaluated config, evaluating the kept source gives a different result')
            except Exception as e:  # noqa
                checks.append(f'after mutating the evaluated config, evaluating the kept source raises {type(e).__name__}')
            obs['checks'] = checks
        if case.get('files'):
            # lazily included files (`!rec name`): real files in a temp directory that is the working directory during the run
            import tempfile, shutil
            d = tempfile.mkdtemp(prefix='ayc11_'); old = os.getcwd()
            try:
                for name, text in case['files'].items():
                    with open(os.path.join(d, name), 'w') as f:
                        f.write(text)
                os.chdir(d)
                return run_case(case['docs'], self.WORLD, tuple(case.get('style', ['flow', 0, 0])), extra=extra)
            finally:
                os.chdir(old); shutil.rmtree(d, ignore_errors=True)
        return run_case(case['docs'], self.WORLD, tuple(case.get('style', ['flow', 0, 0])), extra=extra)

    def oracle(self, case, io, ans):
        if case.get('kind') == 'bunch':
            if not io['is_bunch']:
                return f'the mapping at {case["target"]} of the evaluated config is a {io["type"]}, not a Bunch'
            return io['checks'][0] if io['checks'] else None
        if io['cfg'].get('err') == 'HANG':
            return 'evaluation did not terminate'
        if case.get('huge') and case['docs'] and case['docs'][0]['raw'].get('m'):
            if io['cfg'].get('err') == 'recursion':
                return None          # the interpreter's own recursion limit: not what is under test
            if 'ok' not in io['cfg']:
                return ('a plain document (deeply nested / one mapping aliased many times) must evaluate: '
                        + json.dumps({k: v for k, v in io['cfg'].items() if k != 'log'})[:200])
        cyc = ans and ans[0].get('err') in ('recursion', 'unsupported')
        for c in io.get('checks', []):
            if cyc and ('PartialChild' in c or 'key' in c or 're-evaluating' in c or '!= cfg' in c):
                return 'D21: a dependency cycle through an !eval name leaks a lazy placeholder into the result: ' + c
            return c
        return None

    def features(self, case, io):
        if case.get('kind') == 'bunch':
            f = ['kind:bunch', 'bunch:on-' + (io.get('type', '?') if isinstance(io, dict) else '?') + ('' if not case['docs'] else '-of-config'),
                 'bunch:depth=%d' % len(case['target'])]
            for op, st in zip(case['ops'], io.get('steps', []) if isinstance(io, dict) else []):
                r = st['res']
                f.append('bunch:' + op[0] + '->' + (r if isinstance(r, str) else next(iter(r))))
                if op[1].startswith('_'): f.append('bunch:underscore-name')
                if op[1] in io.get('cls', []): f.append('bunch:class-attribute-name')
            return sorted(set(f))
        return EvalFamProp.features(self, case, io) + (['shared-path-string'] if ambiguous_strings(case['docs']) else [])

    def finding_key(self, case, desc):
        if desc and desc.startswith('D21'):
            return 'eval-cycle-placeholder'
        return None

    def nontrivial(self, case, io):
        if case.get('kind') == 'bunch':
            return len(case['ops']) > 1
        return 'ok' in io.get('cfg', {})

PROP = C11()
