"""C11 — evaluation yields plain Python data and leaves the source tree reusable.

Input family: the dynamic-node documents of the evaluation family (gen_eval.gen_dyn_case); in a fraction P_ALIAS of the
cases one stage additionally gets a second spelling of a path that exists in the case (add_alias): a single mapping key
whose text is the NodePath string of several nested keys / list positions ("b.c" or "l[0]" next to b: {c: ..} / l: [..],
at any depth, in any stage, before or after the nested spelling), or a float key next to nested digit-string keys
(1.5 next to "1": {"5": ..}).  Two different nodes of the merged tree then have the same path string; each must still
evaluate to its own value (the `mirror` walk of the oracle)."""
from props.evalfam import *
import random
import gen_merge as G
from awesomeyaml.utils import Bunch

def py_walk_leaks(v, path='cfg', seen=None):
    """paths at which an awesomeyaml object (node / PartialChild) or a non-exact scalar type occurs, keys included"""
    seen = seen if seen is not None else set()
    out = []
    if id(v) in seen:
        return out
    if isinstance(v, (ConfigNode, EvalContext.PartialChild)):
        return [f'{path}: {type(v).__name__}']
    if isinstance(v, dict):
        seen.add(id(v))
        for k, x in v.items():
            if isinstance(k, ConfigNode):
                out.append(f'{path}: key {k!r} is a {type(k).__name__}')
            out += py_walk_leaks(x, f'{path}[{k!r}]', seen)
    elif isinstance(v, (list, tuple)):
        seen.add(id(v))
        for i, x in enumerate(v):
            out += py_walk_leaks(x, f'{path}[{i}]', seen)
    elif isinstance(v, (bool, int, float, str)) and type(v) not in (bool, int, float, str):
        out.append(f'{path}: scalar of type {type(v).__name__}')
    elif isinstance(v, (evalrun.Rec,)):
        for k, x in v.named: out += py_walk_leaks(x, f'{path}.{k}', seen)
        for i, x in enumerate(v.va): out += py_walk_leaks(x, f'{path}.va[{i}]', seen)
        for k, x in v.vk.items(): out += py_walk_leaks(x, f'{path}.vk[{k}]', seen)
    elif isinstance(v, evalrun.TupleRec):
        for i, x in enumerate(v.items): out += py_walk_leaks(x, f'{path}.t[{i}]', seen)
    return out

def raw_at(raw, path):
    """the raw node at `path` of a document, or None"""
    for k in path:
        if 'm' in raw:
            hit = [c for kk, c in raw['m'] if (sc_py(kk) if not isinstance(kk, dict) else kk['f']) == k]
            if not hit: return None
            raw = hit[-1]
        elif 'q' in raw and isinstance(k, int) and 0 <= k < len(raw['q']):
            raw = raw['q'][k]
        else:
            return None
    return raw

def is_plain_map(raw):
    return raw is not None and 'm' in raw and (raw.get('t') or {'k': 'plain'}).get('k') == 'plain'

def xref_texts(docs):
    return set(n['s']['x'] for d in docs for _, n in G.paths_of(d['raw']) if 's' in n and 'x' in n['s'] and (n.get('t') or {}).get('k') == 'xref')

def ambiguous_strings(docs):
    """path strings spelled by two different paths of the documents (NodePath strings are not injective:
    the key 'a.b' below the root and the key 'b' below 'a' are both 'a.b')"""
    by = {}
    for d in docs:
        for p, _ in G.paths_of(d['raw']):
            by.setdefault(NodePath.join_path(list(p)), set()).add(tuple((type(k).__name__, k) for k in p))
    return set(s for s, ps in by.items() if len(ps) > 1)

def alias_value(rng):
    """a plain value that differs in value (and mostly in type) from everything the base generator writes"""
    return rng.choice([lambda: S('alias'), lambda: S(77), lambda: S(2.5), lambda: Q([S('alias')]), lambda: Q([]),
                       lambda: M({'al': S(77)}), lambda: M({})])()

def add_alias(rng, docs):
    """Adds to a plain mapping of one stage a second spelling of a path that exists in the case: a single key whose
    text is the path string of several nested keys / list positions ('b.c' or 'l[0]' next to b: {c: ..} / l: [..]),
    or a float key next to nested digit-string keys (1.5 next to '1': {'5': ..}); placed before or after the nested
    spelling. Returns the new documents, or None when no alias fits."""
    docs = copy.deepcopy(docs)
    j = rng.randrange(len(docs))
    if rng.random() < 0.15:
        def deleting(n):
            return n is not None and ('q' in n or (n.get('t') or {}).get('k') in ('call', 'bind') or (n.get('kw') or {}).get('del'))
        def pruned(p):   # another stage holds a deleting node (list, function node, !del) at or above the mapping
            return any(deleting(raw_at(d['raw'], p[:i])) for dj, d in enumerate(docs) if dj != j for i in range(1, len(p) + 1))
        maps = [n for p, n in G.paths_of(docs[j]['raw']) if is_plain_map(n)]      # also where a deleting node prunes it (repo fix D34)
        if not maps:
            return None
        tgt = rng.choice(maps)
        pair = [[sc_json(1.5), alias_value(rng)], ['1', M({'5': S(rng.choice([0, 'p', None]))})]]
        rng.shuffle(pair)
        for kv in pair:
            tgt['m'].insert(rng.randrange(len(tgt['m']) + 1), kv)
    else:
        cands = [p for d in docs for p, _ in G.paths_of(d['raw']) if len(p) >= 2 and all(isinstance(k, (str, int)) and not isinstance(k, bool) for k in p)]
        if not cands:
            return None
        p = rng.choice(cands)
        splits = [i for i in range(len(p) - 1) if isinstance(p[i], str) and is_plain_map(raw_at(docs[j]['raw'], p[:i]))]
        if not splits:
            return None
        i = rng.choice(splits)
        tgt = raw_at(docs[j]['raw'], p[:i])
        key = NodePath.join_path(list(p[i:]))
        keys = [sc_py(k) if not isinstance(k, dict) else k['f'] for k, _ in tgt['m']]
        if key in keys:
            return None
        pos = keys.index(p[i]) + rng.choice([0, 1]) if p[i] in keys and rng.random() < 0.8 else rng.randrange(len(keys) + 1)
        tgt['m'].insert(pos, [key, alias_value(rng)])
    return docs      # references that spell a shared path string are included (repo fix D33: they mean the nested path)

class C11(EvalFamProp):
    ID = 'C11'
    P_ALIAS = 0.3
    P_UNSAFE = 0.0
    P_UNSAFE_SRC = 0.0
    P_BAD = 0.03
    RULE = ('1-3 stages of plain and dynamic nodes (all scalar types, underscore keys, empty containers, xref / call / bind / eval); '
            'in 30% of the cases a plain mapping of one stage also gets a key that spells an existing nested path as one string '
            '("b.c", "l[0]", float 1.5 next to "1": {"5": ..}) so that two nodes share a path string; '
            'after a successful build the result is walked for node objects (keys included) and non-exact scalar types, attribute '
            'access is compared with item access, the kept source is evaluated again (twice) and the result is mutated; '
            'non-trivial = the build succeeds with a non-empty config; distinct by SHA-1')
    ASSUMPTIONS = ['the value returned by a user callable is the callable\'s business: only what awesomeyaml itself produces is walked',
                   'a reference whose text is shared by two paths ("a.b" next to a key "a.b") means the nested path; before repo fix D33 '
                   'the answer depended on the evaluation order, before D34 a float key below a pruned mapping raised MergeError - both '
                   'kinds of input are part of the family now']

    def gen_cases(self, rng, n, tier):
        cases = EvalFamProp.gen_cases(self, rng, n, tier)
        r2 = random.Random(rng.random())
        for c in cases:
            if r2.random() < self.P_ALIAS:
                for _ in range(3):
                    docs = add_alias(r2, c['docs'])
                    if docs is not None:
                        c['docs'] = docs
                        break
        return cases

    def corpus(self):
        D = lambda *raws: {'docs': [{'raw': r} for r in raws], 'style': ['flow', 0, 0]}
        return [
            D(M({'_w': S(3), 'a': M({'_u': S(1), 'v': S(True), 'n': S(None), 'f': S(1.5), 'e': Sempty()}), 'l': Q([M({}), Q([])])})),   # D02
            D(M({'r': Stext('bar.z', 'xref'), 'c': Stext('T(bar)', 'eval'), 'bar': M({'z': S(1), 'y': S(2)})})),                        # D20
            D(M({'c': Stext('T(d, S1, k)', 'eval'), 'k': S(12), 'd': M({'a': M({}), 'c': Stext('c', 'xref')})})),                        # D21 (known finding)
            # two nodes with one path string (seeded S3-C11): each evaluates to its own value, whichever comes first
            D(M([('k.z', S(2.5)), ('k', M({'z': S(True)}))])),
            D(M({'x': M({'a': Q([])})}), M({'x.a': S('alias')})),
            D(M([('b[0]', S(2.5)), ('b', Q([Q([])]))])),
            D(M([(1.5, M({})), ('1', M({'5': S(0)}))])),
            D(M({'o': M({'lr': Q([S(0.1), S(0.01)]), 'm': S(0.9)}), 'o.lr': S(0.1), 'r': Stext('o.m', 'xref'), 'c': Stext('T(o)', 'eval')})),
        ]

    def impl(self, case):
        def extra(obs, root, cfg, w):
            checks = []
            checks += py_walk_leaks(cfg)
            def attrs(b, path, depth=0):
                if isinstance(b, dict):
                    for k in list(b.keys()):
                        if isinstance(b, Bunch) and isinstance(k, str) and k.isidentifier() and not k.startswith('__') and not hasattr(dict, k) and k not in ('ayns',) \
                                and not (depth == 0 and k in ('_source', '_user_data')):
                            try:
                                if getattr(b, k) is not b[k]:
                                    checks.append(f'{path}.{k} is not {path}[{k!r}]')
                            except Exception as e:
                                checks.append(f'{path}.{k} raised {type(e).__name__} although the key exists')
                        attrs(b[k], f'{path}[{k!r}]', depth + 1)
                elif isinstance(b, list):
                    for i, x in enumerate(b):
                        attrs(x, f'{path}[{i}]', depth + 1)
            attrs(cfg, 'cfg')
            def mirror(node, val, path):
                t = type(node)
                if t is ConfigDict:
                    if not isinstance(val, dict):
                        checks.append(f'{path}: mapping node evaluated to {type(val).__name__}'); return
                    nk = [sc_py(native_key(k)) for k, _ in node.ayns.named_children()]
                    if list(val.keys()) != nk:
                        checks.append(f'{path}: keys {list(val.keys())!r} do not mirror the merged tree {nk!r}'); return
                    for k, c in node.ayns.named_children():
                        mirror(c, val[sc_py(native_key(k))], f'{path}[{sc_py(native_key(k))!r}]')
                elif t is ConfigList:
                    if type(val) is not list or len(val) != node.ayns.children_count():
                        checks.append(f'{path}: list node evaluated to {type(val).__name__} of length {len(val) if hasattr(val, "__len__") else "?"}'); return
                    for (k, c), v in zip(node.ayns.named_children(), val):
                        mirror(c, v, f'{path}[{k}]')
                elif type(node).__name__.startswith('ConfigScalar'):
                    nv = node.ayns.native_value
                    if type(val) is not type(nv) or (val != nv and not (val != val and nv != nv)):
                        checks.append(f'{path}: scalar {nv!r} ({type(nv).__name__}) evaluated to {val!r} ({type(val).__name__})')
            mirror(cfg.ayns.source, cfg, 'cfg')
            if not isinstance(cfg, Bunch):
                checks.append('result is not a Bunch')
            src = cfg.ayns.source
            before = dump_node(src)
            first = renumber(conv_val(cfg, w, {}))
            for i in range(2):
                again = Config(src, eval_ctx=EvalContext(eval_symbols=w.syms))
                if renumber(conv_val(again, w, {})) != first:
                    checks.append(f're-evaluating the kept source (#{i + 1}) gives a different result')
                if '"part"' not in json.dumps(first) and again != cfg:
                    checks.append(f'Config(cfg.ayns.source) != cfg (#{i + 1})')
            if dump_node(src) != before:
                checks.append('evaluating modified the source tree')
            # mutate the evaluated config everywhere we can, the source must not change
            def mutate(v, depth=0):
                if isinstance(v, dict):
                    for k in list(v.keys()):
                        mutate(v[k], depth + 1)
                    v['__mut__'] = depth
                elif isinstance(v, list):
                    for x in v: mutate(x, depth + 1)
                    v.append('__mut__')
            mutate(cfg)
            if dump_node(src) != before:
                checks.append('mutating the evaluated config changed the source tree')
            obs['checks'] = checks
        return run_case(case['docs'], self.WORLD, tuple(case.get('style', ['flow', 0, 0])), extra=extra)

    def oracle(self, case, io, ans):
        if io['cfg'].get('err') == 'HANG':
            return 'evaluation did not terminate'
        cyc = ans and ans[0].get('err') in ('recursion', 'unsupported')
        for c in io.get('checks', []):
            if cyc and ('PartialChild' in c or 'key' in c or 're-evaluating' in c or '!= cfg' in c):
                return 'D21: a dependency cycle through an !eval name leaks a lazy placeholder into the result: ' + c
            return c
        return None

    def features(self, case, io):
        return EvalFamProp.features(self, case, io) + (['shared-path-string'] if ambiguous_strings(case['docs']) else [])

    def finding_key(self, case, desc):
        if desc and desc.startswith('D21'):
            return 'eval-cycle-placeholder'
        return None

    def nontrivial(self, case, io):
        return 'ok' in io.get('cfg', {})

PROP = C11()
