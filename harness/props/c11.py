"""C11 — evaluation yields plain Python data and leaves the source tree reusable."""
from props.evalfam import *
from awesomeyaml.utils import Bunch

def py_walk_leaks(v, path='cfg', seen=None):
    """paths at which an awesomeyaml object (node / PartialChild) or a non-exact scalar type occurs, keys included"""
    seen = seen if seen is not None else set()
    out = []
    if id(v) in seen:
        return out
    if isinstance(v, (ConfigNode, EvalContext.PartialChild)):
        return [f'{path}: {type(v).__name__}']
    if isinstance(v, dict):
        seen.add(id(v))
        for k, x in v.items():
            if isinstance(k, ConfigNode):
                out.append(f'{path}: key {k!r} is a {type(k).__name__}')
            out += py_walk_leaks(x, f'{path}[{k!r}]', seen)
    elif isinstance(v, (list, tuple)):
        seen.add(id(v))
        for i, x in enumerate(v):
            out += py_walk_leaks(x, f'{path}[{i}]', seen)
    elif isinstance(v, (bool, int, float, str)) and type(v) not in (bool, int, float, str):
        out.append(f'{path}: scalar of type {type(v).__name__}')
    elif isinstance(v, (evalrun.Rec,)):
        for k, x in v.named: out += py_walk_leaks(x, f'{path}.{k}', seen)
        for i, x in enumerate(v.va): out += py_walk_leaks(x, f'{path}.va[{i}]', seen)
        for k, x in v.vk.items(): out += py_walk_leaks(x, f'{path}.vk[{k}]', seen)
    elif isinstance(v, evalrun.TupleRec):
        for i, x in enumerate(v.items): out += py_walk_leaks(x, f'{path}.t[{i}]', seen)
    return out

class C11(EvalFamProp):
    ID = 'C11'
    P_UNSAFE = 0.0
    P_UNSAFE_SRC = 0.0
    P_BAD = 0.03
    RULE = ('1-3 stages of plain and dynamic nodes (all scalar types, underscore keys, empty containers, xref / call / bind / eval); '
            'after a successful build the result is walked for node objects (keys included) and non-exact scalar types, attribute '
            'access is compared with item access, the kept source is evaluated again (twice) and the result is mutated; '
            'non-trivial = the build succeeds with a non-empty config; distinct by SHA-1')
    ASSUMPTIONS = ['the value returned by a user callable is the callable\'s business: only what awesomeyaml itself produces is walked']

    def corpus(self):
        D = lambda *raws: {'docs': [{'raw': r} for r in raws], 'style': ['flow', 0, 0]}
        return [
            D(M({'_w': S(3), 'a': M({'_u': S(1), 'v': S(True), 'n': S(None), 'f': S(1.5), 'e': Sempty()}), 'l': Q([M({}), Q([])])})),   # D02
            D(M({'r': Stext('bar.z', 'xref'), 'c': Stext('T(bar)', 'eval'), 'bar': M({'z': S(1), 'y': S(2)})})),                        # D20
            D(M({'c': Stext('T(d, S1, k)', 'eval'), 'k': S(12), 'd': M({'a': M({}), 'c': Stext('c', 'xref')})})),                        # D21 (known finding)
        ]

    def impl(self, case):
        def extra(obs, root, cfg, w):
            checks = []
            checks += py_walk_leaks(cfg)
            def attrs(b, path, depth=0):
                if isinstance(b, dict):
                    for k in list(b.keys()):
                        if isinstance(k, str) and k.isidentifier() and not k.startswith('__') and not hasattr(dict, k) and k not in ('ayns',) \
                                and not (depth == 0 and k in ('_source', '_user_data')):
                            try:
                                if getattr(b, k) is not b[k]:
                                    checks.append(f'{path}.{k} is not {path}[{k!r}]')
                            except Exception as e:
                                checks.append(f'{path}.{k} raised {type(e).__name__} although the key exists')
                        attrs(b[k], f'{path}[{k!r}]', depth + 1)
                elif isinstance(b, list):
                    for i, x in enumerate(b):
                        attrs(x, f'{path}[{i}]', depth + 1)
            attrs(cfg, 'cfg')
            def mirror(node, val, path):
                t = type(node)
                if t is ConfigDict:
                    if not isinstance(val, dict):
                        checks.append(f'{path}: mapping node evaluated to {type(val).__name__}'); return
                    nk = [sc_py(native_key(k)) for k, _ in node.ayns.named_children()]
                    if list(val.keys()) != nk:
                        checks.append(f'{path}: keys {list(val.keys())!r} do not mirror the merged tree {nk!r}'); return
                    for k, c in node.ayns.named_children():
                        mirror(c, val[sc_py(native_key(k))], f'{path}[{sc_py(native_key(k))!r}]')
                elif t is ConfigList:
                    if type(val) is not list or len(val) != node.ayns.children_count():
                        checks.append(f'{path}: list node evaluated to {type(val).__name__} of length {len(val) if hasattr(val, "__len__") else "?"}'); return
                    for (k, c), v in zip(node.ayns.named_children(), val):
                        mirror(c, v, f'{path}[{k}]')
                elif type(node).__name__.startswith('ConfigScalar'):
                    nv = node.ayns.native_value
                    if type(val) is not type(nv) or (val != nv and not (val != val and nv != nv)):
                        checks.append(f'{path}: scalar {nv!r} ({type(nv).__name__}) evaluated to {val!r} ({type(val).__name__})')
            mirror(cfg.ayns.source, cfg, 'cfg')
            if not isinstance(cfg, Bunch):
                checks.append('result is not a Bunch')
            src = cfg.ayns.source
            before = dump_node(src)
            first = renumber(conv_val(cfg, w, {}))
            for i in range(2):
                again = Config(src, eval_ctx=EvalContext(eval_symbols=w.syms))
                if renumber(conv_val(again, w, {})) != first:
                    checks.append(f're-evaluating the kept source (#{i + 1}) gives a different result')
                if '"part"' not in json.dumps(first) and again != cfg:
                    checks.append(f'Config(cfg.ayns.source) != cfg (#{i + 1})')
            if dump_node(src) != before:
                checks.append('evaluating modified the source tree')
            # mutate the evaluated config everywhere we can, the source must not change
            def mutate(v, depth=0):
                if isinstance(v, dict):
                    for k in list(v.keys()):
                        mutate(v[k], depth + 1)
                    v['__mut__'] = depth
                elif isinstance(v, list):
                    for x in v: mutate(x, depth + 1)
                    v.append('__mut__')
            mutate(cfg)
            if dump_node(src) != before:
                checks.append('mutating the evaluated config changed the source tree')
            obs['checks'] = checks
        return run_case(case['docs'], self.WORLD, tuple(case.get('style', ['flow', 0, 0])), extra=extra)

    def oracle(self, case, io, ans):
        if io['cfg'].get('err') == 'HANG':
            return 'evaluation did not terminate'
        cyc = ans and ans[0].get('err') in ('recursion', 'unsupported')
        for c in io.get('checks', []):
            if cyc and ('PartialChild' in c or 'key' in c or 're-evaluating' in c or '!= cfg' in c):
                return 'D21: a dependency cycle through an !eval name leaks a lazy placeholder into the result: ' + c
            return c
        return None

    def finding_key(self, case, desc):
        if desc and desc.startswith('D21'):
            return 'eval-cycle-placeholder'
        return None

    def nontrivial(self, case, io):
        return 'ok' in io.get('cfg', {})

PROP = C11()
