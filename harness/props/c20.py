"""C20 — concurrent builds do not influence each other.

A case is a workload (files, one build job per thread: `Builder()` + `add_source(file, safe=flag)`...
+ `build()`) and a schedule (which thread starts, list of preemptions `[thread, local step, target]`).
The implementation run executes the jobs in real threads under a deterministic scheduler: a
`sys.settrace` tracer lets exactly one thread run at a time and hands control over only at 'line'
events inside the source files of the implementation (every .py file of the package), at the local step
numbers named by the schedule (CHESS style preemption bounding; a thread runs until it is preempted or
finishes).  The same tracer records, by source line, the events of the slot machine of
lean/AY/Model/Slots.lean: the single lines of `ConfigNode.default_filename` /
`ConfigNode.default_safe_flag` (init, save, install, exit), the two reads in `ConfigNode.__init__`,
the lines of `errors.api_entry` (check, set, clear) and raised exceptions, each with the value the
real run observed.  Nothing in the implementation is modified.

* oracle (implementation alone): every thread's result (per node: path, type, source file,
  `_default_safe`, effective safe flag; or exception class, cause chain and message) equals the result
  of building the same inputs alone in a fresh thread.
* correspondence: the recorded interleaved trace is replayed by the driver op `c20` through the
  per-thread-cell machine; the value the model predicts for every read / api_entry check / raise must
  be the value the real run observed; the reads must also be the ones prescribed by the thread's own
  history (`specReads`, theorem C20_reads_own_context).
"""
import os, sys, re, json, time, threading, tempfile, shutil, random, select, signal, traceback
import common
from common import Builder, ConfigNode, REPO, ayerrors
from framework import Prop, case_digest

PKG = os.path.realpath(os.path.join(REPO, 'awesomeyaml'))
# every source file of the package is a place where the scheduler may hand control over (shared state may live anywhere,
# not only next to the thread-local slots); the four files holding slot-machine lines keep their short tags
SWITCH_FILES = {}
for _d, _sub, _fs in os.walk(PKG):
    for _f in _fs:
        if _f.endswith('.py'):
            _p = os.path.join(_d, _f)
            SWITCH_FILES[_p] = os.path.relpath(_p, PKG)
SWITCH_FILES.update({os.path.join(PKG, 'nodes', 'node.py'): 'node', os.path.join(PKG, 'builder.py'): 'builder',
                     os.path.join(PKG, 'errors.py'): 'errors', os.path.join(PKG, 'yaml.py'): 'yaml'})
STALL_S = 60.0

# ----------------------------------------------------------------------------------------------
# anchors: source lines of the implementation that are events of the slot machine
# ----------------------------------------------------------------------------------------------

_NODE_PATTERNS = [
    (r"^\s*if not hasattr\(ConfigNode\._default_filename, 'value'\):", ('init', 'file')),
    (r"^\s*old = ConfigNode\._default_filename\.value\s*$", ('save', 'file')),
    (r"^\s*ConfigNode\._default_filename\.value = filename\s*$", ('install', 'file')),
    (r"^\s*ConfigNode\._default_filename\.value = old\s*$", ('exit', 'file')),
    (r"^\s*if not hasattr\(ConfigNode\._default_safe, 'value'\):", ('init', 'safe')),
    (r"^\s*old = ConfigNode\._default_safe\.value\s*$", ('save', 'safe')),
    (r"^\s*ConfigNode\._default_safe\.value = value and old\s*$", ('install', 'safe')),
    (r"^\s*ConfigNode\._default_safe\.value = old\s*$", ('exit', 'safe')),
    (r"^\s*self\._source_file = source_file if source_file is not None else getattr\(ConfigNode\._default_filename, 'value', None\)", ('read', 'file')),
    (r"^\s*self\._default_safe = getattr\(ConfigNode\._default_safe, 'value', False\)", ('read', 'safe')),
]
_ERRORS_PATTERNS = [
    (r"^\s*if getattr\(_api_entered, 'value', False\) or not rethrow or not shorten_traceback:", ('apiCheck',)),
    (r"^\s*_api_entered\.value = True\s*$", ('apiSet',)),
    (r"^\s*_api_entered\.value = False\s*$", ('apiExit',)),
]

def ast_anchor(lines, act):
    """line numbers of the statement of nodes/node.py that plays the role `act` in the slot machine, found by structure:
    inside ConfigNode.default_filename / default_safe_flag the `if` testing hasattr (init), the assignment reading the cell
    into a local (save), the assignment writing the local back (exit), the other assignment to the cell outside the init
    branch (install); inside ConfigNode.__init__ the assignment to self._source_file / self._default_safe (read)"""
    import ast
    kind, slot = act
    attr = {'file': '_default_filename', 'safe': '_default_safe'}[slot]
    try:
        tree = ast.parse('\n'.join(lines))
    except SyntaxError:
        return []
    cls = [c for c in ast.walk(tree) if isinstance(c, ast.ClassDef) and c.name == 'ConfigNode']
    if len(cls) != 1:
        return []
    funcs = {f.name: f for f in cls[0].body if isinstance(f, ast.FunctionDef)}
    def is_cell(e):      # <something>.<attr>.value
        return isinstance(e, ast.Attribute) and e.attr == 'value' and isinstance(e.value, ast.Attribute) and e.value.attr == attr
    if kind == 'read':
        f = funcs.get('__init__')
        want = {'file': '_source_file', 'safe': '_default_safe'}[slot]
        return sorted({n.lineno for n in ast.walk(f) if isinstance(n, ast.Assign) and any(
            isinstance(t, ast.Attribute) and t.attr == want and isinstance(t.value, ast.Name) and t.value.id == 'self' for t in n.targets)}) if f else []
    f = funcs.get({'file': 'default_filename', 'safe': 'default_safe_flag'}[slot])
    if f is None:
        return []
    inits = [n for n in ast.walk(f) if isinstance(n, ast.If) and 'hasattr' in ast.dump(n.test) and attr in ast.dump(n.test)]
    inside_init = {id(x) for i in inits for x in ast.walk(i)}
    if kind == 'init':
        return sorted({n.lineno for n in inits})
    assigns = [n for n in ast.walk(f) if isinstance(n, ast.Assign) and id(n) not in inside_init]
    saves = [n for n in assigns if is_cell(n.value) and len(n.targets) == 1 and isinstance(n.targets[0], ast.Name)]
    if kind == 'save':
        return sorted({n.lineno for n in saves})
    saved = {n.targets[0].id for n in saves}
    writes = [n for n in assigns if any(is_cell(t) for t in n.targets)]
    exits = [n for n in writes if isinstance(n.value, ast.Name) and n.value.id in saved]
    if kind == 'exit':
        return sorted({n.lineno for n in exits})
    if kind == 'install':
        return sorted({n.lineno for n in writes if n not in exits})
    return []

def find_anchors():
    out = {}
    for tag, path, pats in (('node', os.path.join(PKG, 'nodes', 'node.py'), _NODE_PATTERNS),
                            ('errors', os.path.join(PKG, 'errors.py'), _ERRORS_PATTERNS)):
        lines = open(path, newline='').read().splitlines()
        for pat, act in pats:
            hits = [i + 1 for i, l in enumerate(lines) if re.search(pat, l)]
            if len(hits) != 1 and act == ('apiCheck',):
                # the guard test may be spelled differently (De Morgan, extra locals): the `if` statements of errors.api_entry
                # whose test reads the thread-local guard
                import ast
                tree = ast.parse('\n'.join(lines))
                hits = sorted({n.lineno for f in ast.walk(tree) if isinstance(f, ast.FunctionDef) and f.name == 'api_entry'
                               for n in ast.walk(f) if isinstance(n, ast.If) and '_api_entered' in ast.dump(n.test)})[:1]
            if len(hits) != 1 and tag == 'node':
                hits = ast_anchor(lines, act)       # spelled differently: look the statement up by its structure
            if len(hits) != 1:
                # the implementation no longer has this line (or has it twice): the recorded trace cannot be replayed through the
                # slot machine - the correspondence is reported as broken for every case (see `compare`), the oracle, which needs
                # no anchors, still runs, so a change of the implementation is searched for a failing schedule all the same
                MISSING_ANCHORS.append(f'{act} matches {len(hits)} lines of {os.path.relpath(path, PKG)}')
                continue
            out[(tag, hits[0])] = act
    return out

MISSING_ANCHORS = []
ANCHORS = find_anchors()
EMITTING = ('read', 'apiCheck', 'apiEnter', 'raise')

# ----------------------------------------------------------------------------------------------
# the deterministic scheduler + recorder
# ----------------------------------------------------------------------------------------------

class Run:
    def __init__(self, nthreads, first, preempt, root):
        self.n = nthreads
        self.root = root
        self.first = first
        self.sems = [threading.Semaphore(0) for _ in range(nthreads)]
        self.alive = [True] * nthreads
        self.steps = [0] * nthreads
        self.pre = {}
        for t, k, tgt in preempt:
            self.pre.setdefault((t, k), tgt)
        self.events = []      # [tid, event] in global order (protocol form of the driver)
        self.ev_step = []     # local step of the thread at each event
        self.observed = []    # [tid, value] for every emitting event, in global order
        self.switches = []    # [index of next event, from, to, where]
        self.pending = [None] * nthreads
        self.api_frames = [dict() for _ in range(nthreads)]
        self.last_exc = [None] * nthreads
        self.error = None
        self.fmap = {}
        self.results = [None] * nthreads

    # -- values ------------------------------------------------------------------------------
    def norm(self, s):
        return s.replace(self.root, '$D') if isinstance(s, str) else s

    def val(self, x):
        if x is None or isinstance(x, bool):
            return x
        if isinstance(x, str):
            return self.norm(x)
        return 'repr:' + self.norm(repr(x))

    # -- scheduling --------------------------------------------------------------------------
    def wait(self, tid):
        if not self.sems[tid].acquire(timeout=STALL_S):
            self.error = self.error or f'scheduler stalled waiting for thread {tid}'
            raise RuntimeError(self.error)

    def pick(self, tid, tgt):
        for d in range(self.n):
            c = (tgt + d) % self.n
            if c != tid and self.alive[c]:
                return c
        return None

    def switch(self, tid, tgt, where):
        tgt = self.pick(tid, tgt)
        if tgt is None:
            return
        self.switches.append([len(self.events), tid, tgt, where])
        self.sems[tgt].release()
        self.wait(tid)

    def done(self, tid):
        self.alive[tid] = False
        nxt = self.pick(tid, (tid + 1) % self.n)
        if nxt is not None:
            self.sems[nxt].release()

    # -- recording ---------------------------------------------------------------------------
    def marker(self):
        return self.val(getattr(ayerrors._api_entered, 'value', False))

    def emit(self, tid, ev, observed=None, has_obs=False):
        self.events.append([tid, ev])
        self.ev_step.append(self.steps[tid])
        if has_obs:
            self.observed.append([tid, observed])

    def flush(self, tid, force=False):
        idx, obj, attr = self.pending[tid]
        if not force and attr not in getattr(obj, '__dict__', {attr: 0}):
            return      # the assignment of the recorded line is still running (a traced __setattr__ of a container class)
        self.pending[tid] = None
        self.observed[idx][1] = self.val(getattr(obj, attr, 'repr:<unset>'))

    def record(self, tid, act, frame):
        k = act[0]
        if k == 'read':
            if act[1] == 'file':
                if frame.f_locals.get('source_file') is not None:
                    return      # explicit source_file: the slot is not read
                attr = '_source_file'
            else:
                attr = '_default_safe'
            self.emit(tid, ['read', act[1]], None, True)
            self.pending[tid] = (len(self.observed) - 1, frame.f_locals['self'], attr)
        elif k == 'install':
            v = frame.f_locals['filename'] if act[1] == 'file' else frame.f_locals['value']
            self.emit(tid, ['install', act[1], self.val(v)])
        elif k in ('init', 'save', 'exit'):
            self.emit(tid, [k, act[1]])
        elif k == 'apiCheck':
            self.api_frames[tid][id(frame)] = False
            self.emit(tid, ['apiCheck'], self.marker(), True)
        elif k == 'apiSet':
            self.api_frames[tid][id(frame)] = True
            self.emit(tid, ['apiSet'])
        elif k == 'apiExit':
            self.emit(tid, ['apiExit'])

    def tracers(self, tid):
        fmap, anchors, pre, steps = self.fmap, ANCHORS, self.pre, self.steps

        def local(frame, event, arg):
            try:
                if self.pending[tid] is not None:
                    self.flush(tid)
                code = frame.f_code
                tag = fmap[code.co_filename]
                if event == 'line':
                    steps[tid] += 1
                    if pre:
                        tgt = pre.get((tid, steps[tid]))
                        if tgt is not None:
                            self.switch(tid, tgt, f'{tag}:{code.co_name}:{frame.f_lineno}')
                    act = anchors.get((tag, frame.f_lineno))
                    if act is not None:
                        self.record(tid, act, frame)
                elif event == 'return':
                    if tag == 'errors' and self.api_frames[tid]:
                        owner = self.api_frames[tid].pop(id(frame), None)
                        if owner is False:
                            self.emit(tid, ['apiExit'])   # a nested api_entry activation ends without touching the marker
                elif event == 'exception':
                    if arg[1] is not self.last_exc[tid]:
                        self.last_exc[tid] = arg[1]
                        self.emit(tid, ['raise', type(arg[1]).__name__], self.marker(), True)
            except BaseException as e:   # noqa - never let the tracer disturb the traced code
                self.error = self.error or f'tracer: {type(e).__name__}: {e}'
            return local

        def glob(frame, event, arg):
            fn = frame.f_code.co_filename
            tag = fmap.get(fn, 0)
            if tag == 0:
                tag = fmap[fn] = SWITCH_FILES.get(os.path.realpath(fn))
            return local if tag is not None else None

        return glob

    def worker(self, tid, job):
        try:
            self.wait(tid)
        except RuntimeError:
            return
        sys.settrace(self.tracers(tid))
        try:
            root = None
            try:
                root = job()
            finally:
                sys.settrace(None)
                if self.pending[tid] is not None:
                    self.flush(tid, force=True)
            self.results[tid] = {'nodes': observe_tree(root, self), 'err': None}
        except Exception as e:   # noqa
            self.results[tid] = {'nodes': None, 'err': observe_error(e, self)}
        finally:
            self.last_exc[tid] = None
            self.done(tid)

    def go(self, jobs):
        ths = [threading.Thread(target=self.worker, args=(i, j), daemon=True) for i, j in enumerate(jobs)]
        for t in ths:
            t.start()
        self.sems[self.first].release()
        deadline = time.time() + STALL_S * 2
        for t in ths:
            t.join(max(0.1, deadline - time.time()))
        if any(t.is_alive() for t in ths):
            raise RuntimeError(self.error or 'C20 harness: worker threads did not finish')
        if self.error:
            raise RuntimeError('C20 harness: ' + self.error)

def observe_tree(root, run):
    if root is None:
        return []
    out = []
    for p, n in root.ayns.nodes_with_paths(include_self=True):
        out.append([str(p), type(n).__name__, run.norm(n.ayns.source_file), run.val(n._default_safe), bool(n.ayns.safe)])
    return out

def observe_error(e, run):
    chain, x, seen = [], e, set()
    while x is not None and id(x) not in seen:
        seen.add(id(x))
        chain.append(type(x).__name__)
        x = x.__cause__ or x.__context__
    msg = re.sub(r'0x[0-9a-fA-F]+', '0x?', run.norm(str(e)))
    tb, t = [], e.__traceback__
    while t is not None:      # the frames the error is reported with (api_entry shortens this for the outermost entry only)
        tb.append(t.tb_frame.f_code.co_name)
        t = t.tb_next
    return {'cls': type(e).__name__, 'chain': chain, 'msg': msg[:600], 'tb': tb[1:]}

def make_job(spec, root):
    def job():
        b = Builder()
        for name, safe in spec['sources']:
            if name.startswith('raw:'):      # YAML text handed over directly, without a file name: its nodes record no file
                with open(os.path.join(root, name[4:])) as f:
                    b.add_source(f.read(), raw_yaml=True, safe=safe)
            else:
                b.add_source(os.path.join(root, name), safe=safe)
        return b.build()
    return job

def write_files(case):
    root = os.path.realpath(tempfile.mkdtemp(prefix='c20_'))
    for name, text in case['files'].items():
        with open(os.path.join(root, name), 'w') as f:
            f.write(text)
    return root

def run_concurrent(case, root, preempt=None):
    r = Run(len(case['threads']), case.get('first', 0) % len(case['threads']),
            case['preempt'] if preempt is None else preempt, root)
    r.go([make_job(s, root) for s in case['threads']])
    return r

def run_sequential(case, root):
    """every job alone, one after the other, each in a fresh thread, no tracer"""
    out = []
    for spec in case['threads']:
        r = Run(1, 0, [], root)
        def body(spec=spec, r=r):
            try:
                r.results[0] = {'nodes': observe_tree(make_job(spec, root)(), r), 'err': None}
            except Exception as e:   # noqa
                r.results[0] = {'nodes': None, 'err': observe_error(e, r)}
        t = threading.Thread(target=body)
        t.start(); t.join()
        out.append(r.results[0])
    return out

def run_sequential_main(case, root):
    """every job alone, one after the other, in the CALLING thread (in the forked child: the thread that imported the
    implementation) - "built sequentially" as a program without threads does it"""
    out = []
    for spec in case['threads']:
        r = Run(1, 0, [], root)
        try:
            out.append({'nodes': observe_tree(make_job(spec, root)(), r), 'err': None})
        except Exception as e:   # noqa
            out.append({'nodes': None, 'err': observe_error(e, r)})
    return out

ISOLATE = hasattr(os, 'fork') and not os.environ.get('C20_NO_FORK')

def isolated(fn, timeout=300):
    """run fn() in a forked child and return its JSON-able result: every run starts from the state the harness
    process had after importing the implementation, so a case replays identically whatever ran before it
    (this matters exactly when the implementation keeps state that is not per thread)"""
    if not ISOLATE:
        return json.loads(json.dumps(fn()))
    rfd, wfd = os.pipe()
    pid = os.fork()
    if pid == 0:
        try:
            os.close(rfd)
            try:
                out = {'ok': fn()}
            except BaseException as e:   # noqa
                out = {'error': f'{type(e).__name__}: {e}', 'tb': traceback.format_exc()[-1500:]}
            with os.fdopen(wfd, 'wb') as f:
                f.write(json.dumps(out).encode())
        finally:
            os._exit(0)
    os.close(wfd)
    chunks, deadline = [], time.time() + timeout
    try:
        while True:
            ready, _, _ = select.select([rfd], [], [], max(0.0, deadline - time.time()))
            if not ready:
                os.kill(pid, signal.SIGKILL)
                raise RuntimeError('C20 harness: isolated run timed out')
            b = os.read(rfd, 1 << 16)
            if not b:
                break
            chunks.append(b)
    finally:
        os.close(rfd)
        os.waitpid(pid, 0)
    data = b''.join(chunks)
    if not data:
        raise RuntimeError('C20 harness: isolated run died without a result')
    out = json.loads(data)
    if 'error' in out:
        raise RuntimeError('C20 harness (child): ' + out['error'] + '\n' + out.get('tb', ''))
    return out['ok']

def concurrent_result(case, root, preempt=None):
    r = run_concurrent(case, root, preempt)
    return {'threads': r.results, 'trace': r.events, 'observed': r.observed, 'switches': r.switches,
            'steps': list(r.steps), 'ev_step': r.ev_step}

_SEQ_CACHE = {}
_PROFILE_CACHE = {}

def workload_key(case):
    return json.dumps([case['files'], case['threads']], sort_keys=True)

def sequential(case):
    key = workload_key(case)
    if key not in _SEQ_CACHE:
        root = write_files(case)
        try:
            _SEQ_CACHE[key] = [isolated(lambda: run_sequential(case, root)), isolated(lambda: run_sequential_main(case, root))]
        finally:
            shutil.rmtree(root, ignore_errors=True)
    return _SEQ_CACHE[key]

def profile(case):
    """per thread: number of local steps and the local steps at which slot-machine events happen
    (from an unpreempted traced run; local steps do not depend on the schedule)"""
    key = workload_key(case)
    if key not in _PROFILE_CACHE:
        root = write_files(case)
        try:
            r = isolated(lambda: concurrent_result(case, root, preempt=[]))
        finally:
            shutil.rmtree(root, ignore_errors=True)
        hot = [dict() for _ in case['threads']]
        for (tid, ev), st in zip(r['trace'], r['ev_step']):
            hot[tid].setdefault(ev[0], []).append(st)
        _PROFILE_CACHE[key] = {'steps': r['steps'], 'hot': hot}
    return _PROFILE_CACHE[key]

# ----------------------------------------------------------------------------------------------
# workloads
# ----------------------------------------------------------------------------------------------

def W(files, *threads):
    return {'files': files, 'threads': [{'sources': [list(s) for s in t]} for t in threads]}

def base_workloads():
    inc = 'p: 1\nq: [1, {r: 2}]\n'
    return {
        'plain2': W({'f0.yaml': 'a0: {b: [1, 2, {c: 0}]}\nz: 0\n', 'f1.yaml': 'a1: {b: [1, 2, {c: 1}]}\nz: 1\n'},
                    [('f0.yaml', True)], [('f1.yaml', False)]),
        'tiny2': W({'f0.yaml': 'a: 0\n', 'f1.yaml': 'b: 1\n'}, [('f0.yaml', True)], [('f1.yaml', False)]),
        'include2': W({'m0.yaml': 'base: !include i0.yaml\nx: 0\n', 'i0.yaml': inc,
                       'm1.yaml': 'k: [1, !include i1.yaml]\n', 'i1.yaml': 'u: {v: w}\n'},
                      [('m0.yaml', True)], [('m1.yaml', False)]),
        'shared_include': W({'m0.yaml': 'base: !include common.yaml\nx: 0\n', 'm1.yaml': 'y: 1\nother: !include common.yaml\n',
                             'common.yaml': inc},
                            [('m0.yaml', True)], [('m1.yaml', False)]),
        'unsafe_include': W({'m0.yaml': 'x: !unsafe\n  k: !include i0.yaml\ny: !include i0.yaml\n', 'i0.yaml': inc,
                             'f1.yaml': 'a: [1, 2]\n'},
                            [('m0.yaml', True)], [('f1.yaml', True)]),
        'missing_include': W({'f0.yaml': 'a0: {b: [1, 2]}\n', 'bad1.yaml': 'first: 1\nm: !include nothere.yaml\n'},
                             [('f0.yaml', False)], [('bad1.yaml', True)]),
        'bad_yaml': W({'f0.yaml': 'a0: {b: [1, 2]}\n---\na0: {c: 3}\n', 'bad1.yaml': 'ok: {x: 1}\n---\na: [1, 2\nb: }\n'},
                      [('f0.yaml', True)], [('bad1.yaml', False)]),
        'merge_error': W({'f0.yaml': 'a: 1\n---\n!notnew {b: 2}\n', 'f1.yaml': 'c: [1]\n'},
                         [('f0.yaml', True)], [('f1.yaml', False)]),
        'two_sources': W({'f0.yaml': 'a: {x: 1}\n', 'g0.yaml': 'a: {y: 2}\nb: 3\n', 'f1.yaml': 'a: {x: 9}\n', 'g1.yaml': 'a: {x: 8, z: 7}\n'},
                         [('f0.yaml', True), ('g0.yaml', False)], [('f1.yaml', False), ('g1.yaml', True)]),
        'three': W({'f0.yaml': 'a: 0\nl: [1]\n', 'f1.yaml': 'b: !include i1.yaml\n', 'i1.yaml': 'c: 1\n', 'bad2.yaml': 'a: !nosuchtag 1\n'},
                   [('f0.yaml', True)], [('f1.yaml', False)], [('bad2.yaml', True)]),
        # the SAME metadata block text in the files of different threads, also on include nodes (whose file decides where the included
        # name is looked up): anything keyed by the text of a block must not carry a file across builds (seeded change S8-C20)
        'same_blocks': W({'f0.yaml': "a: !metadata{{'note': 1}} {x: 0}\nb: !force{{'k': 2}} [1]\n", 'f1.yaml': "c: !metadata{{'note': 1}} {y: 1}\nd: !force{{'k': 2}} 5\n",
                          'f2.yaml': "e: !metadata{{'note': 1}} 7\n"},
                         [('f0.yaml', True)], [('f1.yaml', False)], [('f2.yaml', True)]),
        'same_block_includes': W({'m0.yaml': "x: !include{{'note': 1}} i0.yaml\n", 'i0.yaml': 'p: 0\n', 'm1.yaml': "y: !include{{'note': 1}} i1.yaml\nz: 1\n", 'i1.yaml': 'q: 1\n'},
                                 [('m0.yaml', True)], [('m1.yaml', False)]),
        'both_fail': W({'bad0.yaml': 'm: !include nothere0.yaml\n', 'bad1.yaml': 'x: 1\n---\n!notnew {n: 2}\n'},
                       [('bad0.yaml', True)], [('bad1.yaml', False)]),
    }

_FRAGMENTS = ['{k}: {i}\n', '{k}: [1, 2, {{c: {i}}}]\n', '{k}: {{p: {{q: {i}}}}}\n', '{k}: !include inc{i}.yaml\n',
              '{k}: !unsafe\n  u: !include inc{i}.yaml\n', '{k}: !eval 1+{i}\n', '{k}: text{i}\n']
_FAILS = ['{k}: !include missing{i}.yaml\n', '{k}: [1, 2\n', '{k}: !nosuchtag 1\n']

def random_workload(rng):
    n = rng.choice([2, 2, 2, 3])
    files, threads = {}, []
    failing = rng.randrange(n) if rng.random() < 0.5 else None
    for i in range(n):
        srcs = []
        for j in range(rng.choice([1, 1, 2])):
            keys = rng.sample(['a', 'b', 'c', 'd'], rng.randint(1, 3))
            text = ''.join(rng.choice(_FRAGMENTS).format(k=k, i=i) for k in keys)
            if failing == i and j == 0:
                text += rng.choice(_FAILS).format(k='bad', i=i)
            name = f't{i}s{j}.yaml'
            files[name] = text
            # a third of the sources are given as text without a name (seeded change S6-C20: a process-wide "current file" that
            # only a nameless source of another thread reads); includes inside them resolve against the working directory only
            raw = rng.random() < 0.3 and '!include' not in text
            srcs.append([('raw:' if raw else '') + name, rng.random() < 0.5])
        files[f'inc{i}.yaml'] = rng.choice(['p: 1\n', 'p: [1, {r: 2}]\n', f'p: !include deep{i}.yaml\n'])
        files[f'deep{i}.yaml'] = 'd: 1\n'
        threads.append({'sources': srcs})
    return {'files': files, 'threads': threads}

HOT_KINDS = ('init', 'save', 'install', 'exit', 'apiCheck', 'apiSet', 'apiExit', 'raise')

def hot_steps(prof, tid, reads=6):
    """local steps of thread tid that sit on the lines of the slot machine (and the first reads after an install)"""
    h = prof['hot'][tid]
    s = set()
    for k in HOT_KINDS:
        s.update(h.get(k, []))
    rd = sorted(h.get('read', []))
    for st in sorted(h.get('install', [])):
        s.update([x for x in rd if x > st][:reads])
    s.update(rd[:2])
    out = set()
    for x in s:
        out.update([x, x + 1])    # before the line and just after it
    return sorted(x for x in out if 1 <= x <= prof['steps'][tid])

def random_preemptions(rng, case, prof):
    n = len(case['threads'])
    k = rng.choice([1, 1, 2, 2, 3, 4, 6, 10, 25])
    out = []
    for _ in range(k):
        t = rng.randrange(n)
        hs = hot_steps(prof, t)
        if hs and rng.random() < 0.7:
            st = rng.choice(hs) + rng.choice([0, 0, 0, 1, 2])
        else:
            st = rng.randint(1, max(1, prof['steps'][t]))
        tgt = rng.choice([x for x in range(n) if x != t])
        out.append([t, st, tgt])
    return out

# ----------------------------------------------------------------------------------------------
# the property
# ----------------------------------------------------------------------------------------------

class C20(Prop):
    ID = 'C20'
    QUICK_N = 150
    THOROUGH_N = 3000
    RULE = ('2-3 real threads, each Builder()+add_source(file, safe=flag)...+build() from different files with different safe '
            'flags, nested/shared/unsafe includes and failing inputs (missing include, invalid YAML, unknown tag, !notnew), '
            'under a deterministic sys.settrace scheduler that switches threads only at line events of the package\'s own '
            'source files (all of them); quick = fixed workloads + random workloads with 1-25 random preemptions biased '
            'to the lines of the context managers, of api_entry and of the reads in ConfigNode.__init__; thorough = in '
            'addition every schedule with 2 preemptions at those lines on the workload tiny2 and every schedule with one '
            'preemption (at every line step) on tiny2 and plain2; '
            'non-trivial = at least one switch happened while some thread was inside a context manager; distinct by SHA-1 of the case')
    ASSUMPTIONS = [
        'switch points are line events of four files: CPython can preempt between any two bytecodes (and inside C code that '
        'releases the GIL); finer interleavings are not explored',
        'threading.local is modelled as one cell per thread id; its C implementation is trusted',
        'the tracer (sys.settrace) itself is assumed not to change the behaviour of the traced code',
        'premise "each through its own builder": yaml.parse(text, filename) without a builder goes through the module-level '
        'yaml._global_ctx builder, a cell shared by all threads (its _current_file feeds the file name of error marks); '
        'that path is outside C20 and is not exercised here',
    ]

    _stash = {}

    def corpus(self):
        ws = base_workloads()
        out = []
        for name in ('plain2', 'include2', 'missing_include', 'bad_yaml', 'three'):
            c = dict(ws[name]); c['first'] = 0; c['name'] = name
            prof = profile(c)
            inst = prof['hot'][0].get('install', [1])
            # one preemption right after thread 0 installed its file name (and one back while thread 1 is inside)
            inst1 = prof['hot'][1].get('install', [1])
            c['preempt'] = [[0, inst[-1] + 1, 1], [1, inst1[-1] + 1, 0]]
            out.append(c)
        return out

    def gen_cases(self, rng, n, tier):
        ws = base_workloads()
        names = sorted(ws)
        out = []
        if tier == 'thorough':
            # (a) tiny2: every schedule with <= 2 preemptions placed on (or right after) the lines of the slot machine
            w = ws['tiny2']
            prof = profile(w)
            for first in (0, 1):
                other = 1 - first
                h0, h1 = hot_steps(prof, first, reads=2), hot_steps(prof, other, reads=2)
                for k in h0:
                    for j in h1:
                        out.append(dict(w, name='tiny2', first=first, preempt=[[first, k, other], [other, j, first]]))
            # (b) tiny2 and plain2: every schedule with exactly one preemption, at every line step
            for name in ('tiny2', 'plain2'):
                w = ws[name]
                prof = profile(w)
                for first in (0, 1):
                    for k in range(1, prof['steps'][first] + 1):
                        out.append(dict(w, name=name, first=first, preempt=[[first, k, 1 - first]]))
        m = n if tier != 'thorough' else max(200, n // 10)   # random part
        for i in range(m):
            if i % 3 == 2:
                w = random_workload(rng); name = 'random'
            else:
                name = names[(i // 3 * 2 + i % 3) % len(names)]; w = ws[name]
            c = dict(w, name=name, first=rng.randrange(len(w['threads'])))
            c['preempt'] = random_preemptions(rng, c, profile(c))
            out.append(c)
        return out

    # -- runs -----------------------------------------------------------------------------------
    def impl(self, case):
        root = write_files(case)
        try:
            r = isolated(lambda: concurrent_result(case, root))
        finally:
            shutil.rmtree(root, ignore_errors=True)
        seq, seq_main = sequential(case)
        inside = 0      # switches that happened while the preempted thread was inside a context manager
        depth = [0] * len(case['threads'])
        sw = {s[0]: s for s in r['switches']}
        for i, (tid, ev) in enumerate(r['trace'] + [[None, ['end']]]):
            if i in sw and depth[sw[i][1]] > 0:
                inside += 1
            if ev[0] == 'install': depth[tid] += 1
            elif ev[0] == 'exit': depth[tid] -= 1
        self._stash[case_digest(case)] = r['trace']
        return {'threads': r['threads'], 'seq': seq, 'seq_main': seq_main, 'trace': r['trace'], 'observed': r['observed'],
                'switches': r['switches'], 'steps': r['steps'], 'inside': inside}

    def model_requests(self, case):
        # the trace exists only after the implementation ran: the framework runs impl() for all cases first,
        # then collects the requests, so the recorded trace is handed over through the stash
        if MISSING_ANCHORS:
            return []
        tr = self._stash.get(case_digest(case))
        return [{'op': 'c20', 'trace': tr}] if tr is not None else []

    def model_obs(self, case, answers):
        if MISSING_ANCHORS:
            return {'bad': 'anchors'}
        return answers[0] if answers else None

    def compare(self, case, io, ans):
        if MISSING_ANCHORS:
            return ('the source lines that are events of the slot machine are no longer all there (' + '; '.join(MISSING_ANCHORS[:3]) +
                    '): the recorded trace cannot be replayed through the model')
        if ans is None or 'bad' in ans:
            return 'driver rejected the recorded trace: ' + str((ans or {}).get('bad'))
        if False and 'bad' in ans:
            return 'driver rejected the recorded trace: ' + str(ans['bad'])
        pred, real = ans['obs'], io['observed']
        if len(pred) != len(real):
            return f'model produced {len(pred)} observations, the run recorded {len(real)}'
        emitting = [(i, e) for i, e in enumerate(io['trace']) if e[1][0] in EMITTING]
        for k, (p, q) in enumerate(zip(pred, real)):
            if p != q:
                i, e = emitting[k]
                sh = ans['shared'][k]
                return (f'event #{i} {e}: the per-thread-cell model predicts {json.dumps(p[1])} but thread {q[0]} observed '
                        f'{json.dumps(q[1])}' + (' (the shared-cell machine predicts exactly this value)' if sh == q else ''))
        # the declarative statement: reads follow the thread's own history
        for th in ans['threads']:
            t = th['t']
            if not th['wb']:
                return f'thread {t}: recorded events are not well bracketed'
            mine = [q[1] for (i, e), q in zip(emitting, real) if e[0] == t and e[1][0] == 'read']
            if mine != th['reads']:
                d = common.first_diff(mine, th['reads'])
                return f'thread {t}: reads differ from specReads of its own history: {d}'
        return None

    @staticmethod
    def _no_tb(r):
        # the frames an error is reported with depend on how deep the calling thread's stack is: not compared across kinds of thread
        return dict(r, err=None if r['err'] is None else {k: v for k, v in r['err'].items() if k != 'tb'})

    def oracle(self, case, io, ans):
        # "every node records the file it really came from": a file of the job's own sources, or one included by them - never a file that
        # only another thread's job reads (checked on the concurrent run and on both sequential references)
        own = []
        for spec in case['threads']:
            names, todo = set(), [nm[4:] if nm.startswith('raw:') else nm for nm, _ in spec['sources']]
            while todo:
                nm = todo.pop()
                if nm in names: continue
                names.add(nm)
                todo += re.findall(r'([A-Za-z0-9_]+\.yaml)', case['files'].get(nm, ''))
            own.append(names)
        for what, runs in (('concurrent build', io['threads']), ('sequential build in fresh threads', io['seq']), ('sequential build in the main thread', io.get('seq_main') or [])):
            for t, r in enumerate(runs):
                for nd in (r.get('nodes') or []):
                    f = nd[2]
                    if isinstance(f, str) and f.startswith('$D/') and f[3:] not in own[t] and all(f[3:] in o for o in [set().union(*own)]):
                        return f'thread {t} ({what}): the node at {nd[0]!r} records the file {f!r}, which only another job reads'
        for t, (got, want) in enumerate(zip(io['threads'], io.get('seq_main') or [])):
            if self._no_tb(got) != self._no_tb(want):
                if (got['err'] is None) != (want['err'] is None):
                    return (f'thread {t}: concurrent build gave {json.dumps(got["err"] or "a tree")[:200]} but the same build done sequentially '
                            f'in the main thread gave {json.dumps(want["err"] or "a tree")[:200]}')
                if got['err'] is not None:
                    return f'thread {t}: error report differs from the one of the sequential build in the main thread: ' + common.first_diff(self._no_tb(got)['err'], self._no_tb(want)['err'])
                return (f'thread {t}: built tree differs from the sequential build in the main thread ([path, type, source file, _default_safe, safe]): '
                        + common.first_diff(got['nodes'], want['nodes']))
        for t, (got, want) in enumerate(zip(io['threads'], io['seq'])):
            if got != want:
                if (got['err'] is None) != (want['err'] is None):
                    return (f'thread {t}: concurrent build gave {json.dumps(got["err"] or "a tree")[:200]} but the sequential build '
                            f'gave {json.dumps(want["err"] or "a tree")[:200]}')
                if got['err'] is not None:
                    return f'thread {t}: error report differs from the sequential one: ' + common.first_diff(got['err'], want['err'])
                return (f'thread {t}: built tree differs from the sequential build ([path, type, source file, _default_safe, safe]): '
                        + common.first_diff(got['nodes'], want['nodes']))
        return None

    def nontrivial(self, case, io):
        return io.get('inside', 0) > 0

    def shrink(self, case):
        out = []
        p = case['preempt']
        for i in range(len(p)):
            out.append(dict(case, preempt=p[:i] + p[i + 1:]))
        n = len(case['threads'])
        if n > 2:
            for d in range(n):
                keep = [i for i in range(n) if i != d]
                ren = {o: k for k, o in enumerate(keep)}
                q = [[ren[t], k, ren[g]] for t, k, g in p if t in ren and g in ren]
                out.append(dict(case, threads=[case['threads'][i] for i in keep], preempt=q,
                                first=ren.get(case.get('first', 0), 0)))
        for t, th in enumerate(case['threads']):
            if len(th['sources']) > 1:
                for i in range(len(th['sources'])):
                    ths = list(case['threads'])
                    ths[t] = {'sources': th['sources'][:i] + th['sources'][i + 1:]}
                    out.append(dict(case, threads=ths))
        used = set()
        for th in case['threads']:
            used.update(s[0][4:] if s[0].startswith('raw:') else s[0] for s in th['sources'])
        for name, text in case['files'].items():
            lines = text.splitlines(keepends=True)
            if name in used and len(lines) > 1:
                for i in range(len(lines)):
                    out.append(dict(case, files=dict(case['files'], **{name: ''.join(lines[:i] + lines[i + 1:])})))
        return out

    def features(self, case, io):
        f = [f'workload:{case.get("name", "?")}', f'threads={len(case["threads"])}',
             f'switches={min(len(io["switches"]), 10)}' + ('+' if len(io['switches']) > 10 else ''),
             f'switches_inside_ctx={min(io["inside"], 5)}']
        for s in io['switches']:
            w = s[3].split(':')
            f.append(f'switch_at:{w[0]}:{w[1]}')
        ev = {e[1][0] for e in io['trace']}
        f += [f'event:{e}' for e in sorted(ev)]
        for t in io['threads']:
            f.append('thread_result:' + (t['err']['cls'] if t['err'] else 'tree'))
        nested = sum(1 for q, (i, e) in zip(io['observed'], [(i, e) for i, e in enumerate(io['trace']) if e[1][0] in EMITTING])
                     if e[1][0] == 'apiCheck' and q[1] is True)
        if nested: f.append('nested_api_entry')
        return f

    def render(self, case):
        return {'workload': case.get('name'), 'files': case['files'],
                'threads': [' ; '.join(f'add_source({n!r}, safe={s})' for n, s in t['sources']) + ' ; build()' for t in case['threads']],
                'first_thread': case.get('first', 0),
                'preemptions [thread, at its local line-step, switch to]': case['preempt']}

PROP = C20()
