"""C16 — !append / !extend / !prev move and grow existing content without loss."""
import copy
import re
from props.mergefam import *
from props.c04 import plain_of, val_to_py, get_at, gen_plain_value, container_paths

class PremergeFail(Exception): pass
class MergeFail(Exception): pass

def ref_get(obj, path):
    for k in path:
        if isinstance(obj, dict) and k in obj: obj = obj[k]
        elif isinstance(obj, list) and isinstance(k, int) and 0 <= k < len(obj): obj = obj[k]
        else: raise KeyError(k)
    return obj

def ref_remove(obj, path):
    if not path:
        raise KeyError('empty path')
    parent = ref_get(obj, path[:-1])
    k = path[-1]
    if isinstance(parent, dict):
        return parent.pop(k)
    if isinstance(parent, list) and isinstance(k, int) and 0 <= k < len(parent):
        return parent.pop(k)
    raise KeyError(k)

def ref_upd(a, b):
    """right-biased recursive update on plain data (C02), used to merge the transformed stage"""
    if isinstance(a, dict) and isinstance(b, dict):
        for k, v in b.items():
            a[k] = ref_upd(a[k], v) if k in a else v
        return a
    if isinstance(a, list) and isinstance(b, dict):
        for k in b:
            if not isinstance(k, int) or not (-len(a) <= k < len(a)):
                raise MergeFail()
        for k, v in b.items():
            a[k] = ref_upd(a[k], v)
        return a
    return b

def ref_stage(acc, raw):
    """apply one stage: operators act on `acc` in document order, then the transformed stage is merged"""
    def walk(n, path):
        t = (n.get('t') or {}).get('k')
        if t == 'append':
            try:
                node = ref_remove(acc, path)
            except (KeyError, IndexError, TypeError):
                raise PremergeFail()
            if not isinstance(node, list):
                raise PremergeFail()
            return node + [plain_of(c) for c in n['q']]
        if t == 'extend':
            try:
                node = ref_get(acc, path)
            except (KeyError, IndexError, TypeError):
                return [plain_of(c) for c in n['q']]
            if isinstance(node, list):
                ref_remove(acc, path)
                return node + [plain_of(c) for c in n['q']]
            return [plain_of(c) for c in n['q']]
        if t == 'prev':
            text = n['s']['x']
            if _SIMPLE_PATH.fullmatch(text):
                # plain names and positions: read by the reference itself, not by the implementation's path parser
                tp = []
                for part in text.split('.'):
                    name, idx = re.fullmatch(r'([A-Za-z_][A-Za-z_0-9]*)((?:\[-?[0-9]+\])*)', part).groups()
                    tp.append(name)
                    tp += [int(x) for x in re.findall(r'-?[0-9]+', idx)]
            else:
                try:
                    tp = [sc_py(k) for k in NodePath.get_list_path(text)]
                except ValueError:
                    raise PremergeFail()     # not a valid path string (keys that are not identifiers cannot be addressed by !prev)
            try:
                return ref_remove(acc, tp)
            except (KeyError, IndexError, TypeError):
                raise PremergeFail()
        if 'm' in n:
            return {sc_py(k): walk(c, path + [sc_py(k)]) for k, c in n['m']}
        if 'q' in n:
            return [walk(c, path + [i]) for i, c in enumerate(n['q'])]
        return plain_of(n)
    transformed = walk(raw, [])
    return ref_upd(acc, transformed)

def unordered_py(x):
    if isinstance(x, dict): return ('d', sorted((repr(k), unordered_py(v)) for k, v in x.items()))
    if isinstance(x, list): return ('l', [unordered_py(v) for v in x])
    return x

_SIMPLE_PATH = re.compile(r'[A-Za-z_][A-Za-z_0-9]*(\[-?[0-9]+\])*(\.[A-Za-z_][A-Za-z_0-9]*(\[-?[0-9]+\])*)*')

class C16(MergeFamProp):
    ID = 'C16'
    VOCAB = G.Vocab(ops=True)
    RULE = ('a random plain base document followed by 1-3 stages made of !append / !extend / !prev operators at existing, missing, '
            'list and non-list paths (top level and nested: own paths of depth 1-4 below plain mappings, also missing and non-list paths '
            'at depth >= 2 and in the second / third later stage; several operators per stage, operators whose targets interact) plus plain '
            'content at other paths; non-trivial = at least one operator addresses an existing path; distinct by SHA-1')
    ASSUMPTIONS = ['the reference interpreter applies the operators in document order on plain data and then merges the stage with the C02 update; '
                   'key order of mappings is not compared (a moved key is re-inserted at the end)']

    def corpus(self):
        D = lambda *raws: {'docs': [{'raw': r} for r in raws], 'style': ['flow', 0, 0]}
        return [
            D(M({'a': Q([S(1), S(2)]), 'b': M({'c': Q([S(3)])})}), M({'a': Q([S(9)], tag='append'), 'b': M({'c': Q([S(4), S(5)], tag='extend')})})),
            D(M({'a': M({'x': S(1), 'y': Q([S(2)])}), 'b': S(5)}), M({'q': Stext('a', 'prev')}), M({'q': M({'y': Q([S(7)], tag='append')})})),
            D(M({'b': Q([S(1)]), 'c': S(2)}), M({'b': Q([S(2)], kw={'new': False})}), M({'b': Q([S(3)], tag='append')})),      # D51 (known finding)
            D(M({'a': Q([S(1)], tag='append'), 'z': S(0)}), M({'a': Q([S(2)], tag='extend')}), M({'q': Stext('a', 'prev')}), M({'q': Q([S(3)], tag='append')})),   # first-stage operator, then grown and moved
            D(M({'a': S(1)}), M({'a': Q([S(2)], tag='append')})),
            D(M({'a': S(1)}), M({'a': Q([S(2)], tag='extend'), 'z': Q([S(3)], tag='extend')})),
            D(M({'a': Q([S(1)])}), M({'b': Stext('nope', 'prev')})),
            # the examples of Props/C16_Pipeline.lean: operators two levels down in the third stage, three operators in one stage,
            # missing / non-list paths at depth 2 (PremergeError for !append, plain list for !extend), a list parent
            D(M({'a': M({'l': Q([S(1), S(2), S(3)]), 'x': S(5), 'm': M({'u': S(1)})}), 'b': S(7)}), M({'a': M({'y': S(6)})}),
              M({'a': M({'l': Q([S(8)], tag='append'), 'n': Q([S(9)], tag='extend')}), 'q': Stext('a.m', 'prev'), 'c': S(1)})),
            D(M({'a': M({'l': Q([S(1)]), 'x': S(5)})}), M({'a': M({'y': S(6)})}), M({'a': M({'n': M({'n': Q([S(8)], tag='append')})})})),
            D(M({'a': M({'l': Q([S(1)]), 'x': S(5)})}), M({'a': M({'y': S(6)})}), M({'a': M({'x': Q([S(8)], tag='append')})})),
            D(M({'a': M({'l': Q([S(1)]), 'x': S(5)})}), M({'a': M({'y': S(6)})}), M({'a': M({'x': Q([S(8)], tag='extend'), 'n': M({'n': Q([S(9)], tag='extend')})})})),
            D(M({'t': Q([Q([S(1)]), Q([S(2)]), Q([S(3)])]), 'b': S(7)}), M({'q': M({'r': Stext('t[0]', 'prev')}), 'b': Stext('t[1]', 'prev')})),
        ]

    def gen_cases(self, rng, n, tier):
        out = []
        for _ in range(n):
            st = list(self.STYLES[rng.randrange(len(self.STYLES))]) if rng.random() < 0.4 else ['flow', 0, 0]
            base = M([(k, gen_plain_value(rng, 3)) for k in rng.sample(['a', 'b', 'c', 'k', 'x', 'x.y', 'my-key', 'k 1'], rng.choice([2, 3, 4]))])
            if rng.random() < 0.2:
                # an operator in the FIRST document has nothing before it: it becomes a plain list, which later operators must be able
                # to grow and move like any other (seeded change S6-C16: the first-stage node stayed an operator node)
                base['m'].append([rng.choice(['fs', 'first']), Q([gen_plain_value(rng, 0) for _ in range(rng.choice([1, 2]))], tag=rng.choice(['append', 'extend']))])
            if rng.random() < 0.12:
                # a long list: positions with two digits in the path texts of !prev, and as the list an operator grows (round 8)
                base['m'].append([rng.choice(['long', 'layers']), Q([gen_plain_value(rng, 1 if rng.random() < 0.3 else 0) for _ in range(rng.choice([11, 12, 13]))])])
            docs = [{'raw': base}]
            cur = copy.deepcopy(plain_of(base))
            for _s in range(rng.choice([1, 1, 2, 2, 3])):
                # paths of the current reference state (so later stages address moved / grown content)
                paths = []
                def coll(o, p):
                    paths.append((tuple(p), o))
                    if isinstance(o, dict):
                        for k, v in o.items(): coll(v, p + [k])
                    elif isinstance(o, list):
                        for i, v in enumerate(o): coll(v, p + [i])
                coll(cur, [])
                items = {}
                for _o in range(rng.choice([1, 1, 2, 2, 3])):
                    r = rng.random()
                    lists = [p for p, o in paths if p and isinstance(o, list) and all(isinstance(k, str) for k in p)]
                    anyp = [p for p, o in paths if p and all(isinstance(k, str) for k in p)]
                    # mappings of the current state (the root included): a missing key below one of them is a missing
                    # path at depth >= 2 (C16_append_at_path_missing / C16_extend_at_path_fallback at any depth)
                    maps = [p for p, o in paths if isinstance(o, dict) and all(isinstance(k, str) for k in p)]
                    deep_lists = [p for p in lists if len(p) >= 2]
                    deep_other = [p for p, o in paths if len(p) >= 2 and not isinstance(o, list) and all(isinstance(k, str) for k in p)]
                    def missing_path(name):
                        base_p = rng.choice(maps) if maps else ()
                        return tuple(base_p) + ((name,) if rng.random() < 0.7 else (name, name))
                    if r < 0.35:
                        x = rng.random()
                        if deep_lists and x < 0.25: p = rng.choice(deep_lists)
                        elif deep_other and x < 0.33: p = rng.choice(deep_other)
                        elif x < 0.42: p = missing_path('nolist')
                        else: p = rng.choice(lists) if lists and rng.random() < 0.8 else (rng.choice(anyp) if anyp and rng.random() < 0.6 else ('nolist',))
                        leaf = Q([gen_plain_value(rng, 1) for _ in range(rng.choice([0, 1, 2]))], tag='append')
                    elif r < 0.65:
                        x = rng.random()
                        if deep_lists and x < 0.2: p = rng.choice(deep_lists)
                        elif deep_other and x < 0.32: p = rng.choice(deep_other)
                        elif x < 0.45: p = missing_path('fresh')
                        else: p = rng.choice(lists) if lists and rng.random() < 0.6 else (rng.choice(anyp) if anyp and rng.random() < 0.6 else ('fresh',))
                        leaf = Q([gen_plain_value(rng, 1) for _ in range(rng.choice([0, 1, 2]))], tag='extend')
                    elif r < 0.9:
                        x = None
                        src = rng.choice([pp for pp, o in paths if pp]) if len(paths) > 1 and rng.random() < 0.85 else ('missing', 'x')
                        far = [pp for pp, o in paths if any(isinstance(k, int) and k >= 10 for k in pp)]
                        if far and rng.random() < 0.5:
                            src = rng.choice(far)
                        # a MAPPING that is an element of a list (it carries what the list handed down), moved onto a key that holds a
                        # mapping already: the two merge, nothing the target had is lost (seeded change S7-C16)
                        elmaps = [pp for pp, o in paths if pp and isinstance(pp[-1], int) and isinstance(o, dict) and o]
                        tgtmaps = [pp for pp, o in paths if pp and isinstance(o, dict) and o and all(isinstance(k, str) for k in pp)]
                        if elmaps and tgtmaps and rng.random() < 0.35:
                            src = rng.choice(elmaps)
                            cand = [t for t in tgtmaps if t[:len(src)] != src and src[:len(t)] != t]
                            if cand:
                                x = 2.0
                                p = rng.choice(cand)
                        x = rng.random() if x != 2.0 else x
                        if x == 2.0: pass
                        elif x < 0.55: p = (rng.choice(['q', 'r', 'moved']),)
                        elif x < 0.7: p = missing_path(rng.choice(['q', 'moved']))      # a new key at depth >= 2 (below an existing mapping)
                        else: p = (rng.choice(anyp) + ('m',) if anyp and rng.random() < 0.7 else (rng.choice(anyp) if anyp else ('q',)))
                        leaf = Stext(NodePath.join_path(list(src)), 'prev')
                    else:
                        p = (rng.choice(['n1', 'n2']),)
                        leaf = gen_plain_value(rng, 1)
                    cur_items = items
                    ok = True
                    for k in p[:-1]:
                        nxt = cur_items.get(k)
                        if nxt is None:
                            nxt = {}; cur_items[k] = nxt
                        if not isinstance(nxt, dict) or '__leaf__' in nxt:
                            ok = False; break
                        cur_items = nxt
                    if ok and p[-1] not in cur_items:
                        cur_items[p[-1]] = {'__leaf__': leaf}
                def build(d):
                    return M([(k, v['__leaf__'] if '__leaf__' in v else build(v)) for k, v in d.items()])
                raw = build(items)
                docs.append({'raw': raw})
                try:
                    cur = ref_stage(cur, raw)
                except (PremergeFail, MergeFail):
                    break
            out.append({'docs': docs, 'style': st})
        return out

    def oracle(self, case, io, ans):
        cfg = io['cfg']
        acc = copy.deepcopy(plain_of(case['docs'][0]['raw']))
        exp_err = None
        for d in case['docs'][1:]:
            try:
                acc = ref_stage(acc, d['raw'])
            except PremergeFail:
                exp_err = 'premerge'; break
            except MergeFail:
                exp_err = 'merge'; break
            except Exception:
                return None    # (shrunk) case outside the reference interpreter
        if exp_err:
            if cfg.get('err') != exp_err:
                return f'expected a {exp_err} error (operator without a suitable previous value), got {json.dumps({k: v for k, v in cfg.items() if k != "log"})[:160]}'
            return None
        if 'ok' not in cfg:
            # recorded finding D51: the previous list was written with an explicit !notnew of its own; the grown / moved list is
            # set as a new child and its elements are refused (MergeError naming p[0])
            def notnew_list(n):
                return ('q' in n and (n.get('kw') or {}).get('new') is False) or any(notnew_list(c) for c in ([c for _, c in n['m']] if 'm' in n else n.get('q', [])))
            tag = 'D51: ' if cfg.get('err') == 'merge' and cfg.get('notnew') and any(notnew_list(d['raw']) for d in case['docs']) else ''
            return f'{tag}operators address existing content but the build failed: {json.dumps({k: v for k, v in cfg.items() if k != "log"})[:160]}'
        got = val_to_py(strip_ids(cfg['ok']))
        if unordered_py(got) != unordered_py(acc):
            return f'result differs from applying the operators in order: expected {json.dumps(acc, default=str)[:150]}, got {json.dumps(got, default=str)[:150]}'
        return None

    def finding_key(self, case, desc):
        if desc and desc.startswith('D51'):
            return 'operator-on-notnew-list'
        return None

    def nontrivial(self, case, io):
        return len(case['docs']) >= 2

PROP = C16()
