"""C09 — cross-references alias their target, in any order, and always terminate."""
import os
from props.evalfam import *

def get_val(v, path):
    for k in path:
        if isinstance(v, dict) and 'd' in v:
            nxt = [x for kk, x in v['d'] if kk == k]
            if not nxt: return None
            v = nxt[0]
        elif isinstance(v, dict) and 'l' in v and isinstance(k, int) and 0 <= k < len(v['l']):
            v = v['l'][k]
        else:
            return None
    return v

class C09(EvalFamProp):
    ID = 'C09'
    P_UNSAFE = 0.0
    P_UNSAFE_SRC = 0.0
    P_BAD = 0.12
    RULE = ('1-3 stages with !xref nodes forming chains, fan-in, forward / backward references, references into and out of lists, '
            'mappings and call arguments, dangling and self references and cycles (12% error stream), references whose text is also the '
            'text of a single key ("o.lr" next to o: {lr: ..}, "a[0]" next to a: [..]) in random key order; every build runs under a '
            'wall-clock watchdog; non-trivial = at least one !xref node survives merging; distinct by SHA-1')
    ASSUMPTIONS = ['identity is compared for containers and execution results (small ints/strings are interned by CPython)',
                   'unbounded recursion is ended by the interpreter\'s recursion limit and surfaces as EvalError']

    def corpus(self):
        D = lambda *raws: {'docs': [{'raw': r} for r in raws], 'style': ['flow', 0, 0]}
        X = lambda p: Stext(p, 'xref')
        return [
            D(M({'a': X('a')})), D(M({'a': X('b'), 'b': X('a')})), D(M({'a': X('b'), 'b': X('c'), 'c': X('a')})),        # D09
            D(M({'a': M({'b': X('a')})})), D(M({'a': X('nowhere')})),
            D(M({'a': Q([S(1), S(2)]), 'r': X('a[-3]')})), D(M({'a': Q([]), 'r': X('a[-1]'), 's': X('a[0]')})), D(M({'a': Q([S(1), S(2)]), 'r': X('a[-2]'), 's': X('a[2]')})),
            D(M({'r': X('t.x'), 't': M({'x': Q([S(1)]), 'y': X('r')}), 'u': X('t.y'), 'v': Q([X('u'), X('t')])})),
            D(M({'c': M({}, tag={'k': 'call', 'f': 'rec.f'}), 'p': X('c'), 'q': X('p'), 'l': Q([X('q'), X('c')])})),
        ]

    def gen_cases(self, rng, n, tier):
        out = list(super().gen_cases(rng, n, tier))
        # reference graphs: every key points to a random key (a functional graph has chains, fan-in, cycles and
        # 'lassos': a tail leading into a cycle it is not part of) or holds a terminal; key order is random
        for i in range(max(4, n // 5)):
            m = rng.choice([2, 3, 4, 5, 6])
            names = rng.sample(['a', 'b', 'c', 'd', 'e', 'k', 'x', 'y'], m)
            p_ref = rng.choice([0.5, 0.7, 0.9, 1.0])
            items = []
            for nm in names:
                if rng.random() < p_ref:
                    tgt = rng.choice(names)
                    v = Stext(tgt, 'xref')
                    r = rng.random()
                    if r < 0.2: v = Q([v])
                    elif r < 0.3: v = M([('in', v)])
                    elif r < 0.4: v = M([(0, v)], tag={'k': 'call', 'f': 'rec.f'})
                else:
                    v = rng.choice([S(1), Q([S(1), S(2)]), M([('z', S(3))]), M([], tag={'k': 'call', 'f': 'rec.g'}),
                                    S(None), Sempty(), S(0), S(''), Q([]), M([]), S(False)])      # falsy / null targets too
                items.append((nm, v))
            docs = [{'raw': M(items)}]
            if rng.random() < 0.3 and len(items) > 1:     # part of the graph arrives in a later document
                cut = rng.randrange(1, len(items))
                docs = [{'raw': M(items[:cut])}, {'raw': M(items[cut:])}]
            out[i % len(out)] = {'docs': docs, 'style': ['flow', 0, 0]}
        # LONG chains and cycles (9-13 hops): a chain ending in a terminal, a cycle, a cycle entered from a reference outside it,
        # in random key order (seeded change S8-C09: only the last 8 hops of a chain were remembered)
        for i in range(max(3, n // 25)):
            ln = rng.choice([9, 10, 11, 12, 13])
            names = ['n%d' % j for j in range(ln)]
            shape = rng.choice(['chain', 'cycle', 'lasso', 'lasso'])
            items = [(names[j], Stext(names[j + 1], 'xref')) for j in range(ln - 1)]
            if shape == 'chain':
                items.append((names[-1], rng.choice([S(1), Q([S(1)]), M([('z', S(3))])])))
            else:
                items.append((names[-1], Stext(names[0], 'xref')))
            if shape == 'lasso':
                items.append(('entry', Stext(rng.choice(names), 'xref')))
                if rng.random() < 0.5:
                    items.append(('entry2', Stext('entry', 'xref')))
            rng.shuffle(items)
            if shape == 'lasso' and rng.random() < 0.6:       # the outside reference is evaluated first
                items.sort(key=lambda kv: not kv[0].startswith('entry'))
            out[(len(out) // 2 + i) % len(out)] = {'docs': [{'raw': M(items)}], 'style': ['flow', 0, 0]}
        # one TAGGED node placed under two keys by a YAML anchor / alias, and references to either key, in random key order
        # (seeded change S6-C09: a reference to the second key was reported as circular); outside the model: oracle only
        for i in range(max(3, n // 20)):
            tgt = rng.choice([lambda: M([('z', S(3))], kw={'prio': 1}), lambda: Q([S(1), S(2)], kw={'del': False}), lambda: S(7, kw={'prio': -1}),
                              lambda: M([(0, S(1))], tag={'k': 'call', 'f': 'rec.g'})])()
            a, b = rng.sample(['a', 'b', 'c', 'd'], 2)
            items = [(a, dict(tgt, anchor='sh')), (b, {'alias': 'sh'})]
            tail = [(nm, Stext(rng.choice([a, b, b]), 'xref')) for nm in rng.sample(['r', 's', 't'], rng.choice([1, 2, 3]))]
            if rng.random() < 0.4:
                tail.append(('u', Q([Stext(b, 'xref'), Stext(a, 'xref')])))
            rng.shuffle(tail)
            pos = rng.randrange(len(tail) + 1)
            items = tail[:pos] + items + tail[pos:] if rng.random() < 0.5 else items + tail      # the anchor precedes its alias
            out[(3 * i + 2) % len(out)] = {'docs': [{'raw': M(items), 'shared': True}], 'style': ['flow', 0, 0]}
        # shared path strings: a single key whose text spells a nested path ("o.lr" next to o: {lr: ..}, "a[0]" next to a: [..])
        # plus references whose text is that string, all in random key order (a reference means the nested path, repo fix D33)
        for i in range(max(3, n // 15)):
            top, sub = rng.sample(['a', 'b', 'o', 'k'], 2)
            if rng.random() < 0.5:
                nested, text = (top, M([(sub, rng.choice([S(1), Q([S(1), S(2)]), M([], tag={'k': 'call', 'f': 'rec.g'})]))])), f'{top}.{sub}'
            else:
                nested, text = (top, Q([rng.choice([S(7), M([('z', S(3))])]), S(8)])), f'{top}[0]'
            items = [nested] if rng.random() < 0.75 else []
            items.append((text, rng.choice([S(0.5), S('alias'), Q([S('alias')])])))
            for nm in rng.sample(['r', 's', 't'], rng.choice([1, 2])):
                items.append((nm, Stext(text, 'xref') if rng.random() < 0.7 else M([(0, Stext(text, 'xref'))], tag={'k': 'call', 'f': 'rec.f'})))
            rng.shuffle(items)
            out[(len(out) - 1 - i) % len(out)] = {'docs': [{'raw': M(items)}], 'style': ['flow', 0, 0]}
        # references INTO the content of a lazily included file (`data: !rec data.yaml`, `x: !xref data.train`): the target exists only
        # once the file has been evaluated; the reference yields that very object (seeded change S9-C09: the chain was followed on the
        # un-evaluated tree). !rec is outside the model: oracle only.
        for i in range(max(2, n // 40)):
            inner = rng.choice(['train', 'opts'])
            items = [('data', Stext('data.yaml', 'rec', txt='!rec')), ('x', Stext('data.' + inner, 'xref')), ('k', S(1))]
            if rng.random() < 0.5:
                items.append(('y', Stext('x', 'xref')))
            rng.shuffle(items)
            # (the !rec key first; the other order is recorded finding D54)
            items.sort(key=lambda kv: kv[0] != 'data')
            if rng.random() < 0.35:
                # the reference FIRST (repo fix D54)
                items.sort(key=lambda kv: kv[0] != 'x')
            out.append({'docs': [{'raw': M(items), 'shared': True}], 'style': ['flow', 0, 0], 'recfam': inner,
                        'files': {'data.yaml': '%s: {lr: 1, l: [1, 2]}\nother: 3\n' % inner}})
        return out

    def impl(self, case):
        if case.get('files'):
            import tempfile, shutil
            d = tempfile.mkdtemp(prefix='ayc09_'); old = os.getcwd()
            try:
                for name, text in case['files'].items():
                    with open(os.path.join(d, name), 'w') as f:
                        f.write(text)
                os.chdir(d)
                return super().impl(case)
            finally:
                os.chdir(old); shutil.rmtree(d, ignore_errors=True)
        return super().impl(case)

    def model_requests(self, case):
        if any(d.get('shared') for d in case['docs']):
            return []
        return super().model_requests(case)

    def model_obs(self, case, answers):
        if any(d.get('shared') for d in case['docs']):
            return {'shared': True}
        return super().model_obs(case, answers)

    def compare(self, case, io, mo):
        if any(d.get('shared') for d in case['docs']):
            return 'SKIP'           # node sharing (YAML anchors / aliases) is outside the model's domain
        return super().compare(case, io, mo)

    def oracle(self, case, io, ans):
        cfg = io['cfg']
        if cfg.get('err') == 'HANG':
            return 'evaluation did not terminate (watchdog)'
        if case.get('recfam'):
            keys = [sc_py(k) for k, _ in case['docs'][0]['raw'].get('m', [])]
            if 'data' not in keys or 'x' not in keys or '!rec' not in json.dumps(case['docs']):
                return None       # (shrunk) out of the family
            # either order: the reference written before the !rec key makes the context evaluate the lazily included file first (repo fix D54)
            if 'ok' not in cfg:
                return ('a reference into the content of a lazily included file must resolve once the file is evaluated: '
                        + json.dumps({k: v for k, v in cfg.items() if k != 'log'})[:160])
            d = dict((sc_py(k), v) for k, v in cfg['ok']['d'])
            data = dict((sc_py(k), v) for k, v in d['data']['d']) if isinstance(d.get('data'), dict) and 'd' in d['data'] else {}
            for nm in ('x', 'y'):
                if nm in d and d[nm] != data.get(case['recfam']):
                    return f'the reference {nm} into the content of a lazily included file is not the object evaluated there'
            return None
        nodes = io.get('nodes')
        if nodes is None:
            return None
        by_path = {n['p']: n for n in nodes}
        # follow every chain on the merged tree, independently of the evaluator
        chains = {}
        for n in nodes:
            if n['kind'] != 'xref':
                continue
            seen, cur, status = [n['p']], n, None
            while cur is not None and cur['kind'] == 'xref':
                try:
                    tp = NodePath.join_path(NodePath.get_list_path(cur['text']))
                except Exception:
                    status = 'badpath'; break
                if tp in seen:
                    status = 'cycle'; break
                seen.append(tp)
                cur = by_path.get(tp)
            if status is None:
                status = 'missing' if cur is None else 'ok'
            chains[n['p']] = (status, seen[-1])
        cyc = ans and ans[0].get('err') in ('recursion', 'unsupported')
        if 'ok' in cfg and cyc and any(n['kind'] in ('eval', 'fstr') for n in nodes):
            bad = None
            for p, (status, tgt) in chains.items():
                a = get_val(cfg['ok'], [sc_json(k) for k in NodePath.get_list_path(p)])
                b = get_val(cfg['ok'], [sc_json(k) for k in NodePath.get_list_path(tgt)]) if status == 'ok' else None
                if status != 'ok' or (isinstance(a, dict) and 'o' in a and not (isinstance(b, dict) and a.get('o') == b.get('o'))):
                    bad = p
            if bad or has_leak(cfg['ok']):
                return f'D21: a dependency cycle through an !eval name lookup does not fail; the node is evaluated twice and the reference at {bad!r} holds a different object than its target'
            return None
        if 'ok' in cfg:
            for p, (status, tgt) in chains.items():
                if status != 'ok':
                    return f'the reference at {p!r} is {status} but the build succeeded'
                a = get_val(cfg['ok'], [sc_json(k) for k in NodePath.get_list_path(p)])
                b = get_val(cfg['ok'], [sc_json(k) for k in NodePath.get_list_path(tgt)])
                if a is None or b is None:
                    continue
                if isinstance(a, dict) and 'o' in a:
                    if not (isinstance(b, dict) and a.get('o') == b.get('o')):
                        return f'the reference at {p!r} does not evaluate to the very object at {tgt!r} (distinct objects)'
                elif strip_ids(a) != strip_ids(b):
                    return f'the reference at {p!r} evaluates to {json.dumps(a)[:60]}, its target {tgt!r} to {json.dumps(b)[:60]}'
        else:
            if cfg.get('err') not in ('eval', 'unsafe', 'required', 'merge', 'premerge', 'parsing', 'recursion', 'value'):
                return f'unexpected failure class {cfg.get("err")}'
            # a tree of plain data and references only, all safe, in which every chain ends at an existing node: nothing can fail
            def all_resolve_acyclic():
                # on path TUPLES (the text of a path is ambiguous): every reference names an existing node, and - evaluating a
                # node evaluates everything below it, a reference evaluates its target - no node needs itself
                by_t = {tuple(json.loads(m['pt'])) if False else m['pt']: m for m in nodes}
                tup = {m['pt']: json.loads(m['pt']) for m in nodes}
                below = lambda q: [m['pt'] for m in nodes if len(tup[m['pt']]) > len(tup[q]) and tup[m['pt']][:len(tup[q])] == tup[q]]
                state = {}
                def visit(q):
                    if state.get(q) == 1: return False
                    if state.get(q) == 2: return True
                    state[q] = 1
                    nd = by_t[q]
                    if nd['kind'] == 'xref':
                        try:
                            t = json.dumps([sc_json(k) for k in NodePath.get_list_path(nd['text'])])
                        except Exception:
                            return False
                        if t not in by_t: return False
                        nxt = [t]
                    else:
                        nxt = below(q)
                    ok = all(visit(t) for t in nxt)
                    state[q] = 2
                    return ok
                return all(visit(q) for q in by_t)
            if (cfg.get('err') == 'eval' and chains and all(n['kind'] in ('xref', 'scalar', 'comp') for n in nodes)
                    and all(n['safe'] for n in nodes) and all_resolve_acyclic()):
                return ('every reference leads to an existing node (no cycle, nothing missing, plain data only) but the build failed '
                        'with an evaluation error')
        return None

    def finding_key(self, case, desc):
        if desc and desc.startswith('D21'):
            return 'eval-cycle-placeholder'
        return None

    def nontrivial(self, case, io):
        return any(n['kind'] == 'xref' for n in io.get('nodes', []))

PROP = C09()
