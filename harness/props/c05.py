"""C05 — merging is local: wrapping under a key chain, sibling independence, frame."""
from props.mergefam import *

def wrap_raw(raw, keys):
    for k in reversed(keys):
        raw = M([(k, raw)])
    return raw

def keys_inside(docs):
    ks = []
    for d in docs:
        for p, _ in G.paths_of(d['raw']):
            for k in p:
                if isinstance(k, str) and k not in ks:
                    ks.append(k)
    return ks or ['a']

def rename_at(raw, path, old, new):
    """the document with the mapping key `old` renamed to `new` in the mapping at `path` only (nowhere else)"""
    n = dict(raw)
    if not path:
        if 'm' in n:
            n['m'] = [[new if (not isinstance(k, dict) and sc_py(k) == old and isinstance(sc_py(k), str)) else k, c] for k, c in n['m']]
        return n
    h, rest = path[0], path[1:]
    if 'm' in n:
        n['m'] = [[k, rename_at(c, rest, old, new) if (not isinstance(k, dict) and sc_py(k) == h and type(sc_py(k)) is type(h)) else c] for k, c in n['m']]
    elif 'q' in n and isinstance(h, int) and not isinstance(h, bool) and 0 <= h < len(n['q']):
        n['q'] = [rename_at(c, rest, old, new) if i == h else c for i, c in enumerate(n['q'])]
    return n

def rename_val_at(v, path, old, new):
    """the same renaming on the value JSON of a config"""
    if not isinstance(v, dict):
        return v
    if not path:
        if 'd' in v:
            return dict(v, d=[[new if k == old else k, x] for k, x in v['d']])
        return v
    h, rest = path[0], path[1:]
    if 'd' in v:
        return dict(v, d=[[k, rename_val_at(x, rest, old, new) if (k == h and type(k) is type(h)) else x] for k, x in v['d']])
    if 'l' in v and isinstance(h, int) and not isinstance(h, bool) and 0 <= h < len(v['l']):
        return dict(v, l=[rename_val_at(x, rest, old, new) if i == h else x for i, x in enumerate(v['l'])])
    return v

def local_rename_choices(docs):
    """(path of a mapping, key) pairs, string keys only; first those whose key name also occurs at another path (that is where
    the name of a key could wrongly matter), then the others"""
    seen, names = [], {}
    if any(type(k) is int and k < 0 for d in docs for p, _ in G.paths_of(d['raw']) for k in p):
        return []      # a negative index is a second spelling of a list position: "the same path in every document" is not syntactic then
    for d in docs:
        for p, _ in G.paths_of(d['raw']):
            if p and isinstance(p[-1], str) and all(isinstance(k, str) or (type(k) is int and k >= 0) for k in p):   # negative indices alias positions
                if p not in seen:
                    seen.append(p)
                    names.setdefault(p[-1], set()).add(p[:-1])
    multi = [p for p in seen if len(names[p[-1]]) > 1]
    return multi or seen

def unwrap_val(v, keys):
    """value JSON of cfg[keys...] or None"""
    for k in keys:
        if not isinstance(v, dict) or 'd' not in v:
            return None
        nxt = [x for kk, x in v['d'] if kk == k]
        if len(v['d']) != 1 or not nxt:
            return None
        v = nxt[0]
    return v

class C05(MergeFamProp):
    ID = 'C05'
    VOCAB = G.Vocab(prio=True, delete=True, new=True, unsafe=True, meta=True, notnew=True, clear=True)
    NMAX = 3
    RULE = ('merge sequences over the merge-control vocabulary (incl. !notnew, !clear); every sequence is built as written, wrapped '
            'under a chain of 1-3 keys drawn from the keys occurring inside the documents, with an unrelated sibling key added to '
            'every document, with one key name renamed everywhere, and with one key renamed in one mapping only (the same path in every '
            'document; preferably a name that also occurs at another path); every related run is also compared with the model; a '
            'targeted family puts a deleting mapping over a tree with !force / !weak entries two and three levels down, all names from '
            'a three-letter alphabet; non-trivial = at least two stages sharing a path; distinct by SHA-1')
    ASSUMPTIONS = ['error results are compared by class and (for !notnew errors) by the named path with the wrapping prefix removed']

    def corpus(self):
        D = lambda *raws: {'docs': [{'raw': r} for r in raws], 'style': ['flow', 0, 0], 'wrap': ['k'], 'sib': ['zz', 1]}
        return [
            D(M({'a': M({'p': S(1), 'q': S(2)})}), M({'a': M({'q': S(3), 'k': S(5, kw={'prio': -1})}, kw={'del': True})})),   # D04 witness
            dict(D(M({'a': M({'p': S(1, kw={'prio': 1}), 'q': S(2)})}), M({'a': M({'q': S(3), 'x': S(5, kw={'prio': 1})}, kw={'del': True})})), wrap=['x']),
        ]

    def gen_cases(self, rng, n, tier):
        G.P_ODD = 0.2
        try:
            return self._gen_cases(rng, n, tier)
        finally:
            G.P_ODD = 0.0

    def _gen_cases(self, rng, n, tier):
        out = []
        gen = list(super().gen_cases(rng, n, tier))
        # targeted family: operators addressing a key at depth 1 whose name is not a plain identifier / looks like a path
        for i in range(max(3, n // 12)):
            k = rng.choice(['x.y', 'my-key', 'a[0]', 'k 1', 'x.y'])
            base = M([('x', M([('y', Q([S(1), S(2)])), ('z', S(3))])), (k, rng.choice([Q([S(4), S(5)]), M([('p', S(6))])])), ('a', Q([S(7)]))])
            op = rng.choice([Sempty('clear'), Sempty('clear'), M([('q', S(8))], kw={'del': True}), Q([S(9)], kw={'del': False})])
            gen[i % len(gen)] = {'docs': [{'raw': base}, {'raw': M([(k, op)])}], 'style': ['flow', 0, 0]}
        # targeted family: a deleting mapping over a tree with protected entries two and three levels down, all key names drawn
        # (with repetition) from a three-letter alphabet, so that a direct child of the deleting mapping often carries the name of
        # a deeper key of the older tree
        for i in range(max(4, n // 8)):
            al = rng.sample(['a', 'b', 'c', 'k', 'x'], 3)
            nm = lambda: rng.choice(al)
            tag = lambda: rng.choice([{}, {}, {'prio': 1}, {'prio': 1}, {'prio': -1}])
            leaf = lambda: S(rng.randrange(9), kw=tag())
            def deep(d):
                items, used = [], set()
                for _ in range(rng.choice([1, 2, 2, 3])):
                    k = nm()
                    if k in used: continue
                    used.add(k)
                    items.append((k, deep(d - 1) if d > 0 and rng.random() < 0.6 else leaf()))
                return M(items, kw=tag() if rng.random() < 0.2 else {})
            r = nm()
            older = M([(r, deep(2))])
            newer_items, used = [], set()
            for _ in range(rng.choice([1, 2, 3])):
                k = nm()
                if k in used: continue
                used.add(k)
                newer_items.append((k, leaf() if rng.random() < 0.7 else deep(1)))
            newer = M([(r, M(newer_items, kw=dict(tag(), **{'del': True})))])
            docs = [{'raw': older}, {'raw': newer}]
            if rng.random() < 0.3:
                docs.append({'raw': M([(r, deep(1))])})
            gen[(len(gen) - 1 - i) % len(gen)] = {'docs': docs, 'style': ['flow', 0, 0]}
        for c in gen:
            ks = keys_inside(c['docs'])
            c['wrap'] = [rng.choice(ks) for _ in range(rng.choice([1, 1, 2, 3]))]
            c['sib'] = [rng.choice(['zz', 'sib']), rng.choice([0, 'v', None])]
            c['vseed'] = rng.randrange(1000)
            out.append(c)
        return out

    def related(self, case):
        """the related runs of a case: name -> documents (plus what was renamed)"""
        out, info = {}, {}
        out['wrapped'] = [dict(d, raw=wrap_raw(d['raw'], case['wrap'])) for d in case['docs']]
        sk, sv = case['sib']
        sdocs = []
        for i, d in enumerate(case['docs']):
            r = dict(d['raw'])
            if not any(k == sk for k, _ in r['m']):
                r['m'] = r['m'] + [[sk, S(sv) if i % 2 == 0 else Q([S(sv), S(i)])]]
            sdocs.append(dict(d, raw=r))
        out['sibling'] = sdocs
        # consistent renaming of one key name everywhere (to a plain identifier that occurs nowhere)
        names = [k for k in keys_inside(case['docs']) if k not in ('zz9',)]
        odd = [k for k in names if not k.isidentifier()] or names
        old = odd[case.get('vseed', 0) % len(odd)] if odd else None
        info['renamed_key'] = old
        if old is not None:
            def ren(n):
                m = dict(n)
                if 'm' in m:
                    m['m'] = [['zz9' if sc_py(k) == old else k, ren(c)] for k, c in m['m']]
                elif 'q' in m:
                    m['q'] = [ren(c) for c in m['q']]
                return m
            out['renamed'] = [dict(d, raw=ren(d['raw'])) for d in case['docs']]
        # renaming ONE key in ONE mapping (the same path in every document) to a name that occurs nowhere: "how keys elsewhere are named"
        ch = local_rename_choices(case['docs'])
        if ch and 'zz8' not in names:
            lp = ch[(case.get('vseed', 0) // 7) % len(ch)]
            info['local_rename'] = [list(lp[:-1]), lp[-1]]
            out['locally_renamed'] = [dict(d, raw=rename_at(d['raw'], list(lp[:-1]), lp[-1], 'zz8')) for d in case['docs']]
        return out, info

    def impl(self, case):
        io = super().impl(case)
        st = case.get('style', ['flow', 0, 0])
        rel, info = self.related(case)
        io.update(info)
        for name, docs in rel.items():
            io[name] = impl_config(docs, self.WORLD, *st)
        return io

    # every related run also goes through the model (a change of the implementation that shows only in a related run breaks
    # the correspondence)
    def model_requests(self, case):
        reqs = super().model_requests(case)
        for name, docs in self.related(case)[0].items():
            reqs.append({'op': 'config', 'docs': docs, 'world': self.WORLD})
        return reqs

    def model_obs(self, case, answers):
        mo = super().model_obs(case, answers)
        mo['rel'] = dict(zip(self.related(case)[0].keys(), answers[2:]))
        return mo

    def compare(self, case, io, mo):
        d = super().compare(case, io, mo)
        if d is not None:
            return d
        for name, a in mo['rel'].items():
            d = compare_config(io[name], a)
            if d in ('SKIP', None) or d.startswith('KNOWN:'):
                continue
            return f'related run {name!r}: evaluated config: ' + d
        return None

    def oracle(self, case, io, ans):
        base, w, s = io['cfg'], io['wrapped'], io['sibling']
        keys = case['wrap']
        if 'ok' in base:
            if 'ok' not in w:
                return f'unwrapped sequence builds but the wrapped one fails: {json.dumps({k: v for k, v in w.items() if k != "log"})[:200]}'
            inner = unwrap_val(w['ok'], keys)
            # an empty result is a special case of Config (empty mapping is falsy): wrapped {} is still {k: {}}
            root_del = any((d['raw'].get('kw') or {}).get('del') is True for d in case['docs'])
            if inner is None and root_del and strip_ids(base['ok']) == {'d': []}:
                inner = None      # the remove-this-key idiom on a document root: a root cannot remove itself, a wrapped key can (C05_wrap states both cases)
            elif inner is None:
                return f'wrapped result is not the unwrapped result under {keys}: {json.dumps(strip_ids(w["ok"]))[:200]}'
            d = first_diff(strip_ids(base['ok']), strip_ids(inner)) if inner is not None else None
            if d:
                return f'wrapping under {keys} changed the merged content: ' + d
        else:
            if 'ok' in w:
                if base.get('err') == 'required' or base.get('err') in ('eval', 'unsafe'):
                    return None
                return f'unwrapped sequence fails ({base.get("err")}) but the wrapped one builds'
            if w.get('err') != base.get('err'):
                return f'error class changed by wrapping: {base.get("err")} -> {w.get("err")}'
        rn = io.get('renamed')
        if rn is not None and not any((n.get('t') or {}).get('k') in ('xref', 'prev', 'eval') for d_ in case['docs'] for _, n in G.paths_of(d_['raw'])):
            def back(v):
                if isinstance(v, dict):
                    if 'd' in v: return {'d': [[io['renamed_key'] if k == 'zz9' else k, back(x)] for k, x in v['d']]}
                    return {k: back(x) for k, x in v.items()}
                if isinstance(v, list): return [back(x) for x in v]
                return v
            if ('ok' in base) != ('ok' in rn):
                if not (base.get('err') == 'merge' and 'notnew' in base) :
                    return f'renaming the key {io["renamed_key"]!r} to a plain identifier everywhere changes the outcome: {base.get("err", "ok")} -> {rn.get("err", "ok")}'
            elif 'ok' in base:
                d = first_diff(strip_ids(base['ok']), back(strip_ids(rn['ok'])))
                if d:
                    return f'renaming the key {io["renamed_key"]!r} everywhere changes the merged content: ' + d
        lr = io.get('locally_renamed')
        if lr is not None and not any((n.get('t') or {}).get('k') in ('xref', 'prev', 'eval') for d_ in case['docs'] for _, n in G.paths_of(d_['raw'])):
            lpath, lkey = io['local_rename']
            where = '.'.join(map(str, lpath)) or '<root>'
            if ('ok' in base) != ('ok' in lr):
                if not (base.get('err') == 'merge' and 'notnew' in base) and not (lr.get('err') == 'merge' and 'notnew' in lr):
                    return f'renaming the key {lkey!r} inside the mapping at {where} (only there) changes the outcome: {base.get("err", "ok")} -> {lr.get("err", "ok")}'
            elif 'ok' in base:
                d = first_diff(rename_val_at(strip_ids(base['ok']), lpath, lkey, 'zz8'), strip_ids(lr['ok']))
                if d:
                    return f'renaming the key {lkey!r} inside the mapping at {where} (only there) changes the merged content elsewhere: ' + d
        if 'ok' in base and 'ok' in s:
            sk = case['sib'][0]
            bd = [kv for kv in strip_ids(base['ok'])['d'] if kv[0] != sk]
            sd = [kv for kv in strip_ids(s['ok'])['d'] if kv[0] != sk]
            if not any(k == sk for d_ in case['docs'] for k, _ in d_['raw']['m']):
                d = first_diff(bd, sd)
                if d:
                    return f'adding the unrelated sibling key {sk!r} changed other paths: ' + d
        elif ('ok' in base) != ('ok' in s) and base.get('err') != 'merge' and s.get('err') != 'merge':
            return f'adding an unrelated sibling key changed the outcome: {base.get("err", "ok")} -> {s.get("err", "ok")}'
        return None

    def nontrivial(self, case, io):
        return len(case['docs']) >= 2

PROP = C05()
