"""C05 — merging is local: wrapping under a key chain, sibling independence, frame."""
from props.mergefam import *

def wrap_raw(raw, keys):
    for k in reversed(keys):
        raw = M([(k, raw)])
    return raw

def keys_inside(docs):
    ks = []
    for d in docs:
        for p, _ in G.paths_of(d['raw']):
            for k in p:
                if isinstance(k, str) and k not in ks:
                    ks.append(k)
    return ks or ['a']

def rename_at(raw, path, old, new):
    """the document with the mapping key `old` renamed to `new` in the mapping at `path` only (nowhere else)"""
    n = dict(raw)
    if not path:
        if 'm' in n:
            n['m'] = [[new if (not isinstance(k, dict) and sc_py(k) == old and isinstance(sc_py(k), str)) else k, c] for k, c in n['m']]
        return n
    h, rest = path[0], path[1:]
    if 'm' in n:
        n['m'] = [[k, rename_at(c, rest, old, new) if (not isinstance(k, dict) and sc_py(k) == h and type(sc_py(k)) is type(h)) else c] for k, c in n['m']]
    elif 'q' in n and isinstance(h, int) and not isinstance(h, bool) and 0 <= h < len(n['q']):
        n['q'] = [rename_at(c, rest, old, new) if i == h else c for i, c in enumerate(n['q'])]
    return n

def rename_val_at(v, path, old, new):
    """the same renaming on the value JSON of a config"""
    if not isinstance(v, dict):
        return v
    if not path:
        if 'd' in v:
            return dict(v, d=[[new if k == old else k, x] for k, x in v['d']])
        return v
    h, rest = path[0], path[1:]
    if 'd' in v:
        return dict(v, d=[[k, rename_val_at(x, rest, old, new) if (k == h and type(k) is type(h)) else x] for k, x in v['d']])
    if 'l' in v and isinstance(h, int) and not isinstance(h, bool) and 0 <= h < len(v['l']):
        return dict(v, l=[rename_val_at(x, rest, old, new) if i == h else x for i, x in enumerate(v['l'])])
    return v

def local_rename_choices(docs):
    """(path of a mapping, key) pairs, string keys only; first those whose key name also occurs at another path (that is where
    the name of a key could wrongly matter), then the others"""
    seen, names = [], {}
    if any(type(k) is int and k < 0 for d in docs for p, _ in G.paths_of(d['raw']) for k in p):
        return []      # a negative index is a second spelling of a list position: "the same path in every document" is not syntactic then
    for d in docs:
        for p, _ in G.paths_of(d['raw']):
            if p and isinstance(p[-1], str) and all(isinstance(k, str) for k in p):   # list positions shift when a deleting node prunes the list: only mapping paths name "the same place" in every document and in the result
                if p not in seen:
                    seen.append(p)
                    names.setdefault(p[-1], set()).add(p[:-1])
    multi = [p for p in seen if len(names[p[-1]]) > 1]
    return multi or seen

def unwrap_val(v, keys):
    """value JSON of cfg[keys...] or None"""
    for k in keys:
        if not isinstance(v, dict) or 'd' not in v:
            return None
        nxt = [x for kk, x in v['d'] if kk == k]
        if len(v['d']) != 1 or not nxt:
            return None
        v = nxt[0]
    return v

# ---- "protected sibling": a key added to ONE mapping of the OLDEST document only ------------------------------------------

PSIB_KEY = 'zz7'
PSIB_MSG = 'adding the sibling key'

def raw_at(raw, path):
    """the node at `path` of a document, or None (mapping steps only)"""
    for h in path:
        if 'm' not in raw:
            return None
        nxt = [c for k, c in raw['m'] if not isinstance(k, dict) and type(sc_py(k)) is type(h) and sc_py(k) == h]
        if not nxt:
            return None
        raw = nxt[0]
    return raw

def add_key_at(raw, path, key, node):
    """the document with `key: node` appended to the mapping at `path` (which must exist and be a mapping)"""
    n = dict(raw)
    if not path:
        n['m'] = n['m'] + [[key, node]]
        return n
    h, rest = path[0], path[1:]
    n['m'] = [[k, add_key_at(c, rest, key, node) if (not isinstance(k, dict) and type(sc_py(k)) is type(h) and sc_py(k) == h) else c]
              for k, c in n['m']]
    return n

def psib_applicable(docs, path, key):
    """the relation is stated for a mapping of the oldest document that is reached through string keys, none of them
    repeated in its mapping, where every later document has nothing but untagged-kind mappings along that path (a list or a
    scalar written over a container with protected content is C04 territory: D18, D29, D32), `key` occurs nowhere, and the
    mapping is not at or below a !notnew node of the oldest document (content of the first stage is new by definition: the
    added key itself would be refused, C01_notnew_first_doc_errors)"""
    if len(docs) < 2 or not all(isinstance(k, str) for k in path):
        return False
    if any(key in p for d in docs for p, _ in G.paths_of(d['raw'])):
        return False
    def plain_map(n):
        return 'm' in n and (n.get('t') or {}).get('k', 'plain') == 'plain'
    for i, d in enumerate(docs):
        cur = d['raw']
        for j in range(len(path) + 1):
            if not plain_map(cur):
                return False
            if i == 0 and (cur.get('kw') or {}).get('new') is False:
                return False
            if j == len(path):
                break
            nxt = [c for k, c in cur['m'] if not isinstance(k, dict) and sc_py(k) == path[j] and isinstance(sc_py(k), str)]
            if len(nxt) > 1:
                return False
            if not nxt:
                if i == 0:
                    return False
                break
            cur = nxt[0]
    return True

def psib_choices(docs):
    """candidate mappings of the oldest document; first those at or below a deleting mapping of a later document"""
    cands = [list(p) for p, n in G.paths_of(docs[0]['raw']) if 'm' in n and psib_applicable(docs, list(p), PSIB_KEY)]
    def below_del(p):
        for d in docs[1:]:
            for j in range(len(p) + 1):
                n = raw_at(d['raw'], p[:j])
                if n is not None and (n.get('kw') or {}).get('del') is True:
                    return True
        return False
    hot = [p for p in cands if below_del(p)]
    return hot or cands

def drop_key_at(v, path, key):
    """value JSON without `key` in the mapping at `path`; mappings along `path` that are left empty are dropped as well
    (a protected entry keeps its ancestors alive under a deleting node and defeats the remove-this-key idiom: both are about
    the ancestors of the added key, not about other paths)"""
    if not isinstance(v, dict) or 'd' not in v:
        return v
    if not path:
        return dict(v, d=[[k, x] for k, x in v['d'] if k != key])
    h, rest = path[0], path[1:]
    out = []
    for k, x in v['d']:
        if k == h and type(k) is type(h):
            x = drop_key_at(x, rest, key)
            if isinstance(x, dict) and x.get('d') == []:
                continue
        out.append([k, x])
    return dict(v, d=out)

def unordered(v):
    """value JSON with the entries of every mapping sorted by key (where a surviving entry sits relative to the keys the newer
    document writes is a matter of insertion order, not of content)"""
    if isinstance(v, dict):
        if 'd' in v:
            return dict(v, d=sorted(([k, unordered(x)] for k, x in v['d']), key=lambda kv: json.dumps(kv[0])))
        return {k: unordered(x) for k, x in v.items()}
    if isinstance(v, list):
        return [unordered(x) for x in v]
    return v

def val_to_py(v):
    if isinstance(v, dict):
        if 'd' in v: return {sc_py(k): val_to_py(x) for k, x in v['d']}
        if 'l' in v: return [val_to_py(x) for x in v['l']]
        if 'f' in v: return float(v['f'])
    return v

def frame_violation(case, base):
    """"Paths that the newer document does not mention, and that are not below a deleting node of it, come out unchanged" - for two
    untagged-root documents over the plain vocabulary: every scalar of the older document is followed down the newer one (an integer
    key of a newer mapping that meets an older list names a position, negative ones from the end); where the newer document stops having
    a child before the path ends, and every node of it on the way was a mapping that does not delete, the merged value is the older one"""
    docs = case['docs']
    if len(docs) != 2 or 'ok' not in base:
        return None
    txt = json.dumps([d['raw'] for d in docs])
    if any(f'"k": "{k}"' in txt for k in ('prev', 'clear', 'append', 'extend', 'xref', 'eval', 'call', 'bind', 'required', 'callName', 'bindName')) or '"new"' in txt:
        return None
    older, newer = docs[0]['raw'], docs[1]['raw']
    got = val_to_py(strip_ids(base['ok']))
    def scalars(n, pre=()):
        if 'm' in n:
            for k, c in n['m']:
                yield from scalars(c, pre + (sc_py(k),))
        elif 'q' in n:
            for i, c in enumerate(n['q']):
                yield from scalars(c, pre + (i,))
        elif 's' in n and not n.get('t') or (n.get('t') or {}).get('k') == 'plain':
            yield pre, n
    for path, leaf in scalars(older):
        o, nw, ok = older, newer, True
        for depth, comp in enumerate(path):
            if 'm' not in nw or (nw.get('kw') or {}).get('del') is True or (nw.get('kw') or {}).get('prio') is not None or (o.get('kw') or {}).get('prio') is not None:
                ok = False; break              # a deleting / list / scalar / prioritised node of the newer document on the way: other clauses
            if 'q' in o:
                hits = [c for k, c in nw['m'] if isinstance(sc_py(k), int) and not isinstance(sc_py(k), bool) and (sc_py(k) == comp or sc_py(k) == comp - len(o['q']))]
                if any(not (isinstance(sc_py(k), int) and not isinstance(sc_py(k), bool) and -len(o['q']) <= sc_py(k) < len(o['q'])) for k, _ in nw['m']):
                    ok = False; break          # a key that is no position of the list: an error of its own
                if len([1 for k, _ in nw['m']]) != len({sc_py(k) % len(o['q']) for k, _ in nw['m']}):
                    ok = False; break          # two spellings of one position (recorded finding D28)
            else:
                hits = [c for k, c in nw['m'] if sc_py(k) == comp and type(sc_py(k)) is type(comp)]
            o = o['q'][comp] if 'q' in o else [c for k, c in o['m'] if sc_py(k) == comp][-1]
            if not hits:
                # the newer document does not mention the rest of the path
                cur, found = got, True
                for c2 in path:
                    try:
                        cur = cur[c2]
                    except (KeyError, IndexError, TypeError):
                        found = False; break
                want = sc_py(leaf['s']['l']) if 'l' in leaf.get('s', {}) else None
                if 'l' not in leaf.get('s', {}):
                    break
                if not found or type(cur) is not type(want) or cur != want:
                    return (f'the newer document does not mention {list(path)} (it stops at {list(path[:depth])}) and no node of it on the way deletes, '
                            f'yet the merged value there is {cur if found else "missing"!r}, the older document had {want!r}')
                break
            nw = hits[-1]
        if not ok:
            continue
    return None

def explicit_del_above(docs, path):
    """some later document carries an explicit `delete` on a mapping strictly above `path`"""
    for d in docs[1:]:
        for j in range(len(path)):
            n = raw_at(d['raw'], path[:j])
            if n is not None and (n.get('kw') or {}).get('del') is True:
                return True
    return False

class C05(MergeFamProp):
    ID = 'C05'
    VOCAB = G.Vocab(prio=True, delete=True, new=True, unsafe=True, meta=True, notnew=True, clear=True)
    NMAX = 3
    RULE = ('merge sequences over the merge-control vocabulary (incl. !notnew, !clear); every sequence is built as written, wrapped '
            'under a chain of 1-3 keys drawn from the keys occurring inside the documents, with an unrelated sibling key added to '
            'every document, with one key name renamed everywhere, and with one key renamed in one mapping only (the same path in every '
            'document; preferably a name that also occurs at another path); every related run is also compared with the model; a '
            'targeted family puts a deleting mapping over a tree with !force / !weak entries two and three levels down, all names from '
            'a three-letter alphabet, the newer side with !notnew mappings below the deleting one; one more related run adds a key '
            '(!force, untagged or !weak) to ONE mapping of the oldest document only: outcome and data at every other path must not '
            'change; non-trivial = at least two stages sharing a path; distinct by SHA-1')
    ASSUMPTIONS = ['error results are compared by class and (for !notnew errors) by the named path with the wrapping prefix removed']

    def corpus(self):
        D = lambda *raws: {'docs': [{'raw': r} for r in raws], 'style': ['flow', 0, 0], 'wrap': ['k'], 'sib': ['zz', 1]}
        return [
            D(M({'a': M({'p': S(1), 'q': S(2)})}), M({'a': M({'q': S(3), 'k': S(5, kw={'prio': -1})}, kw={'del': True})})),   # D04 witness
            dict(D(M({'a': M({'p': S(1, kw={'prio': 1}), 'q': S(2)})}), M({'a': M({'q': S(3), 'x': S(5, kw={'prio': 1})}, kw={'del': True})})), wrap=['x']),
            # D35 witness: a: {k: {x: 0}} <- a: !del {k: !notnew {x: 1}} builds {a: {k: {x: 1}}}; with the protected sibling
            # p: !force 1 next to k the key loop ran _require_all_new without the removed paths and refused a.k
            dict(D(M({'a': M({'k': M({'x': S(0)})})}), M({'a': M({'k': M({'x': S(1)}, kw={'new': False})}, kw={'del': True})})),
                 psib=[['a'], 'p', 1, {'prio': 1}]),
            # the same one level down (D39, recorded finding): the pruning that removed r.a.k is the one of r, the merge that
            # needs the exception is the nested one of r.a
            dict(D(M({'r': M({'a': M({'k': M({'x': S(0)})})})}), M({'r': M({'a': M({'k': M({'x': S(5)}, kw={'new': False})})}, kw={'del': True})})),
                 psib=[['r', 'a'], 'p', 1, {'prio': 1}]),
        ]

    def gen_cases(self, rng, n, tier):
        G.P_ODD = 0.2
        try:
            return self._gen_cases(rng, n, tier)
        finally:
            G.P_ODD = 0.0

    def _gen_cases(self, rng, n, tier):
        out = []
        gen = list(super().gen_cases(rng, n, tier))
        # targeted family: operators addressing a key at depth 1 whose name is not a plain identifier / looks like a path
        for i in range(max(3, n // 12)):
            k = rng.choice(['x.y', 'my-key', 'a[0]', 'k 1', 'x.y'])
            base = M([('x', M([('y', Q([S(1), S(2)])), ('z', S(3))])), (k, rng.choice([Q([S(4), S(5)]), M([('p', S(6))])])), ('a', Q([S(7)]))])
            op = rng.choice([Sempty('clear'), Sempty('clear'), M([('q', S(8))], kw={'del': True}), Q([S(9)], kw={'del': False})])
            gen[i % len(gen)] = {'docs': [{'raw': base}, {'raw': M([(k, op)])}], 'style': ['flow', 0, 0]}
        # targeted family: a deleting mapping over a tree with protected entries two and three levels down, all key names drawn
        # (with repetition) from a three-letter alphabet, so that a direct child of the deleting mapping often carries the name of
        # a deeper key of the older tree
        for i in range(max(4, n // 8)):
            al = rng.sample(['a', 'b', 'c', 'k', 'x'], 3)
            nm = lambda: rng.choice(al)
            tag = lambda: rng.choice([{}, {}, {'prio': 1}, {'prio': 1}, {'prio': -1}])
            leaf = lambda: S(rng.randrange(9), kw=tag())
            def deep(d):
                items, used = [], set()
                for _ in range(rng.choice([1, 2, 2, 3])):
                    k = nm()
                    if k in used: continue
                    used.add(k)
                    items.append((k, deep(d - 1) if d > 0 and rng.random() < 0.6 else leaf()))
                return M(items, kw=tag() if rng.random() < 0.2 else {})
            r = nm()
            older = M([(r, deep(2))])
            newer_items, used = [], set()
            for _ in range(rng.choice([1, 2, 3])):
                k = nm()
                if k in used: continue
                used.add(k)
                v = leaf() if rng.random() < 0.6 else deep(1)
                if 'm' in v and rng.random() < 0.6:      # a !notnew mapping below the deleting one: may only re-create removed paths
                    v = M([(kk, cc) for kk, cc in v['m']], kw=dict(v.get('kw') or {}, new=False))
                newer_items.append((k, v))
            newer = M([(r, M(newer_items, kw=dict(tag(), **{'del': True})))])
            docs = [{'raw': older}, {'raw': newer}]
            if rng.random() < 0.3:
                docs.append({'raw': M([(r, deep(1))])})
            if rng.random() < 0.35:
                # the deleting mapping IS the document root: the unwrapped run prunes at the empty path, the wrapped one below keys
                # (seeded change S6-C05: a path object shared between the pruning walk and its caller, only when the path is non-empty)
                docs = [{'raw': d['raw']['m'][0][1]} for d in docs]
                docs = [d for d in docs if 'm' in d['raw']]
                if len(docs) < 2 or 'm' not in docs[0]['raw']:
                    docs = [{'raw': older}, {'raw': newer}]
            gen[(len(gen) - 1 - i) % len(gen)] = {'docs': docs, 'style': ['flow', 0, 0]}
        # targeted family: a deleting mapping whose !notnew children re-create (part of) what its pruning removes, next to
        # entries of the older mapping that may be protected; the added sibling goes into the mapping the deleting one meets
        # (D35) or one level below it (D39)
        forced = {}
        for i in range(max(4, n // 10)):
            al = rng.sample(['a', 'b', 'c', 'k', 'x'], 3)
            tag = lambda: rng.choice([{}, {}, {}, {'prio': 1}, {'prio': -1}])
            def tree(d):
                items = []
                for k in rng.sample(al, rng.choice([1, 2, 2, 3])):
                    items.append((k, tree(d - 1) if d > 0 and rng.random() < 0.6 else S(rng.randrange(9), kw=tag())))
                return M(items)
            def again(n, top):
                """a newer mapping over (part of) the keys of `n`, now and then a key that is not there; !notnew at one level"""
                items = []
                for k, c in n['m']:
                    if rng.random() < 0.75:
                        items.append((sc_py(k), again(c, False) if 'm' in c and rng.random() < 0.8 else S(rng.randrange(9))))
                if rng.random() < 0.15:
                    items.append((rng.choice(['n', 'y']), S(1)))
                kw = {'new': False} if (not top and rng.random() < 0.6) else {}
                return M(items, kw=kw)
            r = rng.choice(al)
            inner = tree(2)
            older = M([(r, inner)])
            newer = M([(r, M(again(inner, True)['m'], kw={'del': True}))])
            subs = [[r] + [sc_py(k)] for k, c in inner['m'] if 'm' in c]
            where = [r] if (not subs or rng.random() < 0.6) else rng.choice(subs)
            j = (len(gen) // 2 + i) % len(gen)
            gen[j] = {'docs': [{'raw': older}, {'raw': newer}], 'style': ['flow', 0, 0]}
            forced[j] = [where, PSIB_KEY, 7, rng.choice([{'prio': 1}, {'prio': 1}, {'prio': 1}, {}])]
        # targeted family: a list whose elements carry their own priorities, patched through a mapping with index keys that holds
        # deleting nodes - below a top-level key that is itself an INTEGER (and a valid position of that list) or a string: what
        # the key above the list is called must not matter (seeded change S5-C05: the list's pre-filter looked absolute paths up
        # inside the list)
        for i in range(max(3, n // 12)):
            ln = rng.choice([2, 3, 3])
            def el():
                kw = rng.choice([{}, {'prio': 1}, {'prio': 1}, {'prio': -1}])
                return M([(rng.choice(['x', 'y']), S(rng.randrange(9)))], kw=kw) if rng.random() < 0.6 else S(rng.randrange(9), kw=kw)
            top = rng.choice([0, 0, 1, ln - 1, 'lst', 'a'])
            older = M([(top, Q([el() for _ in range(ln)]))])
            patch = []
            for ix in rng.sample(range(ln), rng.choice([1, 2])):
                r = rng.random()
                v = M([(rng.choice(['y', 'z']), S(rng.randrange(9)))], kw={'del': True}) if r < 0.35 else (
                    M([(rng.choice(['x', 'y', 'z']), S(20 + rng.randrange(9)))]) if r < 0.6 else (Q([S(5)]) if r < 0.75 else S(30 + ix)))
                patch.append((ix if rng.random() < 0.8 else ix - ln, v))
            newer = M([(top, M(patch))])
            gen[(len(gen) // 3 + i) % len(gen)] = {'docs': [{'raw': older}, {'raw': newer}], 'style': ['flow', 0, 0]}
        for j, c in enumerate(gen):
            if j in forced and psib_applicable(c['docs'], forced[j][0], PSIB_KEY):
                c['psib'] = forced[j]
        for c in gen:
            ks = keys_inside(c['docs'])
            c['wrap'] = [rng.choice(ks) for _ in range(rng.choice([1, 1, 2, 3]))]
            c['sib'] = [rng.choice(['zz', 'sib']), rng.choice([0, 'v', None])]
            c['vseed'] = rng.randrange(1000)
            ch = psib_choices(c['docs'])
            if ch and 'psib' not in c:
                c['psib'] = [ch[rng.randrange(len(ch))], PSIB_KEY, 7, rng.choice([{'prio': 1}, {'prio': 1}, {}, {'prio': -1}])]
            out.append(c)
        return out

    def related(self, case):
        """the related runs of a case: name -> documents (plus what was renamed)"""
        out, info = {}, {}
        out['wrapped'] = [dict(d, raw=wrap_raw(d['raw'], case['wrap'])) for d in case['docs']]
        sk, sv = case['sib']
        sdocs = []
        for i, d in enumerate(case['docs']):
            r = dict(d['raw'])
            if not any(k == sk for k, _ in r['m']):
                r['m'] = r['m'] + [[sk, S(sv) if i % 2 == 0 else Q([S(sv), S(i)])]]
            sdocs.append(dict(d, raw=r))
        out['sibling'] = sdocs
        # consistent renaming of one key name everywhere (to a plain identifier that occurs nowhere)
        names = [k for k in keys_inside(case['docs']) if k not in ('zz9',)]
        odd = [k for k in names if not k.isidentifier()] or names
        old = odd[case.get('vseed', 0) % len(odd)] if odd else None
        info['renamed_key'] = old
        if old is not None:
            def ren(n):
                m = dict(n)
                if 'm' in m:
                    m['m'] = [['zz9' if sc_py(k) == old else k, ren(c)] for k, c in m['m']]
                elif 'q' in m:
                    m['q'] = [ren(c) for c in m['q']]
                return m
            out['renamed'] = [dict(d, raw=ren(d['raw'])) for d in case['docs']]
        # renaming ONE key in ONE mapping (the same path in every document) to a name that occurs nowhere: "how keys elsewhere are named"
        ch = local_rename_choices(case['docs'])
        if ch and 'zz8' not in names:
            lp = ch[(case.get('vseed', 0) // 7) % len(ch)]
            info['local_rename'] = [list(lp[:-1]), lp[-1]]
            out['locally_renamed'] = [dict(d, raw=rename_at(d['raw'], list(lp[:-1]), lp[-1], 'zz8')) for d in case['docs']]
        # a key added to one mapping of the oldest document only, with any priority ("unaffected by what sibling paths contain")
        ps = case.get('psib')
        if ps and psib_applicable(case['docs'], ps[0], ps[1]):
            d0 = case['docs'][0]
            out['protsib'] = [dict(d0, raw=add_key_at(d0['raw'], ps[0], ps[1], S(ps[2], kw=ps[3] or None)))] + case['docs'][1:]
        return out, info

    def impl(self, case):
        io = super().impl(case)
        st = case.get('style', ['flow', 0, 0])
        rel, info = self.related(case)
        io.update(info)
        for name, docs in rel.items():
            io[name] = impl_config(docs, self.WORLD, *st)
        return io

    # every related run also goes through the model (a change of the implementation that shows only in a related run breaks
    # the correspondence)
    def model_requests(self, case):
        reqs = super().model_requests(case)
        for name, docs in self.related(case)[0].items():
            reqs.append({'op': 'config', 'docs': docs, 'world': self.WORLD})
        return reqs

    def model_obs(self, case, answers):
        mo = super().model_obs(case, answers)
        mo['rel'] = dict(zip(self.related(case)[0].keys(), answers[2:]))
        return mo

    def compare(self, case, io, mo):
        d = super().compare(case, io, mo)
        if d is not None:
            return d
        for name, a in mo['rel'].items():
            d = compare_config(io[name], a)
            if d in ('SKIP', None) or d.startswith('KNOWN:'):
                continue
            return f'related run {name!r}: evaluated config: ' + d
        return None

    def oracle(self, case, io, ans):
        base, w, s = io['cfg'], io['wrapped'], io['sibling']
        keys = case['wrap']
        if 'ok' in base:
            if 'ok' not in w:
                return f'unwrapped sequence builds but the wrapped one fails: {json.dumps({k: v for k, v in w.items() if k != "log"})[:200]}'
            inner = unwrap_val(w['ok'], keys)
            # an empty result is a special case of Config (empty mapping is falsy): wrapped {} is still {k: {}}
            root_del = any((d['raw'].get('kw') or {}).get('del') is True for d in case['docs'])
            if inner is None and root_del and strip_ids(base['ok']) == {'d': []}:
                inner = None      # the remove-this-key idiom on a document root: a root cannot remove itself, a wrapped key can (C05_wrap states both cases)
            elif inner is None:
                return f'wrapped result is not the unwrapped result under {keys}: {json.dumps(strip_ids(w["ok"]))[:200]}'
            d = first_diff(strip_ids(base['ok']), strip_ids(inner)) if inner is not None else None
            if d:
                return f'wrapping under {keys} changed the merged content: ' + d
        else:
            if 'ok' in w:
                if base.get('err') == 'required' or base.get('err') in ('eval', 'unsafe'):
                    return None
                return f'unwrapped sequence fails ({base.get("err")}) but the wrapped one builds'
            if w.get('err') != base.get('err'):
                return f'error class changed by wrapping: {base.get("err")} -> {w.get("err")}'
        rn = io.get('renamed')
        if rn is not None and not any((n.get('t') or {}).get('k') in ('xref', 'prev', 'eval') for d_ in case['docs'] for _, n in G.paths_of(d_['raw'])):
            def back(v):
                if isinstance(v, dict):
                    if 'd' in v: return {'d': [[io['renamed_key'] if k == 'zz9' else k, back(x)] for k, x in v['d']]}
                    return {k: back(x) for k, x in v.items()}
                if isinstance(v, list): return [back(x) for x in v]
                return v
            if ('ok' in base) != ('ok' in rn):
                if not (base.get('err') == 'merge' and 'notnew' in base) :
                    return f'renaming the key {io["renamed_key"]!r} to a plain identifier everywhere changes the outcome: {base.get("err", "ok")} -> {rn.get("err", "ok")}'
            elif 'ok' in base:
                d = first_diff(strip_ids(base['ok']), back(strip_ids(rn['ok'])))
                if d:
                    return f'renaming the key {io["renamed_key"]!r} everywhere changes the merged content: ' + d
        lr = io.get('locally_renamed')
        if lr is not None and not any((n.get('t') or {}).get('k') in ('xref', 'prev', 'eval') for d_ in case['docs'] for _, n in G.paths_of(d_['raw'])):
            lpath, lkey = io['local_rename']
            where = '.'.join(map(str, lpath)) or '<root>'
            if ('ok' in base) != ('ok' in lr):
                if not (base.get('err') == 'merge' and 'notnew' in base) and not (lr.get('err') == 'merge' and 'notnew' in lr):
                    return f'renaming the key {lkey!r} inside the mapping at {where} (only there) changes the outcome: {base.get("err", "ok")} -> {lr.get("err", "ok")}'
            elif 'ok' in base:
                d = first_diff(rename_val_at(strip_ids(base['ok']), lpath, lkey, 'zz8'), strip_ids(lr['ok']))
                if d:
                    return f'renaming the key {lkey!r} inside the mapping at {where} (only there) changes the merged content elsewhere: ' + d
        if 'ok' in base and 'ok' in s:
            sk = case['sib'][0]
            bd = [kv for kv in strip_ids(base['ok'])['d'] if kv[0] != sk]
            sd = [kv for kv in strip_ids(s['ok'])['d'] if kv[0] != sk]
            if not any(k == sk for d_ in case['docs'] for k, _ in d_['raw']['m']):
                d = first_diff(bd, sd)
                if d:
                    return f'adding the unrelated sibling key {sk!r} changed other paths: ' + d
        elif ('ok' in base) != ('ok' in s) and base.get('err') != 'merge' and s.get('err') != 'merge':
            return f'adding an unrelated sibling key changed the outcome: {base.get("err", "ok")} -> {s.get("err", "ok")}'
        d = frame_violation(case, base)
        if d:
            return d
        ps = io.get('protsib')
        if ps is not None:
            ppath, pkey, _, pkw = case['psib']
            where = '.'.join(ppath) or '<root>'
            how = {1: '!force ', -1: '!weak '}.get((pkw or {}).get('prio'), '')
            outcome = lambda r: 'ok' if 'ok' in r else r.get('err', '?') + (f'(notnew {r["notnew"]})' if 'notnew' in r else '')
            if ('ok' in base) != ('ok' in ps) or ('ok' not in base and (base.get('err'), base.get('notnew')) != (ps.get('err'), ps.get('notnew'))):
                return (f'{PSIB_MSG} {how}{pkey!r} to the mapping at {where} of the oldest document changes the outcome: '
                        f'{outcome(base)} -> {outcome(ps)}')
            if 'ok' in base:
                d = first_diff(unordered(drop_key_at(strip_ids(base['ok']), ppath, pkey)), unordered(drop_key_at(strip_ids(ps['ok']), ppath, pkey)))
                if d:
                    return f'{PSIB_MSG} {how}{pkey!r} to the mapping at {where} of the oldest document changes the merged content elsewhere: ' + d
        return None

    def finding_key(self, case, desc):
        # D39: the paths removed by the pruning of a deleting mapping are exceptions of _require_all_new only in the merge of
        # that mapping itself, not in the nested merges of the children that survive it
        if desc and desc.startswith(PSIB_MSG) and 'changes the outcome' in desc and '(notnew ' in desc and case.get('psib'):
            if explicit_del_above(case['docs'], case['psib'][0]):
                return 'outer-pruning-not-excepted'
        return None

    def nontrivial(self, case, io):
        return len(case['docs']) >= 2

PROP = C05()
