"""C05 — merging is local: wrapping under a key chain, sibling independence, frame."""
from props.mergefam import *

def wrap_raw(raw, keys):
    for k in reversed(keys):
        raw = M([(k, raw)])
    return raw

def keys_inside(docs):
    ks = []
    for d in docs:
        for p, _ in G.paths_of(d['raw']):
            for k in p:
                if isinstance(k, str) and k not in ks:
                    ks.append(k)
    return ks or ['a']

def unwrap_val(v, keys):
    """value JSON of cfg[keys...] or None"""
    for k in keys:
        if not isinstance(v, dict) or 'd' not in v:
            return None
        nxt = [x for kk, x in v['d'] if kk == k]
        if len(v['d']) != 1 or not nxt:
            return None
        v = nxt[0]
    return v

class C05(MergeFamProp):
    ID = 'C05'
    VOCAB = G.Vocab(prio=True, delete=True, new=True, unsafe=True, meta=True, notnew=True, clear=True)
    NMAX = 3
    RULE = ('merge sequences over the merge-control vocabulary (incl. !notnew, !clear); every sequence is built as written, wrapped '
            'under a chain of 1-3 keys drawn from the keys occurring inside the documents, and with an unrelated sibling key added to '
            'every document; non-trivial = at least two stages sharing a path; distinct by SHA-1')
    ASSUMPTIONS = ['error results are compared by class and (for !notnew errors) by the named path with the wrapping prefix removed']

    def corpus(self):
        D = lambda *raws: {'docs': [{'raw': r} for r in raws], 'style': ['flow', 0, 0], 'wrap': ['k'], 'sib': ['zz', 1]}
        return [
            D(M({'a': M({'p': S(1), 'q': S(2)})}), M({'a': M({'q': S(3), 'k': S(5, kw={'prio': -1})}, kw={'del': True})})),   # D04 witness
            dict(D(M({'a': M({'p': S(1, kw={'prio': 1}), 'q': S(2)})}), M({'a': M({'q': S(3), 'x': S(5, kw={'prio': 1})}, kw={'del': True})})), wrap=['x']),
        ]

    def gen_cases(self, rng, n, tier):
        G.P_ODD = 0.2
        try:
            return self._gen_cases(rng, n, tier)
        finally:
            G.P_ODD = 0.0

    def _gen_cases(self, rng, n, tier):
        out = []
        gen = list(super().gen_cases(rng, n, tier))
        # targeted family: operators addressing a key at depth 1 whose name is not a plain identifier / looks like a path
        for i in range(max(3, n // 12)):
            k = rng.choice(['x.y', 'my-key', 'a[0]', 'k 1', 'x.y'])
            base = M([('x', M([('y', Q([S(1), S(2)])), ('z', S(3))])), (k, rng.choice([Q([S(4), S(5)]), M([('p', S(6))])])), ('a', Q([S(7)]))])
            op = rng.choice([Sempty('clear'), Sempty('clear'), M([('q', S(8))], kw={'del': True}), Q([S(9)], kw={'del': False})])
            gen[i % len(gen)] = {'docs': [{'raw': base}, {'raw': M([(k, op)])}], 'style': ['flow', 0, 0]}
        for c in gen:
            ks = keys_inside(c['docs'])
            c['wrap'] = [rng.choice(ks) for _ in range(rng.choice([1, 1, 2, 3]))]
            c['sib'] = [rng.choice(['zz', 'sib']), rng.choice([0, 'v', None])]
            c['vseed'] = rng.randrange(1000)
            out.append(c)
        return out

    def impl(self, case):
        io = super().impl(case)
        st = case.get('style', ['flow', 0, 0])
        wdocs = [dict(d, raw=wrap_raw(d['raw'], case['wrap'])) for d in case['docs']]
        io['wrapped'] = impl_config(wdocs, self.WORLD, *st)
        sk, sv = case['sib']
        sdocs = []
        for i, d in enumerate(case['docs']):
            r = dict(d['raw'])
            if not any(k == sk for k, _ in r['m']):
                r['m'] = r['m'] + [[sk, S(sv) if i % 2 == 0 else Q([S(sv), S(i)])]]
            sdocs.append(dict(d, raw=r))
        io['sibling'] = impl_config(sdocs, self.WORLD, *st)
        # consistent renaming of one key name everywhere (to a plain identifier that occurs nowhere)
        names = [k for k in keys_inside(case['docs']) if k not in ('zz9',)]
        odd = [k for k in names if not k.isidentifier()] or names
        old = odd[case.get('vseed', 0) % len(odd)] if odd else None
        io['renamed_key'] = old
        if old is not None:
            def ren(n):
                m = dict(n)
                if 'm' in m:
                    m['m'] = [['zz9' if sc_py(k) == old else k, ren(c)] for k, c in m['m']]
                elif 'q' in m:
                    m['q'] = [ren(c) for c in m['q']]
                return m
            io['renamed'] = impl_config([dict(d, raw=ren(d['raw'])) for d in case['docs']], self.WORLD, *st)
        return io

    def oracle(self, case, io, ans):
        base, w, s = io['cfg'], io['wrapped'], io['sibling']
        keys = case['wrap']
        if 'ok' in base:
            if 'ok' not in w:
                return f'unwrapped sequence builds but the wrapped one fails: {json.dumps({k: v for k, v in w.items() if k != "log"})[:200]}'
            inner = unwrap_val(w['ok'], keys)
            # an empty result is a special case of Config (empty mapping is falsy): wrapped {} is still {k: {}}
            root_del = any((d['raw'].get('kw') or {}).get('del') is True for d in case['docs'])
            if inner is None and root_del and strip_ids(base['ok']) == {'d': []}:
                inner = None      # the remove-this-key idiom on a document root: a root cannot remove itself, a wrapped key can (C05_wrap states both cases)
            elif inner is None:
                return f'wrapped result is not the unwrapped result under {keys}: {json.dumps(strip_ids(w["ok"]))[:200]}'
            d = first_diff(strip_ids(base['ok']), strip_ids(inner)) if inner is not None else None
            if d:
                return f'wrapping under {keys} changed the merged content: ' + d
        else:
            if 'ok' in w:
                if base.get('err') == 'required' or base.get('err') in ('eval', 'unsafe'):
                    return None
                return f'unwrapped sequence fails ({base.get("err")}) but the wrapped one builds'
            if w.get('err') != base.get('err'):
                return f'error class changed by wrapping: {base.get("err")} -> {w.get("err")}'
        rn = io.get('renamed')
        if rn is not None and not any((n.get('t') or {}).get('k') in ('xref', 'prev', 'eval') for d_ in case['docs'] for _, n in G.paths_of(d_['raw'])):
            def back(v):
                if isinstance(v, dict):
                    if 'd' in v: return {'d': [[io['renamed_key'] if k == 'zz9' else k, back(x)] for k, x in v['d']]}
                    return {k: back(x) for k, x in v.items()}
                if isinstance(v, list): return [back(x) for x in v]
                return v
            if ('ok' in base) != ('ok' in rn):
                if not (base.get('err') == 'merge' and 'notnew' in base) :
                    return f'renaming the key {io["renamed_key"]!r} to a plain identifier everywhere changes the outcome: {base.get("err", "ok")} -> {rn.get("err", "ok")}'
            elif 'ok' in base:
                d = first_diff(strip_ids(base['ok']), back(strip_ids(rn['ok'])))
                if d:
                    return f'renaming the key {io["renamed_key"]!r} everywhere changes the merged content: ' + d
        if 'ok' in base and 'ok' in s:
            sk = case['sib'][0]
            bd = [kv for kv in strip_ids(base['ok'])['d'] if kv[0] != sk]
            sd = [kv for kv in strip_ids(s['ok'])['d'] if kv[0] != sk]
            if not any(k == sk for d_ in case['docs'] for k, _ in d_['raw']['m']):
                d = first_diff(bd, sd)
                if d:
                    return f'adding the unrelated sibling key {sk!r} changed other paths: ' + d
        elif ('ok' in base) != ('ok' in s) and base.get('err') != 'merge' and s.get('err') != 'merge':
            return f'adding an unrelated sibling key changed the outcome: {base.get("err", "ok")} -> {s.get("err", "ok")}'
        return None

    def nontrivial(self, case, io):
        return len(case['docs']) >= 2

PROP = C05()
