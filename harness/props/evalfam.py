"""Shared machinery of the evaluation-family properties (C07, C09, C10, C11): cases are documents with
dynamic nodes; the implementation observable is the evaluated config (values, identity classes), the
execution log attributed to nodes, and a dump of the merged tree."""
import json, copy, signal, random as _random
from framework import Prop
from common import *
import evalrun
from evalrun import WorldImpl, conv_val, renumber, compare_config, has_leak, EXEC_LOG, build_root
from awesomeyaml.eval_context import EvalContext
import gen_eval as GE
from props.mergefam import doc_features, shrink_docs, strip_ids

class Hang(BaseException):
    """watchdog expiry; a BaseException so that the library's error wrapping cannot swallow it"""
    pass

def _alarm(signum, frame):
    raise Hang()

def tree_nodes(root, pre=()):
    """(path tuple, real node) of every node of a real tree"""
    out = [(pre, root)]
    if isinstance(root, ComposedNode):
        for k, c in root.ayns.named_children():
            out += tree_nodes(c, pre + (sc_py(native_key(k)),))
    return out

def dyn_kind(n):
    return {CallNode: 'call', BindNode: 'bind', EvalNode: 'eval', FStrNode: 'fstr', ImportNode: 'import', XRefNode: 'xref'}.get(type(n))

def run_case(docs, world, style=('flow', 0, 0), timeout=5, extra=None):
    """full observation of one build; a build that hits the watchdog is run once more with six times the budget before it is
    called a hang (a loaded machine must not turn into 'evaluation did not terminate')"""
    obs = _run_case(docs, world, style, timeout, extra)
    if obs.get('cfg', {}).get('err') == 'HANG':
        obs = _run_case(docs, world, style, timeout * 6, extra)
    return obs

def _run_case(docs, world, style=('flow', 0, 0), timeout=5, extra=None):
    """full observation of one build: merged-tree facts, evaluated value JSON, attributed execution log"""
    obs = {}
    old = signal.signal(signal.SIGALRM, _alarm)
    signal.alarm(timeout)
    try:
        with WorldImpl(world) as w:
            try:
                root = build_root(docs, *style)
                obs['nodes'] = [] if root is None else [
                    {'p': NodePath.join_path(list(p)), 'pt': json.dumps([sc_json(k) for k in p]), 'kind': dyn_kind(n) or ('scalar' if not isinstance(n, ComposedNode) else 'comp'),
                     'safe': bool(n.ayns.safe), 'v': (sc_json(n.ayns.native_value) if type(n).__name__.startswith('ConfigScalar') else None),
                     'text': str(n) if dyn_kind(n) in ('xref', 'eval', 'fstr', 'import') else None}
                    for p, n in tree_nodes(root)]
                pre = dump_node(root) if (extra and root is not None) else None      # the merged tree BEFORE anything is evaluated
                cfg = Config(root, eval_ctx=EvalContext(eval_symbols=w.syms))
                if pre is not None:
                    obs['pre_dump'] = pre
                obs['cfg'] = {'ok': renumber(conv_val(cfg, w, {})), 'log': list(w.log)}
                if extra:
                    extra(obs, root, cfg, w)
            except RecursionError:
                obs['cfg'] = {'err': 'recursion', 'log': list(w.log)}
            except Hang:
                obs['cfg'] = {'err': 'HANG', 'log': list(w.log)}
            except Exception as e:  # noqa
                r = classify_error(e); r['log'] = list(w.log); obs['cfg'] = r
            obs['exec'] = [[e[0], e[1], e[2], json.dumps(conv_val(list(e[4][0]) + list(e[4][1]) + list(e[4][2].values()), w, {}), default=str)] for e in EXEC_LOG]
    except Hang:
        obs['cfg'] = {'err': 'HANG', 'log': []}
        obs.setdefault('exec', [])
    finally:
        signal.alarm(0)
        signal.signal(signal.SIGALRM, old)
    return obs

class EvalFamProp(Prop):
    WORLD = GE.WORLD
    P_UNSAFE = 0.04
    P_BAD = 0.06
    P_UNSAFE_SRC = 0.08
    NMAX = 3

    def gen_cases(self, rng, n, tier):
        return [{'docs': GE.gen_dyn_case(rng, self.NMAX, 3, self.P_UNSAFE, self.P_BAD, self.P_UNSAFE_SRC), 'style': ['flow', 0, 0]} for _ in range(n)]

    def impl(self, case):
        return run_case(case['docs'], self.WORLD, tuple(case.get('style', ['flow', 0, 0])))

    def model_requests(self, case):
        return [{'op': 'config', 'docs': case['docs'], 'world': self.WORLD}]

    def model_obs(self, case, answers):
        return answers[0]

    def compare(self, case, io, mo):
        if io['cfg'].get('err') == 'HANG':
            return 'implementation did not terminate within the watchdog; model: ' + json.dumps(mo)[:100]
        return compare_config(io['cfg'], mo)

    def render(self, case):
        st = case.get('style', ['flow', 0, 0])
        out = []
        for d in case['docs']:
            try:
                out.append(('[safe=False] ' if d.get('safe') is False else '') + render_doc(d['raw'], *st).rstrip())
            except Exception as e:
                out.append(f'<unrenderable: {e}>')
        return out

    def features(self, case, io):
        f = doc_features(case['docs'])
        r = io['cfg'].get('err', 'ok') if isinstance(io, dict) and 'cfg' in io else '?'
        ex = sorted(set('exec:' + e[0].split(':')[0] for e in io.get('exec', [])))
        return f + ['result:' + str(r)] + ex

    def shrink(self, case):
        for d in shrink_docs(case['docs']):
            yield dict(case, docs=d)

    def nontrivial(self, case, io):
        return any(n['kind'] not in ('scalar', 'comp') for n in io.get('nodes', []))


def doc_safety(docs):
    """per stage: {path string: unsafe?} derived from the documents alone (source flag, !unsafe on the node or an ancestor)"""
    out = []
    for d in docs:
        m = {}
        def walk(n, path, unsafe):
            unsafe = unsafe or (n.get('kw') or {}).get('safe') is False
            m[NodePath.join_path(list(path))] = unsafe
            if 'm' in n:
                for k, c in n['m']:
                    walk(c, path + (sc_py(k),), unsafe)
            elif 'q' in n:
                op = (n.get('t') or {}).get('k') in ('append', 'extend')    # elements of an operator land behind the existing ones: no fixed position
                for i, c in enumerate(n['q']):
                    walk(c, path + ((f'*op*{i}' if op else i),), unsafe)
        walk(d['raw'], (), d.get('safe') is False)
        out.append(m)
    return out

def doc_scalar_contexts(docs):
    """(set of scalar values written in unsafe context, set written in safe context)"""
    uns, saf = set(), set()
    for d in docs:
        def walk(n, unsafe):
            unsafe = unsafe or (n.get('kw') or {}).get('safe') is False
            if 's' in n and 'l' in n['s']:
                (uns if unsafe else saf).add(json.dumps(n['s']['l']))
            for c in n.get('q', []): walk(c, unsafe)
            for _, c in n.get('m', []): walk(c, unsafe)
        walk(d['raw'], d.get('safe') is False)
    return uns, saf
