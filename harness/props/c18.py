"""C18 — dump then parse gives a tree that merges and evaluates the same.

Implementation: t = parse(text); d1 = yaml.dump(t); t2 = parse(d1); d2 = yaml.dump(t2) (parsing through a Builder so that
the source-level safe flag and file name are the same for both parses).  Oracle (implementation alone): d1 == d2; t2 equals t
on kinds, content, effective priority/delete/allow_new/safe and user metadata; substituting d1 for the original text at every
position of a generated merge sequence gives the same merged tree (same view) and the same evaluated config.
Model: `represent` (AY.Model.Dump) and `construct` — compared on the re-parsed tree (full internal state), on the kind of dump
failure and on the fixpoint verdict.

Known limitations of the dumper are classified (finding keys below) and reported as KNOWN-FINDING; every other failure is a
violation.  Cases are generated in two streams: first documents that avoid every known limitation (any failure there is new),
then the unrestricted full vocabulary."""
import json, random as _random
from framework import Prop
from common import *
from awesomeyaml import yaml as ayyaml
from evalrun import WorldImpl, conv_val, renumber
from awesomeyaml.eval_context import EvalContext
from props.mergefam import doc_features, shrink_docs
import gen_merge as G
import gen_eval as GE
import gen_full as GF

_dump_node = dump_node
def dump_node(n):
    return json.loads(json.dumps(_dump_node(n)))

def eff(d):
    """the view of a node tree the property talks about: kinds, content, effective flags, user metadata"""
    f = d['f']
    out = {'k': d['k'], 'ePrio': f['ePrio'], 'eDel': f['eDel'], 'eNew': f['eNew'], 'eSafe': f['eSafe'], 'md': f['md']}
    if 'v' in d: out['v'] = d['v']
    if 'c' in d: out['c'] = [[k, eff(c)] for k, c in d['c']]
    return out

def data_view(d):
    """kinds, content and user metadata of a merged tree (what "the same merged config" means)"""
    out = {'k': d['k'], 'md': d['f']['md']}
    if 'v' in d: out['v'] = d['v']
    if 'c' in d: out['c'] = [[k, data_view(c)] for k, c in d['c']]
    return out

def parse_text(text, doc):
    b = Builder()
    b.add_source(text, raw_yaml=True, filename=doc.get('src'), safe=doc.get('safe'))
    return b.stages[0] if b.stages else None

def build_texts(items, world):
    """items: [(text, doc)]; merged tree view + evaluated config (or error class)"""
    with WorldImpl(world) as w:
        try:
            b = Builder()
            for text, d in items:
                b.add_source(text, raw_yaml=True, filename=d.get('src'), safe=d.get('safe'))
            root = b.build()
            tree = None if root is None else data_view(dump_node(root))
        except RecursionError:
            return {'err': 'recursion'}
        except Exception as e:  # noqa
            return classify_error(e)
        try:
            cfg = Config(root, eval_ctx=EvalContext(eval_symbols=w.syms))
            return {'tree': tree, 'cfg': {'ok': renumber(conv_val(cfg, w, {})), 'log': list(w.log)}}
        except RecursionError:
            return {'tree': tree, 'cfg': {'err': 'recursion'}}
        except Exception as e:  # noqa
            return {'tree': tree, 'cfg': classify_error(e)}

# ---------------------------------------------------------------------------------------------- classification of documents
def walk(raw, f, anc=()):
    f(raw, anc)
    if 'q' in raw:
        for c in raw['q']: walk(c, f, anc + (raw,))
    elif 'm' in raw:
        for _, c in raw['m']: walk(c, f, anc + (raw,))

def tkind(n):
    return n['t']['k'] if n.get('t') else None

def type_default_delete(n):
    k = tkind(n)
    if k in ('call', 'bind', 'callName', 'bindName'): return True
    if 'q' in n or k in ('append', 'extend', 'path'): return True
    return False

ESCAPED = lambda s: isinstance(s, str) and (('\\' in s) or ('\n' in s) or ("'" in s and '"' in s) or any(ord(c) < 32 or ord(c) > 126 for c in s))

def doc_traits(doc):
    """structural traits of a document that put it into the class of a known limitation of the dumper"""
    tr = set()
    src_safe = doc.get('safe') is not False
    def f(n, anc):
        k = tkind(n)
        kw = n.get('kw') or {}
        inherited_prio = any((a.get('kw') or {}).get('prio') is not None for a in anc)
        is_fstr = k == 'fstr' or ('s' in n and not n.get('t') and isinstance(sc_py(n['s'].get('l')), str) and str(n['s'].get('l')).startswith("f'"))
        if k in ('append', 'prev', 'import', 'include') and (inherited_prio or any(v not in (None, []) for v in kw.values())): tr.add('nomdform')
        if is_fstr and inherited_prio: tr.add('nomdform')     # !fstr has no :metadata form either (since the repair of D17h)
        # D17k: an untagged container X whose only keyword is one flag (written as a simple tag, NOT pushed on the dumper's stack)
        # below an ancestor A that pushed the opposite value, above a node with that flag explicitly equal to A's value
        for phi in ('del', 'new', 'safe'):
            v = kw.get(phi)
            if v is None:
                continue
            for j, x in enumerate(anc):
                xkw = {a: b for a, b in (x.get('kw') or {}).items() if b not in (None, [])}
                if tkind(x) in (None, 'plain') and 's' not in x and xkw == {phi: (not v)}:
                    for a in anc[:j]:
                        akw = {p: q for p, q in (a.get('kw') or {}).items() if q not in (None, [])}
                        if akw.get(phi) == v and (len(akw) >= 2 or tkind(a) not in (None, 'plain')):
                            tr.add('shortcut-stack')
        if 's' in n:
            s = n['s']
            txt = s.get('x') if 'x' in s else (sc_py(s.get('l')) if 'l' in s else None)
            tagged = bool(n.get('t')) or inherited_prio
            if tagged and ESCAPED(txt): tr.add('escaped-string')
        if kw.get('del') is not None and kw['del'] == type_default_delete(n):
            tr.add('explicit-default-delete')
        if (kw.get('del') is not None and kw['del'] == type_default_delete(n)) or kw.get('new') is True or kw.get('prio') == 0:
            tr.add('default-flag')
        if kw.get('safe') is not None:
            if kw['safe'] == src_safe: tr.add('safe-equals-source-default')
    walk(doc['raw'], f)
    return tr

# All dumper findings D17a-l are repaired in /repo. One recorded finding remains (D42): the dumper elides a flag that the
# parent implies; a later `!prev` stage moves the node to another parent, where the elided flag is no longer implied
# (model theorem C18_substitution_prev_counterexample). It is attributed only when a later stage of the case holds a !prev.
KEY_OF_CLASS = {'dump-elided-flag-reparented': 'later-prev'}
ID_OF_CLASS = {'dump-elided-flag-reparented': 'D42'}

def has_prev(raw):
    return any((n.get('t') or {}).get('k') == 'prev' for _, n in G.paths_of(raw))

def case_traits(case):
    tr = set(doc_traits(case['doc']))
    if any(has_prev(d['raw']) for d in case.get('seq', [])):
        tr.add('later-prev')
    return tr

NASTY = ['multi\nline', 'back\\slash', "it's", 'say "hi"', 'both \' and "', 'key: value', 'a #comment', ' lead', 'trail ', 'caf\u00e9', '\u2713 ok', 'tab\there',
         '- dash', '? q', '[x', '{y', '*star', '&amp', '!bang', '|pipe', '>gt', '%pct', '@at', '`tick', 'null', 'true', '1.5', '007', '1e3', '~', '', 'x: y\n# z']
NASTY_EVAL = ['T("a: b", \'c #d\')', 'q = "x\\\\y"\nT(q)', "T('it\\'s')", 'T("caf\u00e9")', 'T(a)  # trailing', 'T( "{}: {}".format(1, 2) )']
NASTY_XREF = ['a', 'b.c', 'x[0]']

def spice_strings(rng, raw, p):
    """replace some string scalars and !eval texts by strings that need quoting"""
    def go(n):
        if 's' in n:
            s = n['s']
            k = tkind(n)
            if 'l' in s and isinstance(sc_py(s['l']), str) and k in (None, 'plain') and rng.random() < p and not str(s['l']).startswith("f'"):
                return dict(n, s={'l': rng.choice(NASTY)})
            if 'x' in s and k == 'eval' and rng.random() < p:
                return dict(n, s={'x': rng.choice(NASTY_EVAL)})
            return n
        if 'q' in n:
            return dict(n, q=[go(c) for c in n['q']])
        return dict(n, m=[[k, go(c)] for k, c in n['m']])
    return go(raw)

def first_field(d):
    """the attribute name at which a first_diff text points"""
    return d.split(':', 1)[0].rsplit('.', 1)[-1] if d else ''

class C18(Prop):
    ID = 'C18'
    WORLD = GE.WORLD
    QUICK_N = 220
    THOROUGH_N = 5000
    STYLES = [('flow', 0, 0), ('block', 0, 0), ('flow', 1, 1), ('block', 1, 0)]
    RULE = ('one document over the full tag vocabulary (merge-control tags, metadata, !null and every node kind: gen_full) plus a merge '
            'sequence of 1-2 further documents derived from it; the document is dumped, re-parsed and dumped again, and substituted by '
            'its dump at every position of the sequence and re-parsed from another file name; a fraction of the string scalars and '
            'of the !eval / !xref texts is replaced by strings that need quoting (newline, backslash, both quote kinds, ": ", " #", '
            'non-ASCII). non-trivial = the document has a tag; distinct by SHA-1')
    ASSUMPTIONS = ['YAML text emission / scanning is PyYAML; the model starts at the representation tree',
                   'source_file and idx of re-parsed nodes are not compared',
                   'no failure class is attributed to a recorded finding: the findings D17a-k are repaired, their witnesses are regression cases']

    def corpus(self):
        def D(raw, *seq, **kw):
            return dict({'doc': {'raw': raw}, 'seq': [{'raw': r} for r in seq], 'style': ['flow', 0, 0]}, **kw)
        W = lambda c: dict(c, witness=True)
        return [
            D(M({'a': M({'b': M({'c': S(1)}), 'd': S(2, kw={'prio': -1})}, kw={'prio': 1})}), M({'a': M({'b': M({'c': S(2)})})})),       # D03 witness
            D(M({'a': S(None, kw={'prio': 1}), 'b': Sempty(kw={'del': True})}), M({'a': S(3), 'b': S(4)})),                               # D17b (repaired)
            W(D(M({'c': M({'y': M({'z': S(2)}, kw={'new': False, 'del': True})}, kw={'new': False})}), M({'c': M({'y': M({'z': S(1)})})}), M({'k': Stext('c.y', 'prev')}))),   # D42 (known finding)
            W(D(M({'a': Q([], kw={'del': True})}), M({'a': Q([S(1)])}))),   # D17a  a: !del []
            D(M({'a': Sempty('clear')}), M({'a': M({'x': S(1)})})),   # D17c (repaired: must pass)
            D(M({'a': Sempty('clear', kw={'prio': 1, 'md': [['m', 1]]}), 'b': M({'c': Sempty('clear')}, kw={'prio': -1})}), M({'a': M({'x': S(1)}), 'b': M({'c': Q([S(2)])})})),
            D(M({'a': Q([S('x')], tag={'k': 'path', 'f': ''})})),   # D17d (repaired: must pass)
            D(M({'a': Q([S('x'), S('y', kw={'prio': -1})], tag={'k': 'path', 'f': ''}), 'b': S('z', tag={'k': 'path', 'f': ''})}, kw={'prio': 1})),
            dict(D(M({'a': S(1)})), doc={'raw': M({'p': Q([S('d'), S('f.txt')], tag={'k': 'path', 'f': ''})}), 'src': '/cfg/sub/main.yaml'}),
            W(D(M({'a': Stext('q = 1\nT(q)', 'eval')}))),   # D17e
            D(M({'a': Stext('T("it\'s", \'q"\', "a: b #c", "x\\\\y")', 'eval'), 'b': S('multi\nline: x # y', kw={'prio': 1}), 'c': S('caf\u00e9 \u2713', kw={'del': True}),
               'd': Stext('a.b', 'xref', kw={'prio': -1}), 'e': S("both ' and \"", kw={'md': [['k', 'v\nw']]})})),
            D(M({'a': Q([S(5, kw={'del': False})]), 'b': Q([Q([S(1, kw={'del': False, 'prio': -1})])])}), M({'a': Q([S(7)])})),   # explicit !merge on a scalar below a list (repaired f90f73c: must pass)
            D(M({'x': M({'f': M({'b': M({'c': S(1)}, kw={'del': False})}, tag={'k': 'call', 'f': 'rec.f'})}, kw={'del': False})})),   # explicit !merge below a function node below !merge (repaired f90f73c: must pass)
            W(dict(D(M({'a': S(5, kw={'safe': False})})), doc={'raw': M({'a': S(5, kw={'safe': False})}), 'safe': False})),                  # D17f
            W(D(M({'x': M({'a': M({'p': S(1)}, kw={'del': False})}, kw={'del': True})}), M({'x': M({'a': M({'q': S(2)})})}))),             # D17g default under parent
            D(M({'a': Stext("f'{b}'", 'fstr'), 'b': S(1)})),                                                                               # D17h (repaired: must pass)
            D(M({'a': Stext("f'{b}'", 'fstr'), 'b': S(1)}, kw={'prio': 1})),                                                               # D17i: !fstr:<hex> has no constructor
            W(D(M({'b': Q([S(5, kw={'del': True})], kw={'del': False})}, kw={'del': True, 'prio': 1}), M({'b': M({0: S(6)})}))),           # D17k  shortcut tag not on the stack
            D(M({'a': Q([S(1)], tag='append')}, kw={'prio': 1}), M({'a': Q([S(0)])})),                                                     # D17i
            dict(D(M({'a': S(5)})), doc={'raw': M({'a': S(5, kw={'safe': True})}), 'safe': False}),                                       # D17j  !safe (repaired: must pass)
            dict(D(M({'a': S(5)})), doc={'raw': M({'a': M({'b': S(1), 'c': Q([S(2, kw={'safe': False})])}, kw={'safe': True})}), 'safe': False}),
            dict(D(M({'a': S(1)})), doc={'raw': M({'p': Q([S('d')], tag={'k': 'path', 'f': 'parent(1)'}), 'q': Q([S('e'), S('f.txt')], tag={'k': 'path', 'f': 'parent'}),
                                                    'r': Q([S('g')], tag={'k': 'path', 'f': 'file'}), 's': Q([], tag={'k': 'path', 'f': 'parent(2)'})}), 'src': '/cfg/sub/main.yaml'}),
        ]

    def gen_cases(self, rng, n, tier):
        out = []
        for _ in range(n):
            doc = GF.gen_full_doc(rng, depth=3, p_tag=0.35, p_extra=0.2, allow_premerge=True, allow_include=False)
            if rng.random() < 0.7:
                doc.pop('src', None)
            if rng.random() < 0.35:
                doc = dict(doc, raw=spice_strings(rng, doc['raw'], 0.3))
            seq = []
            for _ in range(rng.choice([1, 1, 2])):
                base = doc['raw']
                seq.append({'raw': G.gen_override(rng, G.MERGECTL if rng.random() < 0.7 else G.PLAIN, base, 2, 0.3)})
            if rng.random() < 0.1:
                # a later stage that MOVES a sub-tree of the document (`k: !prev path`): what the dump elided as implied by the parent
                # must still hold under the new parent (recorded finding D42)
                ps = [p for p, _ in G.paths_of(doc['raw']) if p and all(isinstance(k, str) and k.isidentifier() for k in p)]
                if ps:
                    seq.append({'raw': M({'moved': Stext('.'.join(rng.choice(ps)), 'prev')})})
            st = self.STYLES[rng.randrange(len(self.STYLES))] if rng.random() < 0.3 else self.STYLES[0]
            if rng.random() < 0.12 and 'm' in doc['raw']:
                # file-relative !path nodes in a document that knows its file: the dump must keep denoting the same location
                doc = dict(doc, src=rng.choice(['/cfg/main.yaml', '/cfg/sub/deep/x.yaml', 'rel/dir/x.yaml']))
                doc['raw'] = dict(doc['raw'], m=doc['raw']['m'] + [['pp' + str(i), Q([S(c) for c in rng.sample(['d', 'e', 'f.txt'], rng.choice([0, 1, 2]))],
                                   tag={'k': 'path', 'f': rng.choice(['parent(1)', 'parent(2)', 'parent', 'file', 'parent(0)'])})] for i in range(rng.choice([1, 2]))])
            out.append({'doc': doc, 'seq': seq, 'style': list(st)})
        # targeted family: a function node that states its delete mode explicitly below a container that hands the same mode down
        # (a !merge mapping / list / function node): what the parent implies must still reach the re-parsed node, whose constructor
        # would otherwise default to delete=True (seeded change S6-C18); a later stage restates the node so that replace-vs-merge shows
        for i in range(max(3, n // 12)):
            fkw = rng.choice([{'del': False}, {'del': False}, {'del': True}, {}, {'del': False, 'prio': 1}])
            fn = M([(a, S(rng.randrange(9))) for a in rng.sample(['a', 'b', 'p'], rng.choice([1, 2]))], tag={'k': rng.choice(['call', 'bind']), 'f': 'rec.f'}, kw=fkw)
            pkw = rng.choice([{'del': False}, {'del': False}, {'del': True}, {}])
            r = rng.random()
            if r < 0.45:
                parent, path = M([('f', fn), ('z', S(1))], kw=pkw), ['k', 'f']
            elif r < 0.7:
                parent, path = Q([fn, S(1)], kw=pkw), ['k', 0]
            else:
                parent, path = M([('f', fn)], tag={'k': 'call', 'f': 'rec.g'}, kw=pkw), ['k', 'f']
            doc = {'raw': M([('k', parent)])}
            later = M([(a, S(rng.randrange(9))) for a in rng.sample(['a', 'b', 'q'], rng.choice([1, 2]))], tag={'k': 'call', 'f': 'rec.f'})
            out[(5 * i + 1) % len(out)] = {'doc': doc, 'seq': [{'raw': M([('k', G.nest(path[1:], later) if path[1:] else later)])}] if rng.random() < 0.8 else [], 'style': ['flow', 0, 0]}
        # a TAGGED node placed under two keys by an anchor / alias (one node object at two places), and a later stage that merges into
        # one of the places: the dump has to keep the two places one node (seeded change S8-C18: the dumper wrote the second occurrence
        # out in full). Node sharing is outside the model: oracle only.
        for i in range(max(3, n // 15)):
            body = rng.choice([lambda: M([('lr', S(1)), ('wd', S(5))], kw={'del': False}), lambda: Q([S(1), S(2), S(3)], kw={'del': False}),
                               lambda: M([('lr', S(1))], kw={'prio': -1}), lambda: M([('a', S(1))], tag={'k': 'bind', 'f': 'rec.f'}, kw={'del': False})])()
            a, b = rng.sample(['train', 'eval', 'test'], 2)
            items = [(a, dict(body, anchor='o')), (b, {'alias': 'o'}), ('k', S(1))]
            if rng.random() < 0.4:
                items[1] = (b, M([('opts', {'alias': 'o'})]))
            tgt = rng.choice([a, b])
            patch = M([(1, S(99))]) if 'q' in body else M([(rng.choice(['lr', 'a', 'new']), S(9))])
            if tgt == b and 'm' in items[1][1]:
                patch = M([('opts', patch)])
            out.append({'doc': {'raw': M(items)}, 'seq': [{'raw': M([(tgt, patch)])}], 'style': ['flow', 0, 0], 'shared': True})
        return out

    # ------------------------------------------------------------------ implementation
    def impl(self, case):
        st = case.get('style', ['flow', 0, 0])
        doc = case['doc']
        text = render_doc(doc['raw'], *st)
        obs = {'text': text}
        try:
            t = parse_text(text, doc)
        except Exception as e:  # noqa
            return {'parse_err': classify_error(e)}
        if t is None:
            return {'parse_err': {'err': 'empty'}}
        obs['t'] = dump_node(t)
        try:
            d1 = ayyaml.dump(t)
        except Exception as e:  # noqa
            obs['dump_err'] = f'{type(e).__name__}: {e}'[:200]
            return obs
        obs['d1'] = d1
        try:
            t2 = parse_text(d1, doc)
            obs['t2'] = dump_node(t2)
        except Exception as e:  # noqa
            obs['reparse_err'] = f'{type(e).__name__}: {str(e)[:160]}'
            return obs
        if doc.get('safe') is False:
            # explicit !unsafe marks must survive the dump whatever flag the dump is loaded with
            try:
                t3 = dump_node(parse_text(d1, {k: v for k, v in doc.items() if k != 'safe'}))
                lost = []
                def marks(a, b, path):
                    if a['f']['safe'] is False and b['f']['eSafe']:
                        lost.append(path)
                    for (k, x), (_, y) in zip(a.get('c', []), b.get('c', [])):
                        marks(x, y, path + [k])
                if first_diff(mask_flags(obs['t']), mask_flags(t3)) is None:
                    marks(obs['t'], t3, [])
                obs['unsafe_marks_lost'] = lost
            except Exception:  # noqa
                pass
        try:
            obs['d2'] = ayyaml.dump(t2)
        except Exception as e:  # noqa
            obs['dump2_err'] = f'{type(e).__name__}: {e}'[:200]
        seq = [(render_doc(d['raw'], *st), d) for d in case.get('seq', [])]
        subs = []
        for pos in range(len(seq) + 1):
            a = build_texts(seq[:pos] + [(text, doc)] + seq[pos:], self.WORLD)
            b = build_texts(seq[:pos] + [(d1, doc)] + seq[pos:], self.WORLD)
            subs.append({'pos': pos, 'orig': a, 'dumped': b})
        obs['subs'] = subs
        if doc.get('src') and '"path"' in json.dumps(doc['raw']):
            # a dump is a snapshot that may be stored anywhere: parsed from another location it must denote the same paths
            a = build_texts([(text, doc)], self.WORLD)
            b = build_texts([(d1, dict(doc, src='/elsewhere/snap/dump.yaml'))], self.WORLD)
            def paths(v, out):
                if isinstance(v, dict):
                    if 'path' in v: out.append(v['path'])
                    for x in v.values(): paths(x, out)
                elif isinstance(v, list):
                    for x in v: paths(x, out)
                return out
            obs['moved'] = [paths(a, []), paths(b, [])]
        return obs

    # ------------------------------------------------------------------ model
    def model_requests(self, case):
        return [] if case.get('shared') else [{'op': 'c18', 'docs': [case['doc']]}]

    def model_obs(self, case, answers):
        return {'shared': True} if case.get('shared') else answers[0]

    def compare_model(self, case, io, mo):
        if 'bad' in mo:
            return 'driver rejected the request: ' + str(mo['bad'])
        if mo.get('err') == 'unsupported':
            return 'SKIP'
        if 'parse_err' in io or 'err' in mo:
            i = io.get('parse_err', {'ok': '...'})
            m = canon_model_answer(mo) if 'err' in mo else {'ok': '...'}
            return first_diff(i, m)
        m = mo['ok'][0]
        d = first_diff(io['t'], m['tree'])
        if d:
            return 'parsed tree: ' + d
        if 'dump_err' in io:
            return 'implementation: dump raises ' + io['dump_err'] + ', model: it does not'
        if 'reparse_err' in io:
            return 'implementation: the dump is not re-parseable (' + io['reparse_err'][:80] + '), model: it is'
        if 'err' in m.get('tree2', {}):
            return 'model: re-parse fails with ' + json.dumps(m['tree2']) + ', implementation re-parsed'
        ign = lambda x: mask_src(x)
        d = first_diff(ign(io['t2']), ign(m['tree2']))
        if d:
            return 're-parsed tree: ' + d
        if 'd2' in io and 'dump2' in m:
            fix_m = m['dump'] == m['dump2']
            fix_i = io['d1'] == io['d2']
            if fix_m != fix_i:
                return f'dump fixpoint: model {fix_m}, implementation {fix_i}'
        return None

    def compare(self, case, io, mo):
        if case.get('shared'):
            return 'SKIP'
        d = self.compare_model(case, io, mo)
        if d and d != 'SKIP':
            return d
        fs, unknown = self.split_failures(case, io)
        if fs and not unknown and not case.get('witness'):
            return 'KNOWN:' + ID_OF_CLASS[fs[0][0]]
        return d

    # ------------------------------------------------------------------ oracle (implementation alone)
    def failures(self, case, io):
        """all failures of the property on this case: [(class, text)]"""
        out = []
        if 'parse_err' in io:
            return out
        if 'dump_err' in io:
            cls = 'dump-clear-crash' if 'ClearNode' in io['dump_err'] else 'dump-crash'
            return [(cls, 'yaml.dump raises ' + io['dump_err'])]
        tr = doc_traits(case['doc'])
        if 'reparse_err' in io:
            e = io['reparse_err']
            if "'!safe'" in e: cls = 'dump-safe-tag'
            elif 'could not determine a constructor for the tag' in e and any(('!' + k + ':') in e for k in ('append', 'prev', 'import', 'include', 'fstr')): cls = 'dump-kind-without-metadata-form'
            elif "'!path" in e: cls = 'dump-path-noref'
            elif 'escaped-string' in tr: cls = 'dump-multiline-eval'
            else: cls = 'reparse-error'
            return [(cls, 'the dumped text cannot be parsed: ' + e + ' | dump: ' + io['d1'][:200])]
        if 'dump2_err' in io:
            out.append(('dump-crash', 'dumping the re-parsed tree raises ' + io['dump2_err']))
        elif io['d1'] != io['d2']:
            cls = 'dump-multiline-eval' if 'escaped-string' in tr else 'dump-not-fixpoint'
            out.append((cls, f"second dump differs: {io['d1'][:150]!r} vs {io['d2'][:150]!r}"))
        d = first_diff(eff(io['t']), eff(io['t2']))
        if d:
            out.append((self.classify_tree_diff(d, tr, eff(io['t']), eff(io['t2'])), 're-parsed tree differs: ' + d))
        if io.get('unsafe_marks_lost'):
            out.append(('dump-safe-elided', f"explicit !unsafe marks are missing from the dump (loaded as a safe source the nodes at {io['unsafe_marks_lost'][:3]} are safe): {io['d1'][:150]!r}"))
        mv = io.get('moved')
        if mv and mv[0] != mv[1] and len(mv[0]) == len(mv[1]):
            out.append(('dump-path-location', f'the dump parsed from another location denotes other paths: {mv[0][:3]} vs {mv[1][:3]}'))
        for s in io.get('subs', []):
            a, b = no_addr(s['orig']), no_addr(s['dumped'])
            d = first_diff(a, b)
            if d:
                fld = first_field(d)
                if 'escaped-string' in tr: cls = 'dump-multiline-eval'
                elif fld in ('eSafe',) or (('safe-equals-source-default' in tr) and 'unsafe' in d): cls = 'dump-safe-elided'
                elif 'explicit-default-delete' in tr and not any(c == 'dump-default-under-parent' for c, _ in out): cls = 'dump-explicit-default-delete'
                elif 'default-flag' in tr: cls = 'dump-default-under-parent'
                elif 'shortcut-stack' in tr: cls = 'dump-shortcut-tag-not-on-stack'
                elif 'safe-equals-source-default' in tr: cls = 'dump-safe-elided'
                else: cls = 'substitution-differs'
                if any(has_prev(x['raw']) for x in case.get('seq', [])[s['pos']:]):
                    cls = 'dump-elided-flag-reparented'       # a !prev stage AFTER the substituted document
                out.append((cls, f"substituting the dump at position {s['pos']} of the merge sequence changes the result: {d}"))
                break
        return out

    def classify_tree_diff(self, d, tr, a, b):
        fld = first_field(d)
        if fld == 'k' and a != b and '"fstr"' in json.dumps(a) and '"fstr"' not in json.dumps(b): return 'dump-fstr-as-eval'
        if fld == 'v' and 'escaped-string' in tr: return 'dump-multiline-eval'
        if fld == 'eSafe' and 'safe-equals-source-default' in tr: return 'dump-safe-elided'
        return 'reparsed-tree-differs'

    def split_failures(self, case, io):
        fs = self.failures(case, io) if isinstance(io, dict) else []
        tr = case_traits(case)
        unknown = [f for f in fs if not (f[0] in KEY_OF_CLASS and KEY_OF_CLASS[f[0]] in tr)]
        return fs, unknown

    def oracle(self, case, io, ans):
        """any failure outside the recorded classes is a violation. A failure inside a recorded class is reported as a
        violation (and then shrunk and matched by finding_key) for the witness cases of the corpus and whenever the case
        is being shrunk/replayed; for the random stream it goes through the KNOWN: channel of `compare`, because the
        framework triages only the first few violations of a run and new ones must not queue behind known ones."""
        fs, unknown = self.split_failures(case, io)
        if unknown:
            return f'{unknown[0][0]}: {unknown[0][1]}'
        if fs and case.get('witness'):
            return f'{fs[0][0]}: {fs[0][1]}'
        return None

    def finding_key(self, case, desc):
        if not desc:
            return None
        cls = desc.split(':', 1)[0]
        trait = KEY_OF_CLASS.get(cls)
        if trait and trait in case_traits(case):
            return cls
        return None

    # ------------------------------------------------------------------ bookkeeping
    def shrink(self, case):
        if case.get('seq'):
            for i in range(len(case['seq'])):
                yield dict(case, seq=case['seq'][:i] + case['seq'][i + 1:])
        for d in shrink_docs([case['doc']]):
            if d:
                yield dict(case, doc=d[0])
        for i, s in enumerate(case.get('seq', [])):
            for d in shrink_docs([s]):
                if d:
                    yield dict(case, seq=case['seq'][:i] + [d[0]] + case['seq'][i + 1:])

    def render(self, case):
        st = case.get('style', ['flow', 0, 0])
        out = []
        for tag, d in [('doc', case['doc'])] + [('seq', s) for s in case.get('seq', [])]:
            try:
                out.append(f'{tag}: ' + ('[safe=False] ' if d.get('safe') is False else '') + render_doc(d['raw'], *st).rstrip())
            except Exception as e:
                out.append(f'<unrenderable: {e}>')
        return out

    def features(self, case, io):
        f = doc_features([case['doc']]) + ['trait:' + t for t in sorted(doc_traits(case['doc']))]
        if isinstance(io, dict):
            for k in ('parse_err', 'dump_err', 'reparse_err', 'dump2_err'):
                if k in io: f.append('outcome:' + k)
            if 'd2' in io: f.append('outcome:roundtrip')
            for s in io.get('subs', []):
                cfg = s['orig'].get('cfg', {})
                f.append('subst-eval:' + str(cfg.get('err', 'ok') if cfg else s['orig'].get('err')))
        return f

    def nontrivial(self, case, io):
        return '"t"' in json.dumps(case['doc']['raw'])

_ADDR = re.compile(r' at 0x[0-9a-fA-F]+')
def no_addr(v):
    """evaluated strings may embed the repr of a node (f-strings over containers): drop the memory address"""
    return json.loads(_ADDR.sub(' at 0x', json.dumps(v)))

def mask_flags(d):
    """kinds, content and keys only"""
    if isinstance(d, list):
        return [mask_flags(x) for x in d]
    if isinstance(d, dict):
        return {k: mask_flags(v) for k, v in d.items() if k != 'f'}
    return d

def mask_src(d):
    if isinstance(d, list):
        return [mask_src(x) for x in d]
    if isinstance(d, dict):
        return {k: mask_src(v) for k, v in d.items() if k != 'src'}
    return d

PROP = C18()
