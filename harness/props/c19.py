"""C19 — deepcopy and pickle reproduce any node tree, independent of the original.

Implementation observable: the full internal state (`dump_node`) of the original tree, of
`copy.deepcopy(original)` and of `pickle.loads(pickle.dumps(original))`, plus identity facts (object ids of all
node objects), the effect of mutating a copy on the original, the result of merging one more document into
original / copy / pickle-copy, and the result of evaluating the three trees directly with an EvalContext
(`Config` deep-copies before evaluating, which would hide a difference between a tree and its copy).
Model observable: `reconstructCopy (reduceNode t)` and `reconstructPickle (reduceNode t)` of the model's tree.
Oracle: implementation alone."""
import copy, pickle, json, random as _random
from framework import Prop
from common import *
from evalrun import WorldImpl, conv_val, renumber, build_root
from awesomeyaml.eval_context import EvalContext
from props.mergefam import doc_features, shrink_docs
import gen_merge as G
import gen_eval as GE
import gen_full as GF

SAFE_FIELDS = ('iSafe', 'eSafe')
INHERITED_FIELDS = ('iSafe', 'eSafe', 'iDel', 'eDel', 'iNew', 'eNew')

def mask(d, fields):
    """dump without the given flag fields (the known-finding classes D27 / D27b differ only in inherited flags)"""
    if isinstance(d, list):
        return [mask(x, fields) for x in d]
    if isinstance(d, dict):
        return {k: mask(v, fields) for k, v in d.items() if k not in fields}
    return d

def all_nodes(t):
    """every node object of a tree, mapping keys included when they are nodes"""
    out = [t]
    if isinstance(t, ComposedNode):
        for k, c in t._children.items():
            if isinstance(k, ConfigNode):
                out.append(k)
            out += all_nodes(c)
    return out

def mutate(rng, t):
    """in-place changes of a tree through its public mutators and raw attributes; returns a description"""
    nodes = [n for n in all_nodes(t)]
    comps = [n for n in nodes if isinstance(n, ComposedNode)]
    done = []
    n = rng.choice(nodes)
    n._priority = 1 if n._priority != 1 else -1; done.append('priority')
    n = rng.choice(nodes)
    n._metadata['__mutated__'] = 1; done.append('metadata')
    n = rng.choice(nodes)
    n._safe = False; n._delete = not bool(n._delete); done.append('flags')
    if comps:
        c = rng.choice(comps)
        try:
            if isinstance(c, dict):
                c['zz_mut'] = 12345
            else:
                c.append(12345)
            done.append('set_child')
        except Exception as e:  # noqa
            done.append('set_child failed: ' + type(e).__name__)
        c = rng.choice(comps)
        if len(c._children):
            try:
                if isinstance(c, dict):
                    del c[next(iter(dict.keys(c)))]
                else:
                    del c[0]
                done.append('del_child')
            except Exception as e:  # noqa
                done.append('del_child failed: ' + type(e).__name__)
    return done

def parse_stage(doc, st):
    b = Builder()
    b.add_source(render_doc(doc['raw'], *st), raw_yaml=True, filename=doc.get('src'), safe=doc.get('safe'))
    b.preprocess()
    return b.stages[0] if b.stages else None

def merge_into(tree, doc, st):
    try:
        stage = parse_stage(doc, st)
        if stage is None:
            return {'ok': dump_node(tree)}
        return {'ok': dump_node(tree.ayns.merge(stage))}
    except RecursionError:
        return {'err': 'recursion'}
    except Exception as e:  # noqa
        return classify_error(e)

def eval_tree(tree, world):
    with WorldImpl(world) as w:
        try:
            Config.check_missing(tree)
            v = EvalContext(eval_symbols=w.syms).evaluate(tree)
            return {'ok': renumber(conv_val(v, w, {})), 'log': list(w.log)}
        except RecursionError:
            return {'err': 'recursion', 'log': list(w.log)}
        except Exception as e:  # noqa
            r = classify_error(e); r['log'] = list(w.log); return r

_dump_node = dump_node
def dump_node(n):
    """common.dump_node normalised to plain JSON types (file names of !include are str-subclass nodes)"""
    return json.loads(json.dumps(_dump_node(n)))

def post_eval(tree, obs):
    """a tree that has been evaluated IN PLACE (EvalContext.evaluate(tree)) is still 'any node tree': it must copy and pickle
    like before (seeded change S5-C19: compiled code cached on the node)"""
    now = dump_node(tree)
    for which, f in (('copy', copy.deepcopy), ('pickle', lambda t: pickle.loads(pickle.dumps(t)))):
        try:
            d = first_diff(now, dump_node(f(tree)))
            if d:
                obs['post_eval'] = f'{which} of the tree after it was evaluated in place differs from it: {d}'
        except Exception as e:  # noqa
            obs['post_eval'] = f'{which} of the tree after it was evaluated in place raises {type(e).__name__}: {str(e)[:80]}'

def observe(tree, rng, st, next_doc, world, evaluate):
    """everything the oracle needs about one tree"""
    o = dump_node(tree)
    c = copy.deepcopy(tree)
    p = pickle.loads(pickle.dumps(tree))
    obs = {'orig': o, 'copy': dump_node(c), 'pickle': dump_node(p)}
    ids_o = {id(n) for n in all_nodes(tree)}
    obs['shared_copy'] = len(ids_o & {id(n) for n in all_nodes(c)})
    obs['shared_pickle'] = len(ids_o & {id(n) for n in all_nodes(p)})
    obs['shared_meta'] = sum(1 for a, b in zip(all_nodes(tree), all_nodes(c)) if a._metadata is b._metadata)
    # mutate one, compare the other (fresh copies so that the trees used below stay intact)
    c2 = copy.deepcopy(tree); p2 = pickle.loads(pickle.dumps(tree))
    obs['mut_copy'] = mutate(rng, c2)
    obs['orig_after_mut_copy'] = first_diff(o, dump_node(tree))
    obs['mut_pickle'] = mutate(rng, p2)
    obs['orig_after_mut_pickle'] = first_diff(o, dump_node(tree))
    obs['copy_after_mut_pickle'] = first_diff(obs['copy'], dump_node(c))
    if next_doc is not None:
        # fresh copies for the merge (merging mutates its left operand); t3 is a copy of a copy.
        # The original itself is merged last of all (see below); `keep` restores it should evaluation have changed it.
        c3 = copy.deepcopy(tree); p3 = pickle.loads(pickle.dumps(tree)); t3 = copy.deepcopy(c3)
        keep = pickle.dumps(tree)
        obs['merge_copy'] = merge_into(c3, next_doc, st)
        obs['merge_pickle'] = merge_into(p3, next_doc, st)
        obs['merge_copy2'] = merge_into(t3, next_doc, st)
    if evaluate:
        obs['eval_copy'] = eval_tree(c, world)
        obs['eval_pickle'] = eval_tree(p, world)
    if next_doc is not None:
        # the original is consumed last (merge mutates it); evaluation of the original happens on `tree` before that
        if evaluate:
            obs['eval_orig'] = eval_tree(tree, world)
            post_eval(tree, obs)
            tree = pickle.loads(keep) if first_diff(o, dump_node(tree)) else tree
        obs['merge_orig'] = merge_into(tree, next_doc, st)
    elif evaluate:
        obs['eval_orig'] = eval_tree(tree, world)
        post_eval(tree, obs)
    return obs

def plain_of_raw(n):
    """python data of a Raw tree (tags dropped): what a user would hand to ConfigNode(...)"""
    if 's' in n:
        s_ = n['s']
        return None if 'e' in s_ else (s_['x'] if 'x' in s_ else sc_py(s_['l']))
    if 'q' in n:
        return [plain_of_raw(c) for c in n['q']]
    return {sc_py(k): plain_of_raw(c) for k, c in n['m']}

def has_unsafe(docs):
    return any(d.get('safe') is False for d in docs) or '"safe": false' in json.dumps([d['raw'] for d in docs])

def has_promotable(docs):
    """some node of a class that `_maybe_promote` can promote (function node, !path, !append, !extend)"""
    txt = json.dumps([d['raw'] for d in docs])
    return any(f'"k": "{k}"' in txt for k in ('call', 'bind', 'callName', 'bindName', 'path', 'append', 'extend'))

def fresh_data(v, ctr=None):
    """plain data for the API family with every leaf a value of its own (a fresh object): the container constructors give ONE node to
    one python object (by design), and small ints / literal strings / True / False are shared objects (None is exempt in the library)"""
    ctr = [0] if ctr is None else ctr
    if isinstance(v, dict): return {k: fresh_data(x, ctr) for k, x in v.items()}
    if isinstance(v, list): return [fresh_data(x, ctr) for x in v]
    ctr[0] += 1
    if ctr[0] % 7 == 3: return None
    if ctr[0] % 7 == 5: return 1000.5 + ctr[0]
    return ('v%d' % ctr[0]) if ctr[0] % 2 else 1000 + ctr[0]

def plain_json(v):
    """python data -> the protocol form of op fromPy (the shape the driver's plainJ writes)"""
    if isinstance(v, dict): return {'d': [[sc_json(k), plain_json(x)] for k, x in v.items()]}
    if isinstance(v, list): return {'l': [plain_json(x) for x in v]}
    return sc_json(v)

API_KW = {'prio': 'priority', 'del': 'delete', 'new': 'allow_new', 'safe': 'safe', 'md': 'metadata', 'src': 'source_file',
          'iDel': 'implicit_delete', 'iNew': 'implicit_allow_new', 'iSafe': 'implicit_safe'}

def gen_api_kw(r):
    """random keyword arguments among those ConfigNode.__init__ accepts (protocol names), and the two thread-local defaults"""
    kw = {}
    if r.random() < 0.5: kw['prio'] = r.choice([-1, 0, 1, 1, None] + ([5] if r.random() < 0.15 else []))
    for k in ('del', 'new', 'safe'):
        if r.random() < 0.45: kw[k] = r.choice([True, False, None])
    if r.random() < 0.3: kw['md'] = r.choice([[], [['m', 1]], [['a', 'x'], ['b', {'f': '2.5'}], ['c', None]]])
    if r.random() < 0.3: kw['src'] = r.choice(['api.yaml', None])
    for k in ('iDel', 'iNew', 'iSafe'):
        if r.random() < 0.2: kw[k] = r.choice([True, False, None])
    env = {'safe': r.choice([None, None, True, False]), 'src': r.choice([None, None, 'dflt.yaml'])}
    return kw, env

class C19(Prop):
    ID = 'C19'
    WORLD = GE.WORLD
    QUICK_N = 260
    THOROUGH_N = 6000
    STYLES = [('flow', 0, 0), ('block', 0, 0), ('flow', 1, 1), ('block', 1, 0)]
    RULE = ('three streams: (merge) sequences of 1-4 documents over the full merge vocabulary (gen_merge.FULLMERGE) or with dynamic '
            'nodes (gen_eval), built with Builder and the merged tree copied; (prefix) the same with the last document held back and '
            'merged into original / deepcopy / pickle copy; (parse) single documents over the whole tag vocabulary incl. !prev !fstr '
            '!path !include !null, copied unmerged; (api) plain data handed to ConfigNode(data, **kwargs) in a fresh thread with random keywords / '
            'thread-local defaults, compared with the model\'s fromPy and copied. non-trivial = the tree has at least one composed node below the root; distinct by SHA-1')
    ASSUMPTIONS = ['object identity (the copy shares no node) is checked on the implementation only; the Lean model is a value model',
                   'copy / pickle protocol order is CPython behaviour (traced: state-then-items for deepcopy, items-then-state for pickle)',
                   'a copy that differs from its original only in inherited safety after a merge with !unsafe content is attributed to finding D27']

    def corpus(self):
        D = lambda mode, *raws, **kw: dict({'docs': [{'raw': r} for r in raws], 'style': ['flow', 0, 0], 'mode': mode, 'vseed': 7}, **kw)
        return [
            # D13 witness of the design phase (repaired): deepcopy of a: !merge [[1], {x: [2]}]
            D('merge', M({'a': Q([Q([S(1)]), M({'x': Q([S(2)])})], kw={'del': False}),
                          'b': M({'c': M({'z': S(1)}, tag={'k': 'call', 'f': 'rec.f'})}, kw={'safe': False})})),
            # D02 witness (repaired): underscore keys survive the copy
            D('merge', M({'_w': S(3), 'a': M({'_u': S(1), 'v': S(2)})})),
            # finding D27: a: !force {x: 1} <- a: !unsafe {}
            D('merge', M({'a': M({'x': S(1)}, kw={'prio': 1})}), M({'a': M([], kw={'safe': False})}), witness=True),
            D('prefix', M({'a': M({'x': M({'z': S(1)}, tag={'k': 'call', 'f': 'rec.f'})}, kw={'prio': 1})}), M({'a': M([], kw={'safe': False})}),
              M({'b': S(2)}), witness=True),
            # finding D27b: _u: !call:rec.f{{'delete': False}} {} <- _u: ["hello world"]  (promotion of the function node)
            D('merge', M({'_u': M([], tag={'k': 'call', 'f': 'rec.f'}, kw={'del': False})}), M({'_u': Q([S('hello world')])}), witness=True),
            # the programmatic path: ConfigNode(data, **kw) against `fromPy` (every keyword; a thread with and without defaults)
            D('api', M({'a': Q([S(1), M({'b': S(2)})]), 'c': S(3), 'e': M([]), 'l': Q([])}), parse_between=True, env={'safe': None, 'src': None},
              kw={'prio': 1, 'del': True, 'new': False, 'safe': False, 'md': [['x', 1]], 'src': 'f.yaml', 'iDel': False, 'iNew': True, 'iSafe': True}),
            D('api', Q([S(1), Q([S(2)])]), parse_between=False, kw={'new': False}, env={'safe': True, 'src': 'dflt.yaml'}),
            # containers beyond the batch size of the pickle protocol (list items and dict items travel in batches of 1000) (S8-C19)
            D('merge', M({'big': Q([S(i % 7) for i in range(1203)]), 'wide': M([('k%d' % i, S(i % 5)) for i in range(1100)]), 'z': S(1)})),
            D('api', M({'big': Q([S(1)] * 2050)}), parse_between=False, env={'safe': None, 'src': None}, kw={}),
            D('parse', M({'p': Q([S('d')], tag={'k': 'path', 'f': 'cwd'}), 'i': Stext('inc.yaml', 'include'), 'n': Sempty('null', kw={'prio': 1}),
                          'e': Stext('T(p)', 'eval'), 'x': Stext('p', 'xref'), 'f': Stext("f'{p}'", 'fstr'), 'c': Sempty('clear'),
                          'v': Stext('p', 'prev'), 'q': Q([S(1)], tag='append'), 'r': Sempty('required')})),
        ]

    def gen_cases(self, rng, n, tier):
        out = []
        for i in range(n):
            st = self.STYLES[rng.randrange(len(self.STYLES))] if rng.random() < 0.3 else self.STYLES[0]
            r = rng.random()
            if r < 0.45:
                case = {'docs': GF.gen_full_sequence(rng, 4, 3, 0.35), 'mode': 'merge'}
            elif r < 0.75:
                docs = GF.gen_full_sequence(rng, 3, 3, 0.35)
                nxt = G.gen_override(rng, G.FULLMERGE, docs[-1]['raw'], 2, 0.35) if rng.random() < 0.7 else G.gen_doc(rng, G.FULLMERGE, 2, 0.35)
                case = {'docs': docs + [{'raw': nxt}], 'mode': 'prefix'}
            else:
                case = {'docs': [GF.gen_full_doc(rng)], 'mode': 'parse'}
            case['style'] = list(st)
            case['vseed'] = rng.randrange(1 << 30)
            out.append(case)
        r2 = _random.Random(rng.random())
        for i in range(max(8, n // 8)):          # (api) drawn last: the cases above stay the same for a seed
            out.append({'docs': [{'raw': G.gen_doc(r2, G.PLAIN, 3, 0.0)}], 'mode': 'api', 'style': ['flow', 0, 0], 'vseed': r2.randrange(1 << 30),
                        'parse_between': r2.random() < 0.8})
            if i % 4:                             # every fourth case: ConfigNode(data) with no keyword, in a thread without defaults
                out[-1]['kw'], out[-1]['env'] = gen_api_kw(r2)
        return out

    # ------------------------------------------------------------------ implementation
    def impl(self, case):
        st = case.get('style', ['flow', 0, 0])
        rng = _random.Random(case.get('vseed', 0))
        mode = case['mode']
        docs = case['docs']
        if mode == 'api':
            # the tree is built through the PYTHON API (ConfigNode(data)) in a FRESH thread, where no parse has set the thread-local
            # defaults yet; then something is parsed in that thread (which changes those defaults), then the tree is copied
            # (seeded change S6-C19: a copy re-ran the constructor and picked the defaults of the moment). The model follows this
            # path with `fromPy` (Model/FromPy.lean): keywords case['kw'], thread-local defaults case['env'].
            import threading, contextlib
            kw = {API_KW[k]: ({a: sc_py(b) for a, b in v} if k == 'md' and v is not None else v) for k, v in case.get('kw', {}).items()}
            env = case.get('env', {})
            box = {}
            def work():
                try:
                    from awesomeyaml.nodes.node import ConfigNode as CN
                    data = fresh_data(plain_of_raw(docs[0]['raw']))
                    with contextlib.ExitStack() as es:
                        if env.get('src') is not None: es.enter_context(CN.default_filename(env['src']))
                        if env.get('safe') is not None: es.enter_context(CN.default_safe_flag(env['safe']))
                        tree = CN(data, **kw)
                    if case.get('parse_between', True):
                        Builder().add_source('warm: {up: [1, 2]}', raw_yaml=True)
                    box['ok'] = [observe(tree, rng, st, None, self.WORLD, evaluate=False)]
                except RecursionError:
                    box['err'] = {'err': 'recursion'}
                except Exception as e:  # noqa
                    box['err'] = classify_error(e)
            t = threading.Thread(target=work); t.start(); t.join()
            return box['err'] if 'err' in box else {'ok': box['ok']}
        try:
            if mode == 'parse':
                b = Builder()
                for d in docs:
                    b.add_source(render_doc(d['raw'], *st), raw_yaml=True, filename=d.get('src'), safe=d.get('safe'))
                trees = list(b.stages)
                nxt = None
            else:
                use = docs if mode == 'merge' else docs[:-1]
                nxt = None if mode == 'merge' else docs[-1]
                root = build_root(use, *st)
                trees = [] if root is None else [root]
        except RecursionError:
            return {'err': 'recursion'}
        except Exception as e:  # noqa
            return classify_error(e)
        return {'ok': [observe(t, rng, st, nxt, self.WORLD, evaluate=(mode != 'parse' and isinstance(t, dict))) for t in trees]}

    # ------------------------------------------------------------------ model
    def model_requests(self, case):
        if case['mode'] == 'api':
            env = case.get('env', {})          # a fresh thread: no default file name, default safe flag False
            return [{'op': 'fromPy', 'data': plain_json(fresh_data(plain_of_raw(case['docs'][0]['raw']))), 'kw': case.get('kw', {}),
                     'safe': bool(env.get('safe')), 'src': env.get('src')}]
        docs = case['docs'] if case['mode'] != 'prefix' else case['docs'][:-1]
        return [{'op': 'c19', 'docs': docs, 'mode': 'parse' if case['mode'] == 'parse' else 'merge'}]

    def model_obs(self, case, answers):
        if answers and case['mode'] == 'api' and 'ok' in answers[0]:
            return {'ok': [dict(answers[0], tree=answers[0]['ok'])]}
        return answers[0] if answers else {'err': 'unsupported'}

    def compare_model(self, case, io, mo):
        if 'bad' in mo:
            return 'driver rejected the request: ' + str(mo['bad'])
        if mo.get('err') == 'unsupported':
            return 'SKIP'
        if 'err' in mo or 'err' in io:
            i = {k: v for k, v in io.items() if k != 'ok'} if 'err' in io else {'ok': '...'}
            m = canon_model_answer(mo) if 'err' in mo else {'ok': '...'}
            return first_diff(i, m)
        ms = mo['ok'] if case['mode'] in ('parse', 'api') else ([] if mo['ok'] is None else [mo['ok']])
        if len(ms) != len(io['ok']):
            return f"model has {len(ms)} trees, implementation {len(io['ok'])}"
        for i, (a, m) in enumerate(zip(io['ok'], ms)):
            for which, key in (('orig', 'tree'), ('copy', 'copy'), ('pickle', 'pickle')):
                d = first_diff(a[which], m[key])
                if d:
                    return f'tree {i}, {which}: {d}'
            same_c = first_diff(a['orig'], a['copy']) is None
            if m['wellKeyed'] and same_c != m['consistent']:
                return f"tree {i}: model FlagsConsistent={m['consistent']} but implementation copy==original is {same_c}"
        return None

    # ------------------------------------------------------------------ oracle (implementation alone)
    def failure(self, case, io):
        if not isinstance(io, dict) or 'ok' not in io:
            return None
        for i, a in enumerate(io['ok']):
            pre = f'tree {i}: ' if len(io['ok']) > 1 else ''
            if a.get('orig', {}).get('storage_mismatch'):
                return pre + 'storage-mismatch: builtin storage and child map of the original disagree'
            if a.get('post_eval'):
                return pre + 'copy-after-evaluation: ' + a['post_eval']
            if a['shared_copy']:
                return pre + f"shared-node: deepcopy shares {a['shared_copy']} node object(s) with the original"
            if a['shared_pickle']:
                return pre + f"shared-node: the pickle copy shares {a['shared_pickle']} node object(s) with the original"
            if a['shared_meta']:
                return pre + f"shared-metadata: deepcopy shares {a['shared_meta']} metadata dict(s) with the original"
            for k in ('orig_after_mut_copy', 'orig_after_mut_pickle', 'copy_after_mut_pickle'):
                if a[k]:
                    return pre + f"mutation-leak: {k.replace('_', ' ')} ({a['mut_copy']}/{a['mut_pickle']}): {a[k]}"
            for which in ('copy', 'pickle'):
                d = first_diff(mask(a['orig'], INHERITED_FIELDS), mask(a[which], INHERITED_FIELDS))
                if d:
                    return pre + f'copy-differs: {which} differs from the original: {d}'
            for which in ('copy', 'pickle'):
                d = first_diff(mask(a['orig'], SAFE_FIELDS), mask(a[which], SAFE_FIELDS))
                if d:
                    return pre + f'copy-differs-inherited: {which} differs from the original in inherited merge flags only: {d}'
            for which in ('copy', 'pickle'):
                d = first_diff(a['orig'], a[which])
                if d:
                    return pre + f'copy-differs-safety: {which} differs from the original in inherited safety only: {d}'
            d = first_diff(a['copy'], a['pickle'])
            if d:
                return pre + f'copy-differs: deepcopy and pickle copy differ: {d}'
            if 'merge_orig' in a:
                for which in ('merge_copy', 'merge_pickle', 'merge_copy2'):
                    d = first_diff(a['merge_orig'], a[which])
                    if d:
                        return pre + f'merges-differently: merging the next document into the {which[6:]} differs from merging into the original: {d}'
            if 'eval_orig' in a:
                for which in ('eval_copy', 'eval_pickle'):
                    d = first_diff(a['eval_orig'], a[which])
                    if d:
                        return pre + f'evaluates-differently: the {which[5:]} evaluates differently: {d}'
        return None

    ID_OF_KEY = {'merge-unsafe-not-propagated': 'D27', 'promotion-flags-not-propagated': 'D27b'}

    def oracle(self, case, io, ans):
        """a failure outside the recorded classes is always a violation; a failure inside a recorded class is reported as a
        violation (then shrunk and matched by finding_key) for the witness cases of the corpus, and through the KNOWN: channel of
        `compare` for the random stream (the framework triages only the first few violations of a run)"""
        d = self.failure(case, io)
        if d and self.finding_key(case, d) and not case.get('witness'):
            return None
        return d

    def compare(self, case, io, mo):
        d0 = self.compare_model(case, io, mo)
        if d0 and d0 != 'SKIP':
            return d0
        d = self.failure(case, io)
        key = self.finding_key(case, d) if d else None
        if key and not case.get('witness'):
            return 'KNOWN:' + self.ID_OF_KEY[key]
        return d0

    def finding_key(self, case, desc):
        merged = case['mode'] != 'parse' and len(case['docs']) - (1 if case['mode'] == 'prefix' else 0) >= 2
        if desc and 'copy-differs-safety:' in desc and merged and has_unsafe(case['docs']):
            return 'merge-unsafe-not-propagated'
        if desc and 'copy-differs-inherited:' in desc and merged and has_promotable(case['docs']):
            return 'promotion-flags-not-propagated'
        return None

    # ------------------------------------------------------------------ bookkeeping
    def shrink(self, case):
        docs = case['docs']
        if case['mode'] == 'prefix':
            for d in shrink_docs(docs[:-1]):
                if d:
                    yield dict(case, docs=d + [docs[-1]])
            yield dict(case, docs=docs[:-1], mode='merge')
        else:
            for d in shrink_docs(docs):
                if d:
                    yield dict(case, docs=d)

    def render(self, case):
        st = case.get('style', ['flow', 0, 0])
        out = [f"mode={case['mode']}" + (f" kw={case.get('kw')} env={case.get('env')}" if case['mode'] == 'api' else '')]
        for d in case['docs']:
            try:
                out.append(('[safe=False] ' if d.get('safe') is False else '') + render_doc(d['raw'], *st).rstrip())
            except Exception as e:
                out.append(f'<unrenderable: {e}>')
        return out

    def features(self, case, io):
        f = doc_features(case['docs']) + ['mode:' + case['mode']]
        if isinstance(io, dict) and 'ok' in io:
            f.append('result:ok')
            for a in io['ok']:
                if 'eval_orig' in a: f.append('eval:' + str(a['eval_orig'].get('err', 'ok')))
                if 'merge_orig' in a: f.append('next-merge:' + str(a['merge_orig'].get('err', 'ok')))
                kinds = set()
                def walk(n):
                    kinds.add('kind:' + n['k'])
                    for _, c in n.get('c', []): walk(c)
                walk(a['orig'])
                f += sorted(kinds)
        else:
            f.append('result:' + str(io.get('err')) if isinstance(io, dict) else '?')
        return f

    def nontrivial(self, case, io):
        return isinstance(io, dict) and 'ok' in io and any(any('c' in c for _, c in a['orig'].get('c', [])) for a in io['ok'])

PROP = C19()
