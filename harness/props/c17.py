"""C17 — node containers stay consistent under any sequence of API operations.

A case is an initial tree, the path of the container that is operated on, a sequence of public
operations with their arguments, a few path lists and a few path strings.  The implementation
observable is, after every operation: the builtin storage (dict items / list items) and
`named_children()` as (key, identity class, value class, is-node), the returned node or the
exception class, the plain instance attributes, and the order in which the container evaluates.
The model observable is the same thing computed by `AY.Container.trace` (driver op "c17").
The oracle looks at the implementation alone: the two views, the evaluation order, and (refinement) the
builtin storage and the outcome of every operation against the plain `list` / `dict` specification
`AY.Builtin.specTrace` (driver op "c17spec"); a real `list` / `dict` run validates that specification."""
import json
from common import *          # first: puts /repo's working tree on sys.path and checks the import
from framework import Prop
from awesomeyaml.eval_context import EvalContext

# ------------------------------------------------------------------------------------------------
# values.  vtree = {'s': int|str} | {'l': [vtree…]} | {'d': [[key, vtree]…]}, optionally with 'id':
# the identity of the Python object handed to the API (equal ids in the initial tree = one object).
# ------------------------------------------------------------------------------------------------

def canon(v):
    """`==`-class of the plain value of a vtree"""
    if 's' in v:
        return ('i' if isinstance(v['s'], int) else 's', v['s'])
    if 'l' in v:
        return ('l', tuple(canon(c) for c in v['l']))
    d = {}
    for k, c in v['d']:
        d[(type(k).__name__, k)] = canon(c)
    return ('d', frozenset(d.items()))

def canon_obj(o):
    """the same class computed from a real object (node or plain), through the storage view"""
    if isinstance(o, dict):
        return ('d', frozenset(((type(k).__name__, k), canon_obj(c)) for k, c in dict.items(o)))
    if isinstance(o, (list, tuple)):
        return ('l', tuple(canon_obj(c) for c in list.__iter__(o))) if isinstance(o, list) else ('t', tuple(canon_obj(c) for c in o))
    if isinstance(o, bool):
        return ('b', bool(o))
    if isinstance(o, int):
        return ('i', int(o))
    if isinstance(o, str):
        return ('s', str(o))
    return ('?', repr(o))

def fresh_scalar(x):
    """an object that no other value shares (no small-int cache, no interned string)"""
    if isinstance(x, int):
        return int(str(x))
    return ''.join(list(x))

def build(v, pool):
    """vtree -> plain Python value; equal ids give the same object"""
    i = v.get('id')
    if i is not None and i in pool:
        return pool[i]
    if 's' in v:
        o = fresh_scalar(v['s'])
    elif 'l' in v:
        o = [build(c, pool) for c in v['l']]
    else:
        o = {}
        for k, c in v['d']:
            o[k] = build(c, pool)
    if i is not None:
        pool[i] = o
    return o

def subtree(v, path):
    for k in path:
        if 'l' in v:
            v = v['l'][k]
        else:
            v = dict((kk, c) for kk, c in v['d'])[k]
    return v

class EqTable:
    def __init__(self):
        self.t = {}
    def of(self, c):
        return self.t.setdefault(c, len(self.t))

def case_eq_table(case):
    """value classes of everything that can end up in the target container"""
    eq = EqTable()
    tgt = subtree(case['tree'], case['target'])
    for c in (tgt['l'] if 'l' in tgt else [c for _, c in tgt['d']]):
        eq.of(canon(c))
    for op in case['ops']:
        for v in op_values(op):
            eq.of(canon(v))
    return eq

def op_values(op):
    if 'v' in op: yield op['v']
    for v in op.get('vs', []): yield v
    for _, v in op.get('kvs', []): yield v

# ------------------------------------------------------------------------------------------------
# implementation run
# ------------------------------------------------------------------------------------------------

RET_OPS = ('removeChild', 'renameChild', 'pop', 'setdefault')

def storage_view(c):
    if isinstance(c, dict):
        return [(k, v) for k, v in dict.items(c)]
    return [(i, v) for i, v in enumerate(list.__iter__(c))]

def child_view(c):
    return [(k, v) for k, v in c.ayns.named_children()]

def check_tree(root):
    """the property on the implementation alone; returns None or a description"""
    seen = set()
    stack = [((), root)]
    while stack:
        path, c = stack.pop()
        if id(c) in seen:
            continue
        seen.add(id(c))
        st, ch = storage_view(c), child_view(c)
        where = NodePath.join_path(list(path)) or '<target root>'
        if [k for k, _ in st] != [k for k, _ in ch] or any(type(a) is not type(b) for (a, _), (b, _) in zip(st, ch)):
            return f'{where}: keys of the builtin storage {[k for k, _ in st]} != keys of the child map {[k for k, _ in ch]}'
        for (k, a), (_, b) in zip(st, ch):
            if a is not b:
                return f'{where}: entry {k!r} of the builtin storage is not the child node ({a!r} vs {b!r})'
        for k, a in st + ch:
            if not isinstance(a, ConfigNode):
                return f'{where}: entry {k!r} is not a node: {type(a).__name__}'
        if isinstance(c, list) and [k for k, _ in ch] != list(range(len(ch))):
            return f'{where}: list children are numbered {[k for k, _ in ch]}'
        for k, a in st + ch:
            if isinstance(a, ComposedNode):
                stack.append((path + (k,), a))
    for p, n in root.ayns.nodes_with_paths():
        try:
            m = root.ayns.get_node(p)
        except Exception as e:  # noqa
            return f'tree walk reports path {list(p)!r} but get_node raises {type(e).__name__}'
        if m is not n:
            return f'tree walk reports {n!r} at {list(p)!r} but get_node returns {m!r}'
        # "a path converted to text and parsed back is unchanged" - for the paths the walk itself reports (their components are
        # whatever the containers use as keys: plain ints / strs for trees built through the API, scalar NODES for parsed mappings)
        comps = [k.ayns.native_value if isinstance(k, ConfigNode) else k for k in p]
        if all((isinstance(k, int) and not isinstance(k, bool)) or (isinstance(k, str) and k.isidentifier()) for k in comps):
            try:
                text = str(p) if isinstance(p, NodePath) else NodePath.join_path(list(p))
                back = [k.ayns.native_value if isinstance(k, ConfigNode) else k for k in NodePath.split_path(text)]
            except Exception as e:  # noqa
                return f'the path {comps!r} reported by the tree walk cannot be converted to text and back: {type(e).__name__}: {e}'
            if [(type(k).__name__, k) for k in back] != [(type(k).__name__, k) for k in comps]:
                return f'the path {comps!r} reported by the tree walk reads {text!r} as text, which parses back to {back!r}'
            try:
                m = root.ayns.get_node(text)
            except Exception as e:  # noqa
                return f'the path {comps!r} reported by the tree walk reads {text!r} as text, but get_node({text!r}) raises {type(e).__name__}'
            if m is not n:
                return f'the path {comps!r} reported by the tree walk reads {text!r} as text, but get_node({text!r}) returns another node'
    return None

def parsed_twin(plain):
    """the same data as a tree PARSED from YAML text (mapping keys become scalar nodes), without shared objects"""
    import yaml as _pyyaml
    from awesomeyaml.builder import Builder
    def unshare(v):
        if isinstance(v, dict): return {k: unshare(x) for k, x in v.items()}
        if isinstance(v, list): return [unshare(x) for x in v]
        return v
    data = unshare(plain)
    if not isinstance(data, dict):
        data = {'r': data}
    b = Builder()
    b.add_source(_pyyaml.safe_dump(data, default_flow_style=True, width=100000), raw_yaml=True)
    return b.build()

class Tokens:
    """identity classes: objects are numbered in order of first appearance"""
    def __init__(self):
        self.ids, self.keep = {}, []
    def of(self, o):
        if id(o) not in self.ids:
            self.ids[id(o)] = len(self.ids)
            self.keep.append(o)
        return self.ids[id(o)]

def observe(t, tok, eq, base=frozenset()):
    def ent(k, v):
        return [k, tok.of(v), eq.of(canon_obj(v)), isinstance(v, ConfigNode)]
    out = {'st': [ent(k, v) for k, v in storage_view(t)], 'ch': [ent(k, v) for k, v in child_view(t)],
           'attrs': [n for n in t.__dict__ if n not in base]}
    try:
        ev = EvalContext().evaluate(t)
        items = list(ev.items()) if isinstance(ev, dict) else list(enumerate(ev))
        out['ev'] = [[k, eq.of(canon_obj(v))] for k, v in items]
    except Exception as e:  # noqa
        out['ev'] = f'{type(e).__name__}: {str(e)[:120]}'
    return out

def resolve_value(t, v, pool):
    if 'ref' in v:
        st = storage_view(t)
        if st:
            return st[v['ref'] % len(st)][1]
    return build(v, pool)

def apply_op(t, op, pool):
    o = op['o']
    val = lambda: resolve_value(t, op['v'], pool)
    if o == 'setItem': t[op['k']] = val(); return None
    if o == 'delItem': del t[op['k']]; return None
    if o == 'setAttr': setattr(t, op['n'], val()); return None
    if o == 'delAttr': delattr(t, op['n']); return None
    if o == 'setChild': t.ayns.set_child(op['k'], val()); return None
    if o == 'removeChild': return t.ayns.remove_child(op['k'])
    if o == 'renameChild': return t.ayns.rename_child(op['k'], op['k2'])
    if o == 'clear': t.clear(); return None
    if o == 'append': v = val(); t.append(v); return None
    if o == 'extend': vs = [resolve_value(t, v, pool) for v in op['vs']]; t.extend(vs); return None
    if o == 'insert': v = val(); t.insert(op['k'], v); return None
    if o == 'remove': v = val(); t.remove(v); return None
    if o == 'pop':
        args = ([] if op.get('k') is None else [op['k']]) + ([None] if op.get('d') else [])
        return t.pop(*args)
    if o == 'update':
        kvs = [(k, resolve_value(t, v, pool)) for k, v in op['kvs']]
        form = op.get('form', 0)
        if form == 1:
            t.update(dict(kvs))
        elif form == 2:
            t.update({}, **dict(kvs))
        else:
            t.update(kvs)
        return None
    if o == 'setdefault': v = val(); return t.setdefault(op['k'], v)
    raise ValueError(f'unknown op {o}')

def impl_run(case):
    pool = {}
    plain = build(case['tree'], pool)
    root = ConfigDict(plain) if isinstance(plain, dict) else ConfigList(plain)
    t = root
    for k in case['target']:
        t = dict.__getitem__(t, k) if isinstance(t, dict) else list.__getitem__(t, k)
    tok, eq = Tokens(), case_eq_table(case)
    viol = check_tree(root)
    if viol is None:
        try:
            viol = check_tree(parsed_twin(plain))
            if viol:
                viol = 'the same tree parsed from YAML text: ' + viol
        except Exception as e:  # noqa
            viol = f'the same tree cannot be parsed from YAML text: {type(e).__name__}: {e}'
    base = frozenset(t.__dict__)
    init = observe(t, tok, eq, base)
    steps = []
    for op in case['ops']:
        ret, exc = None, None
        try:
            ret = apply_op(t, op, pool)
        except RecursionError:
            exc = 'RecursionError'
        except Exception as e:  # noqa
            exc = type(e).__name__
        ob = observe(t, tok, eq, base)
        # the returned object is numbered after the views of the same step (on both sides)
        if exc is not None:
            ob['out'] = {'exc': exc}
        elif op['o'] in RET_OPS and ret is not None:
            ob['out'] = {'ok': [tok.of(ret), eq.of(canon_obj(ret)), isinstance(ret, ConfigNode)]}
        else:
            ob['out'] = {'ok': None}
        steps.append(ob)
        if viol is None:
            v = check_tree(root)
            if v:
                viol = f'after operation #{len(steps)} ({json.dumps(op)[:100]}): {v}'
    return {'init': init, 'steps': steps, 'viol': viol}

def impl_paths(case):
    out = []
    for p in case.get('paths', []):
        try:
            s = NodePath.join_path(p)
            out.append({'join': s, 'split': list(NodePath.split_path(s))})
        except Exception as e:  # noqa
            out.append({'exc': type(e).__name__})
    strs = []
    for s in case.get('strs', []):
        try:
            strs.append({'ok': list(NodePath.split_path(s))})
        except ValueError:
            strs.append({'err': 'value'})
    return out, strs

# ------------------------------------------------------------------------------------------------
# model side
# ------------------------------------------------------------------------------------------------

def val_json(v, eq):
    j = {'id': v['id'], 'eq': eq.of(canon(v))}
    if 'ref' in v:
        j['ref'] = v['ref']
    return j

def op_json(op, eq):
    j = {k: x for k, x in op.items() if k not in ('v', 'vs', 'kvs', 'form')}
    if 'v' in op: j['v'] = val_json(op['v'], eq)
    if 'vs' in op: j['vs'] = [val_json(v, eq) for v in op['vs']]
    if 'kvs' in op: j['kvs'] = [[k, val_json(v, eq)] for k, v in op['kvs']]
    return j

def renumber_model(ans):
    """model ids -> identity classes in order of first appearance (same scan order as `Tokens`)"""
    ids = {}
    def tok(i):
        return ids.setdefault(i, len(ids))
    def ents(l):
        return [[k, tok(i), e, nd] for k, i, e, nd in l]
    def state(s):
        st = ents(s['st']); ch = ents(s['ch'])
        return {'st': st, 'ch': ch, 'attrs': s['attrs'], 'ev': [[k, e] for k, _, e, _ in ch]}
    out = {'init': state(ans['init']), 'steps': []}
    for s in ans['steps']:
        # the views are numbered first, then the returned object (as in `impl_run`)
        o = state(s)
        r = s['out']
        if 'ok' in r and r['ok'] is not None:
            r = {'ok': [tok(r['ok'][0]), r['ok'][1], r['ok'][2]]}
        o['out'] = r
        out['steps'].append(o)
    return out

# ------------------------------------------------------------------------------------------------
# refinement: the builtin specification (driver op "c17spec"), and a real list / dict as third opinion
# ------------------------------------------------------------------------------------------------

RESERVED = frozenset(dir(ConfigDict))

def spec_ops(case):
    """the history a plain dict can be asked to repeat: the stores that ConfigDict refuses (a key that names a
    method/attribute of the class: the one deviation, C17_shadowing_key_deviates) are left out, an `update` is cut
    before the first refused key.  Returns [(index into case['ops'], op)] and {index: 'drop' | 'cut'}."""
    if case['kind'] != 'dict':
        return list(enumerate(case['ops'])), {}
    kept, refused = [], {}
    for i, op in enumerate(case['ops']):
        o = op['o']
        if o in ('setItem', 'setChild', 'setdefault') and op['k'] in RESERVED:
            refused[i] = 'drop'
        elif o == 'setAttr' and not op['n'].startswith('_') and op['n'] in RESERVED:
            refused[i] = 'drop'
        elif o == 'update' and any(k in RESERVED for k, _ in op['kvs']):
            j = [k in RESERVED for k, _ in op['kvs']].index(True)
            refused[i] = 'cut'
            kept.append((i, dict(op, kvs=op['kvs'][:j])))
        else:
            kept.append((i, op))
    return kept, refused

def renumber_plain(states):
    """[{'st': [[key, id, eq]…], 'attrs': […], 'out'?: {'ok': None | [id, eq]} | {'exc': name}}…] with the ids replaced
    by identity classes in order of first appearance (a state's entries first, then the returned object)"""
    ids = {}
    def tok(i):
        return ids.setdefault(i, len(ids))
    out = []
    for s in states:
        o = {'st': [[k, tok(i), e] for k, i, e in s['st']], 'attrs': s['attrs']}
        if 'out' in s:
            r = s['out']
            o['out'] = {'ok': [tok(r['ok'][0]), r['ok'][1]]} if r.get('ok') is not None else r
        out.append(o)
    return out

def impl_plain(io):
    """the implementation's run as a builtin shows it: the storage view and the outcome, node wrapping forgotten"""
    def st(s):
        o = {'st': [e[:3] for e in s['st']], 'attrs': s['attrs']}
        if 'out' in s:
            r = s['out']
            o['out'] = {'ok': r['ok'][:2]} if r.get('ok') is not None else r
        return o
    return [st(io['init'])] + [st(s) for s in io['steps']]

class PlainList(list): pass        # a subclass instance has a __dict__, as ConfigList has
class PlainDict(dict): pass

def builtin_apply(t, op, pool):
    """the operation on a real list / dict; the five operations that are no builtin methods are the compositions
    of builtin operations that Spec/Builtin.lean marks (ext)"""
    o, k = op['o'], op.get('k')
    val = lambda: resolve_value(t, op['v'], pool)
    if o == 'setItem': t[k] = val(); return None
    if o == 'delItem': del t[k]; return None
    if o == 'clear': t.clear(); return None
    if o == 'pop': return t.pop(*(([] if k is None else [k]) + ([None] if op.get('d') else [])))
    if o == 'removeChild': return t.pop(k)
    if isinstance(t, list):
        if o == 'setAttr': setattr(t, op['n'], val()); return None
        if o == 'delAttr': delattr(t, op['n']); return None
        if o == 'setChild':
            v = val()
            j = slice(k, None).indices(len(t))[0]          # clipped as `insert` clips (TypeError for a non-integer)
            if j == len(t): t.append(v)
            else: t[j] = v
            return None
        if o == 'renameChild': raise TypeError('positions cannot be renamed')
        if o == 'extend': t.extend([resolve_value(t, v, pool) for v in op['vs']]); return None
        if o in ('append', 'remove'): getattr(t, o)(val()); return None
        if o == 'insert': t.insert(k, val()); return None
        return getattr(t, o)                               # update, setdefault: AttributeError
    if o == 'setAttr':
        if op['n'].startswith('_'): setattr(t, op['n'], val())
        else: t[op['n']] = val()
        return None
    if o == 'delAttr':
        if op['n'].startswith('_'): delattr(t, op['n'])
        else: del t[op['n']]
        return None
    if o == 'setChild': t[k] = val(); return None
    if o == 'renameChild':
        if k not in t or op['k2'] in t: raise ValueError('rename')
        x = t.pop(k); t[op['k2']] = x
        return x
    if o == 'update':
        kvs = [(kk, resolve_value(t, v, pool)) for kk, v in op['kvs']]
        t.update(dict(kvs)) if op.get('form', 0) == 1 else t.update({}, **dict(kvs)) if op.get('form') == 2 else t.update(kvs)
        return None
    if o == 'setdefault': return t.setdefault(k, val())
    return getattr(t, o)                                   # append, extend, insert, remove: AttributeError

def builtin_run(case, ops):
    pool = {}
    plain = build(subtree(case['tree'], case['target']), pool)
    t = PlainDict(plain) if isinstance(plain, dict) else PlainList(plain)
    tok, eq = Tokens(), case_eq_table(case)
    def state():
        return {'st': [[k, tok.of(v), eq.of(canon_obj(v))] for k, v in storage_view(t)], 'attrs': list(t.__dict__)}
    out = [state()]
    for op in ops:
        ret, exc = None, None
        try:
            ret = builtin_apply(t, op, pool)
        except Exception as e:  # noqa
            exc = type(e).__name__
        s = state()
        s['out'] = {'exc': exc} if exc else {'ok': [tok.of(ret), eq.of(canon_obj(ret))] if op['o'] in RET_OPS and ret is not None else None}
        out.append(s)
    return out

def spec_vs_builtin(case, ans):
    """the specification against CPython's own list / dict (machinery check)"""
    kept, _ = spec_ops(case)
    d = first_diff(json.loads(json.dumps(renumber_plain(builtin_run(case, [op for _, op in kept])))),
                   renumber_plain([ans['init']] + ans['steps']))
    return ('python list/dict vs builtin specification: ' + d) if d else None

def impl_vs_spec(case, io, ans):
    """the implementation against the specification, step by step; at a refused store: ValueError, and the
    contents the specification has (unchanged, or with the pairs before the refused one)"""
    kept, refused = spec_ops(case)
    spec = renumber_plain([ans['init']] + ans['steps'])
    pos = {i: n + 1 for n, (i, _) in enumerate(kept)}          # operation -> row of the specification's run
    real, want = impl_plain(io), [spec[0]]
    for i, op in enumerate(case['ops']):
        if i in refused:
            out = real[i + 1].pop('out')
            # `setdefault` on a name that is there already (put there by rename_child) stores nothing and is not refused
            if out != {'exc': 'ValueError'} and not (op['o'] == 'setdefault' and 'ok' in out):
                return f'operation #{i + 1} {json.dumps(op)[:80]} stores under the name of a class attribute: ValueError expected, got {out}'
            base = spec[pos[i]] if refused[i] == 'cut' else want[-1]
            want.append({k: v for k, v in base.items() if k != 'out'})
        else:
            want.append(spec[pos[i]])
    real = json.loads(json.dumps(renumber_plain(real)))
    for i, (a, b) in enumerate(zip(real, want)):
        d = first_diff(a, b)
        if d:
            what = 'the constructed container' if i == 0 else f'after operation #{i} {json.dumps(case["ops"][i - 1])[:80]}'
            return f'not what a plain {case["kind"]} does ({what}): implementation vs builtin specification {d}'
    return None

# ------------------------------------------------------------------------------------------------
# generator
# ------------------------------------------------------------------------------------------------

STR_KEYS = ['a', 'b', 'c', 'x1', '_u', '_v', '__w', 'clear', 'pop', 'items', 'ayns', '_set', 'k9']
INT_KEYS = [0, 1, 2, 3, -1, -2, 7]
DICT_ATTRS = ['a', 'b', 'x1', 'foo', 'update', 'keys', '_p', '_q']
LIST_ATTRS = ['foo', 'bar', '_p', '_q']
SAFE_STR_KEYS = [k for k in STR_KEYS if k not in dir(ConfigDict)]

class Gen:
    def __init__(self, rng):
        self.rng = rng
        self.next_id = 1

    def nid(self):
        self.next_id += 1
        return self.next_id

    def scalar(self):
        r = self.rng
        if r.random() < 0.6:
            return {'s': 1000 + r.randrange(6)}
        return {'s': r.choice(['aa', 'bb', 'cc', 'a_1'])}

    def value(self, depth):
        """vtree with fresh ids on every node"""
        r = self.rng
        x = r.random()
        if depth <= 0 or x < 0.55:
            v = self.scalar()
        elif x < 0.78:
            v = {'l': [self.value(depth - 1) for _ in range(r.randrange(0, 4))]}
        else:
            keys = r.sample(SAFE_STR_KEYS + INT_KEYS, r.randrange(0, 4))
            v = {'d': [[k, self.value(depth - 1)] for k in keys]}
        v['id'] = self.nid()
        return v

    def container(self, kind, depth, n=None):
        r = self.rng
        n = r.randrange(0, 5) if n is None else n
        if kind == 'list':
            v = {'l': [self.value(depth - 1) for _ in range(n)]}
        else:
            keys = r.sample(SAFE_STR_KEYS + INT_KEYS, min(n, 6))
            v = {'d': [[k, self.value(depth - 1)] for k in keys]}
        v['id'] = self.nid()
        return v

    def alias_scalars(self, tgt):
        """let two scalar entries of the target be the same Python object (the constructor's memo)"""
        ents = tgt['l'] if 'l' in tgt else [c for _, c in tgt['d']]
        sc = [c for c in ents if 's' in c]
        if len(sc) >= 2 and self.rng.random() < 0.25:
            a, b = self.rng.sample(sc, 2)
            b['s'] = a['s']; b['id'] = a['id']

    def op_value(self, size_hint):
        r = self.rng
        v = self.value(2)
        if r.random() < 0.2:
            v['ref'] = r.randrange(0, 8)
        return v

    def index(self, n):
        r = self.rng
        x = r.random()
        if x < 0.45 and n > 0: return r.randrange(0, n)
        if x < 0.60 and n > 0: return -r.randrange(1, n + 1)
        if x < 0.70: return n
        if x < 0.78: return -n - 1
        if x < 0.86: return n + r.randrange(1, 4)
        if x < 0.93: return -n - r.randrange(2, 5)
        return r.choice(['a', 'x1'])

    def dkey(self, keys):
        r = self.rng
        if keys and r.random() < 0.5:
            return r.choice(keys)
        return r.choice(STR_KEYS + INT_KEYS)

    def list_op(self, n):
        """(op, new length estimate)"""
        r = self.rng
        o = r.choice(['setItem'] * 4 + ['delItem'] * 4 + ['setChild'] * 4 + ['removeChild'] * 3 + ['append'] * 5 + ['extend'] * 3
                     + ['insert'] * 6 + ['remove'] * 4 + ['pop'] * 6 + ['clear', 'renameChild', 'setAttr', 'delAttr', 'update',
                                                                        'setdefault'])
        if o in ('setItem', 'setChild', 'insert'):
            return {'o': o, 'k': self.index(n), 'v': self.op_value(n)}
        if o in ('delItem', 'removeChild'):
            return {'o': o, 'k': self.index(n)}
        if o == 'append':
            return {'o': o, 'v': self.op_value(n)}
        if o == 'extend':
            return {'o': o, 'vs': [self.op_value(n) for _ in range(r.randrange(0, 4))]}
        if o == 'remove':
            v = self.op_value(n)
            if r.random() < 0.7:
                v = {'s': 1000 + r.randrange(6), 'id': self.nid()} if r.random() < 0.6 else dict(v, ref=r.randrange(0, 8))
            return {'o': o, 'v': v}
        if o == 'pop':
            x = r.random()
            if x < 0.35: return {'o': o}
            if x < 0.93: return {'o': o, 'k': self.index(n)}
            return {'o': o, 'k': self.index(n), 'd': True}
        if o == 'clear':
            return {'o': o}
        if o == 'renameChild':
            return {'o': o, 'k': self.index(n), 'k2': self.index(n)}
        if o == 'setAttr':
            return {'o': o, 'n': r.choice(LIST_ATTRS), 'v': self.op_value(n)}
        if o == 'delAttr':
            return {'o': o, 'n': r.choice(LIST_ATTRS)}
        if o == 'update':
            return {'o': o, 'kvs': [[0, self.op_value(n)]]}
        return {'o': 'setdefault', 'k': self.index(n), 'v': self.op_value(n)}

    def dict_op(self, keys):
        r = self.rng
        o = r.choice(['setItem'] * 5 + ['delItem'] * 4 + ['setAttr'] * 4 + ['delAttr'] * 4 + ['setChild'] * 4 + ['removeChild'] * 4
                     + ['renameChild'] * 5 + ['pop'] * 5 + ['update'] * 4 + ['setdefault'] * 4
                     + ['clear', 'append', 'insert', 'remove', 'extend'])
        if o in ('setItem', 'setChild', 'setdefault'):
            return {'o': o, 'k': self.dkey(keys), 'v': self.op_value(len(keys))}
        if o in ('delItem', 'removeChild'):
            return {'o': o, 'k': self.dkey(keys)}
        if o == 'setAttr':
            # an underscore attribute that names an internal (`d._set = …`) would replace the method itself
            names = [k for k in keys if isinstance(k, str) and not (k.startswith('_') and k in dir(ConfigDict))] + DICT_ATTRS
            return {'o': o, 'n': r.choice(names), 'v': self.op_value(len(keys))}
        if o == 'delAttr':
            # an underscore attribute that names an internal (`d._set = …`) would replace the method itself
            names = [k for k in keys if isinstance(k, str) and not (k.startswith('_') and k in dir(ConfigDict))] + DICT_ATTRS
            return {'o': o, 'n': r.choice(names)}
        if o == 'renameChild':
            return {'o': o, 'k': self.dkey(keys), 'k2': self.dkey(keys)}
        if o == 'clear':
            return {'o': o}
        if o == 'pop':
            x = r.random()
            if x < 0.05: return {'o': o}
            return {'o': o, 'k': self.dkey(keys), 'd': r.random() < 0.4}
        if o == 'update':
            form = r.choice([0, 0, 1, 2])
            pool = STR_KEYS + INT_KEYS if form != 2 else [k for k in STR_KEYS if k.isidentifier()]
            ks = r.sample(pool, r.randrange(0, 4))
            return {'o': o, 'form': form, 'kvs': [[k, self.op_value(len(keys))] for k in ks]}
        if o == 'extend':
            return {'o': o, 'vs': [self.op_value(0)]}
        if o == 'insert':
            return {'o': o, 'k': 0, 'v': self.op_value(0)}
        return {'o': o, 'v': self.op_value(0)}

    def path(self):
        r = self.rng
        comps = []
        for _ in range(r.randrange(0, 6)):
            x = r.random()
            if x < 0.5:
                comps.append(''.join(r.choice('abzAZ_019') for _ in range(r.randrange(1, 5))))
            elif x < 0.9:
                comps.append(r.choice([0, 1, 7, 10, 123, -1, -20, 99999, -100000]))
            else:
                comps.append(r.randrange(-10**9, 10**9))
        return comps

    def pstr(self):
        r = self.rng
        if r.random() < 0.5:
            s = NodePath.join_path(self.path())
            if s and r.random() < 0.5:     # damage it
                i = r.randrange(len(s))
                s = s[:i] + r.choice(['.', '[', ']', '-', '', 'a', '0', ' ', '..']) + s[i + (r.random() < 0.5):]
            return s
        return ''.join(r.choice('ab_01.[]-') for _ in range(r.randrange(0, 9)))

    def case(self):
        r = self.rng
        self.next_id = 1
        kind = r.choice(['list', 'dict'])
        depth = r.choice([1, 2, 3])
        tgt = self.container(kind, depth)
        self.alias_scalars(tgt)
        tree, target = tgt, []
        # wrap the target into an outer tree in a third of the cases
        while r.random() < 0.3 and len(target) < 3:
            if r.random() < 0.5:
                outer = self.container('list', 2)
                i = r.randrange(0, len(outer['l']) + 1)
                outer['l'].insert(i, tree)
                tree, target = outer, [i] + target
            else:
                outer = self.container('dict', 2)
                k = r.choice([k for k in SAFE_STR_KEYS + INT_KEYS if k not in [kk for kk, _ in outer['d']]])
                outer['d'].insert(r.randrange(0, len(outer['d']) + 1), [k, tree])
                tree, target = outer, [k] + target
        ops = []
        n = len(tgt['l']) if kind == 'list' else 0
        keys = [k for k, _ in tgt.get('d', [])]
        for _ in range(r.randrange(1, 13)):
            if kind == 'list':
                op = self.list_op(n)
                # rough length tracking keeps most indices near the interesting boundary
                if op['o'] in ('append',): n += 1
                elif op['o'] == 'extend': n += len(op['vs'])
                elif op['o'] == 'insert' and isinstance(op['k'], int): n += 1
                elif op['o'] in ('delItem', 'removeChild', 'pop', 'remove') and n > 0 and r.random() < 0.6: n -= 1
                elif op['o'] == 'clear': n = 0
            else:
                op = self.dict_op(keys)
                if op['o'] in ('setItem', 'setChild', 'setdefault') and op['k'] not in keys: keys.append(op['k'])
                if op['o'] == 'update': keys += [k for k, _ in op['kvs'] if k not in keys]
                if op['o'] == 'renameChild' and op['k2'] not in keys: keys.append(op['k2'])
            ops.append(op)
        return {'tree': tree, 'target': target, 'kind': kind, 'ops': ops,
                'paths': [self.path() for _ in range(r.randrange(0, 3))],
                'strs': [self.pstr() for _ in range(r.randrange(0, 3))]}

# ------------------------------------------------------------------------------------------------
# the property
# ------------------------------------------------------------------------------------------------

def sv(x, i=None):
    v = {'s': x}
    if i is not None: v['id'] = i
    return v

class C17(Prop):
    ID = 'C17'
    QUICK_N = 400
    THOROUGH_N = 6000
    RULE = ('an initial tree (nesting <= 3, str/int keys incl. underscore-prefixed, optionally two entries sharing one object), '
            'a target container inside it (depth 0-3), 1-12 public operations on the target (item/attribute set and delete, '
            'append, insert, extend, remove, pop, update in 3 calling forms, setdefault, clear, set/remove/rename child; also the '
            'operations of the other container class) with in-range, boundary, out-of-range, negative and non-integer indices, '
            'reserved and underscore names, fresh nested values or nodes already in the container; 0-2 path lists and 0-2 path '
            'strings (valid, damaged, random); non-trivial = at least one operation changes a view or raises; distinct by SHA-1')
    ASSUMPTIONS = [
        'entries are compared by identity class (objects numbered by first appearance), `==`-class of the plain value and is-node flag',
        'the model\'s copy of dir(ConfigDict) is compared with the real one on every run (first corpus case)',
        'operations outside the property\'s list (list +=, *=, sort, reverse, slice assignment; dict |=, popitem) are not exercised',
        'refinement oracle: the storage view and the outcome of every step are compared with the plain list/dict specification '
        '(Spec/Builtin.lean); stores under a name of dir(ConfigDict) are the known deviation (ValueError expected, left out of the '
        'specification\'s run); the specification itself is compared with a real Python list/dict on every case',
    ]

    def corpus(self):
        L = lambda *xs: {'l': [sv(x, 100 + i) for i, x in enumerate(xs)], 'id': 99}
        D = lambda **kw: {'d': [[k, sv(x, 100 + i)] for i, (k, x) in enumerate(kw.items())], 'id': 99}
        V = lambda x, i: sv(x, i)
        C = lambda tree, kind, ops, target=(), paths=(), strs=(): {'tree': tree, 'target': list(target), 'kind': kind,
                                                                  'ops': ops, 'paths': list(paths), 'strs': list(strs)}
        cases = self._corpus(L, D, V, C)
        cases[0]['check_reserved'] = True      # compare the model's copy of dir(ConfigDict) once per run
        return cases

    def _corpus(self, L, D, V, C):
        return [
            # D14: insert at the front; evaluation order must follow the list
            C(L(1001, 1002), 'list', [{'o': 'insert', 'k': 0, 'v': V(1009, 1)}, {'o': 'insert', 'k': -1, 'v': V(1008, 2)},
                                      {'o': 'insert', 'k': 99, 'v': V(1007, 3)}, {'o': 'insert', 'k': -99, 'v': V(1006, 4)}],
              paths=[['a', 0, 'b_1', -3], [0, 'x']], strs=['a.b[0]', 'a..b', '[1]x', 'a[-0]', '']),
            # D15: pop must remove the child as well
            C(L(1001, 1002, 1003), 'list', [{'o': 'pop'}, {'o': 'pop', 'k': 0}, {'o': 'pop', 'k': 5}, {'o': 'pop'}, {'o': 'pop'}]),
            # D16: rename_child on both classes
            C(D(a=1001, b=1002), 'dict', [{'o': 'renameChild', 'k': 'a', 'k2': 'z'}, {'o': 'renameChild', 'k': 'q', 'k2': 'r'},
                                          {'o': 'renameChild', 'k': 'b', 'k2': 'z'}, {'o': 'renameChild', 'k': 'b', 'k2': 'clear'}]),
            C(L(1001), 'list', [{'o': 'renameChild', 'k': 0, 'k2': 1}]),
            # D02: underscore keys are children like any other
            C(D(a=1001), 'dict', [{'o': 'setItem', 'k': '_w', 'v': V(1003, 1)}, {'o': 'setAttr', 'n': '_p', 'v': V(1004, 2)},
                                  {'o': 'delAttr', 'n': '_p'}, {'o': 'delAttr', 'n': '_p'}, {'o': 'delItem', 'k': '_w'},
                                  {'o': 'setAttr', 'n': 'b', 'v': V(1005, 3)}, {'o': 'delAttr', 'n': 'b'}, {'o': 'delAttr', 'n': 'b'}]),
            # nested target, nested values, aliasing
            C({'d': [['outer', {'l': [sv(1001, 5), {'l': [sv(1001, 6), sv(1001, 6)], 'id': 7}], 'id': 8}]], 'id': 9}, 'list',
              [{'o': 'append', 'v': {'d': [['p', sv(1002)], [3, {'l': [sv('aa')]}]], 'id': 20}}, {'o': 'setItem', 'k': 0, 'v': dict(sv(1005, 21), ref=2)},
               {'o': 'remove', 'v': sv(1001, 22)}, {'o': 'extend', 'vs': [sv(1003, 23), dict(sv(1003, 24), ref=0)]}, {'o': 'clear'}],
              target=['outer', 1]),
        ]

    def gen_cases(self, rng, n, tier):
        g = Gen(rng)
        return [g.case() for _ in range(n)]

    def impl(self, case):
        out = impl_run(case)
        out['paths'], out['strs'] = impl_paths(case)
        if case.get('check_reserved'):
            out['reserved'] = sorted(dir(ConfigDict))
        return out

    def model_requests(self, case):
        eq = case_eq_table(case)
        tgt = subtree(case['tree'], case['target'])
        if 'l' in tgt:
            init = [val_json(c, eq) for c in tgt['l']]
        else:
            init = [[k, val_json(c, eq)] for k, c in tgt['d']]
        reqs = [{'op': 'c17', 'kind': 'list' if 'l' in tgt else 'dict', 'init': init,
                 'ops': [op_json(op, eq) for op in case['ops']]}]
        reqs += [{'op': 'c17path', 'p': p} for p in case.get('paths', [])]
        reqs += [{'op': 'splitPath', 's': s} for s in case.get('strs', [])]
        reqs.append(dict(reqs[0], op='c17spec', ops=[op_json(op, eq) for _, op in spec_ops(case)[0]]))
        if case.get('check_reserved'):
            reqs.append({'op': 'c17reserved'})
        return reqs

    def model_obs(self, case, answers):
        for a in answers:
            if 'bad' in a:
                raise RuntimeError('driver rejected the request: ' + a['bad'])
        np_, ns = len(case.get('paths', [])), len(case.get('strs', []))
        out = renumber_model(answers[0])
        out['paths'] = answers[1:1 + np_]
        out['strs'] = answers[1 + np_:1 + np_ + ns]
        out['spec'] = answers[1 + np_ + ns]
        if case.get('check_reserved'):
            out['reserved'] = sorted(answers[-1]['ok'])
        return out

    def compare(self, case, io, mo):
        io = {k: v for k, v in io.items() if k != 'viol'}
        spec = mo.pop('spec')
        d = first_diff(json.loads(json.dumps(io)), json.loads(json.dumps(mo)))
        return ('implementation vs model: ' + d) if d else spec_vs_builtin(case, spec)

    def oracle(self, case, io, ans):
        if io.get('viol'):
            return io['viol']
        for st in [io['init']] + io['steps']:
            if isinstance(st.get('ev'), str):
                return 'the container cannot be evaluated: ' + st['ev']
            if [k for k, _ in st['ev']] != [e[0] for e in st['st']] or [c for _, c in st['ev']] != [e[2] for e in st['st']]:
                return f"evaluation order {st['ev']} differs from the builtin storage {[[e[0], e[2]] for e in st['st']]}"
        for p, r in zip(case.get('paths', []), io['paths']):
            if r.get('split') != p:
                return f'split_path(join_path({p!r})) = {r!r}'
        return impl_vs_spec(case, io, ans[1 + len(case.get('paths', [])) + len(case.get('strs', []))])

    def nontrivial(self, case, io):
        prev = io['init']
        for s in io['steps']:
            if 'exc' in s['out'] or s['st'] != prev['st']:
                return True
            prev = s
        return False

    def features(self, case, io):
        f = set()
        kind = case['kind']
        for op, s in zip(case['ops'], io['steps']):
            res = s['out'].get('exc', 'ok')
            f.add(f"{kind}.{op['o']}:{res}")
            f.add('exc:' + res if res != 'ok' else 'ok')
            for v in op_values(op):
                f.add('value:' + ('ref' if 'ref' in v else 'scalar' if 's' in v else 'list' if 'l' in v else 'dict'))
            k = op.get('k')
            if isinstance(k, int) and kind == 'list':
                f.add('index:' + ('neg' if k < 0 else 'nonneg'))
            if isinstance(k, str):
                f.add('key:' + ('underscore' if k.startswith('_') else 'str'))
        f.add(f'target-depth={len(case["target"])}')
        f.add('len-max>=%d' % min(6, max([len(io['init']['st'])] + [len(s['st']) for s in io['steps']])))
        if case.get('paths'): f.add('paths')
        for r in io.get('strs', []):
            f.add('split:' + ('ok' if 'ok' in r else 'ValueError'))
        return sorted(f)

    def shrink(self, case):
        ops = case['ops']
        if len(ops) > 1:
            yield dict(case, ops=ops[:len(ops) // 2])
            yield dict(case, ops=ops[len(ops) // 2:])
        for i in range(len(ops)):
            yield dict(case, ops=ops[:i] + ops[i + 1:])
        for key in ('paths', 'strs'):
            for i in range(len(case.get(key, []))):
                yield dict(case, **{key: case[key][:i] + case[key][i + 1:]})
        if case['target']:
            yield dict(case, tree=subtree(case['tree'], case['target']), target=[])
        for i, op in enumerate(ops):
            for fld in ('vs', 'kvs'):
                if len(op.get(fld, [])) > 1:
                    for j in range(len(op[fld])):
                        yield dict(case, ops=ops[:i] + [dict(op, **{fld: op[fld][:j] + op[fld][j + 1:]})] + ops[i + 1:])

    def render(self, case):
        def plain(v):
            if 's' in v: return v['s']
            if 'l' in v: return [plain(c) for c in v['l']]
            return {repr(k): plain(c) for k, c in v['d']}
        def val(v):
            return (f"<node at position {v['ref']}, else> " if 'ref' in v else '') + json.dumps(plain(v))
        lines = [f"root = {'ConfigList' if 'l' in case['tree'] else 'ConfigDict'}({json.dumps(plain(case['tree']))}); "
                 f"c = root{''.join('[%r]' % k for k in case['target'])}"]
        for op in case['ops']:
            o = op['o']
            k = repr(op.get('k'))
            if o == 'setItem': lines.append(f"c[{k}] = {val(op['v'])}")
            elif o == 'delItem': lines.append(f"del c[{k}]")
            elif o == 'setAttr': lines.append(f"c.{op['n']} = {val(op['v'])}")
            elif o == 'delAttr': lines.append(f"del c.{op['n']}")
            elif o == 'setChild': lines.append(f"c.ayns.set_child({k}, {val(op['v'])})")
            elif o == 'removeChild': lines.append(f"c.ayns.remove_child({k})")
            elif o == 'renameChild': lines.append(f"c.ayns.rename_child({k}, {op['k2']!r})")
            elif o == 'extend': lines.append(f"c.extend([{', '.join(val(v) for v in op['vs'])}])")
            elif o == 'insert': lines.append(f"c.insert({k}, {val(op['v'])})")
            elif o == 'pop': lines.append('c.pop(' + ', '.join(([k] if op.get('k') is not None else []) + (['None'] if op.get('d') else [])) + ')')
            elif o == 'update': lines.append(f"c.update(<form {op.get('form', 0)}> {[[kk, val(v)] for kk, v in op['kvs']]})")
            elif o == 'setdefault': lines.append(f"c.setdefault({k}, {val(op['v'])})")
            elif o == 'clear': lines.append('c.clear()')
            else: lines.append(f"c.{o}({val(op['v'])})")
        for p in case.get('paths', []):
            lines.append(f'NodePath.split_path(NodePath.join_path({p!r}))')
        for s in case.get('strs', []):
            lines.append(f'NodePath.split_path({s!r})')
        return lines

PROP = C17()
