"""C14 — `!required` placeholders: constructing the config fails, before anything is evaluated,
exactly when a placeholder remains anywhere in the merged tree, and the error lists every such path.

Cases: a first document with `!required` at random positions (top level, nested mappings, lists,
arguments of call/bind nodes) next to recording dynamic nodes (`!call:rec.f`, `!eval T(...)`), and
0-3 later stages that override subsets of the placeholders with values, replace or delete their
parents, re-declare them, or add new ones.
Oracle (implementation alone): walk the real merged tree (`Builder().build()`, dumped through the
public child API) for RequiredNode instances; `Config(...)` must raise the 'required nodes have not
been set' ValueError iff there is one, the message must list exactly their paths (each once), and
no recording function may have run.

Histories (about a third of the generated cases): the documents are not built once from a fresh
builder but fed to ONE root object step by step - after every document marked `cut` the tree is
built and a Config is constructed from it (successfully or not), then the next documents are added
to the same `Builder` (mode 'builder': `add_source` + `build()` merge them into the old root) or
merged in place into the tree the earlier Config was made from (mode 'source': `cfg.ayns.source`,
`root.ayns.merge(stage)`), and the config is constructed again. Later stages of a history fill in
all remaining placeholders before a cut more often, and turn plain values / filled-in placeholders
back into placeholders after one. The oracle applies the same rule at EVERY construction of the
history: the tree that is handed to `Config(...)` is walked for RequiredNode instances immediately
before the call; error iff one is there, all paths, nothing evaluated. The model answers for the
document prefix of each construction and is compared with it."""
from props.mergefam import *
import random
from evalrun import WorldImpl, EvalContext, conv_val

WORLD = GE.WORLD
KEYS = ['a', 'b', 'c', 'd', 'e', 'x', 'y']


def gen_tree(rng, depth, p_req, in_args=False):
    """a raw value with placeholders sprinkled in"""
    r = rng.random()
    if r < p_req:
        return Sempty('required')
    if depth <= 0 or r < 0.40:
        return S(rng.choice([0, 1, 'p', 'q', True, None, 2.5]))
    if r < 0.55:
        return Q([gen_tree(rng, depth - 1, p_req) for _ in range(rng.choice([0, 1, 2, 3]))])
    if r < 0.75:
        keys = rng.sample(KEYS, rng.choice([0, 1, 2, 3]))
        return M([(k, gen_tree(rng, depth - 1, p_req)) for k in keys])
    if r < 0.93 and not in_args:
        kind = rng.choice(['call', 'bind'])
        f = rng.choice(['rec.f', 'rec.g'])
        if rng.random() < 0.4:
            return Q([gen_tree(rng, depth - 1, p_req * 1.5, True) for _ in range(rng.choice([0, 1, 2]))], tag={'k': kind, 'f': f})
        keys = rng.sample([0, 1, 'p', 'q'], rng.choice([0, 1, 2, 3]))
        keys = sorted([k for k in keys if isinstance(k, int)]) + [k for k in keys if isinstance(k, str)]
        if 1 in keys and 0 not in keys:
            keys = [0] + keys
        return M([(k, gen_tree(rng, depth - 1, p_req * 1.5, True)) for k in keys], tag={'k': kind, 'f': f})
    if r < 0.97:
        return Stext('T(' + rng.choice(['', 'S1', 'len']) + ')', 'eval')
    return Stext(rng.choice(KEYS), 'xref')


def placeholder_paths(raw, pre=()):
    out = []
    t = raw.get('t')
    if t and t.get('k') == 'required':
        return [pre]
    if 'm' in raw:
        for k, c in raw['m']:
            out += placeholder_paths(c, pre + (sc_py(k),))
    elif 'q' in raw:
        for i, c in enumerate(raw['q']):
            out += placeholder_paths(c, pre + (i,))
    return out


def plain_leaf_paths(raw, pre=()):
    """paths of the untagged scalar leaves (values a later stage may turn into placeholders)"""
    out = []
    if 's' in raw:
        return [] if raw.get('t') else [pre]
    if 'm' in raw:
        for k, c in raw['m']:
            out += plain_leaf_paths(c, pre + (sc_py(k),))
    elif 'q' in raw:
        for i, c in enumerate(raw['q']):
            out += plain_leaf_paths(c, pre + (i,))
    return out


def build_stage(writes):
    """mapping document writing `leaf` at each path (prefix conflicts: the shorter path wins)"""
    writes = sorted(writes, key=lambda w: len(w[0]))
    trie = {}
    for path, leaf in writes:
        cur, ok = trie, True
        for k in path[:-1]:
            nxt = cur.get(k)
            if nxt is None:
                nxt = cur[k] = {}
            if '__leaf__' in nxt:
                ok = False
                break
            cur = nxt
        if ok and path[-1] not in cur:
            cur[path[-1]] = {'__leaf__': leaf}
    def build(d):
        return M([(k, v['__leaf__'] if '__leaf__' in v else build(v)) for k, v in d.items()])
    return build(trie)


def gen_case(rng, hist=False):
    """hist: the case is a history - some documents are followed by a construction of the config (`cut`)"""
    depth = rng.choice([1, 2, 2, 3])
    p_req = rng.choice([0.0, 0.08, 0.15, 0.15, 0.3])
    n_later = rng.choice([0, 0, 1, 1, 2, 3])
    cuts = set()
    if hist:
        n_later = rng.choice([1, 1, 2, 2, 3])
        cuts = {i for i in range(n_later) if rng.random() < 0.5} or {rng.randrange(n_later)}
        if 0 in cuts and rng.random() < 0.5:
            p_req = 0.0                                    # the first document alone is complete
    keys = rng.sample(KEYS, rng.choice([1, 2, 3, 4, 5]))
    items = [(k, gen_tree(rng, depth, p_req)) for k in keys]
    # recording nodes that would run if anything were evaluated
    if rng.random() < 0.8:
        items.append(('k', M([(0, S(1))], tag={'k': 'call', 'f': 'rec.f'})))
    if rng.random() < 0.4:
        items.append(('t', Stext('T(S1)', 'eval')))
    rng.shuffle(items)
    doc0 = M(items)
    docs = [{'raw': doc0}]
    ps = placeholder_paths(doc0)
    values = plain_leaf_paths(doc0)      # plain values and filled-in placeholders: candidates for becoming placeholders
    actions = []
    for s in range(1, n_later + 1):
        writes = []
        live = list(ps)
        fill_all = s in cuts and rng.random() < 0.6        # the stage before a construction completes the config
        after_cut = any(c < s for c in cuts)
        for p in live:
            r = rng.random()
            if fill_all:
                r = 0.40 + 0.30 * r
            if r < 0.40:
                continue                                   # left in place
            if r < 0.70:
                writes.append((p, S(rng.choice([5, 'set', None]))))            # overwritten by a value
                actions.append('set')
            elif r < 0.78:
                writes.append((p, Sempty('required')))                         # declared again
                actions.append('redeclare')
            elif r < 0.90 and len(p) > 1:
                # the parent is replaced: by a scalar, or by a deleting container without the placeholder
                if rng.random() < 0.5:
                    writes.append((p[:-1], S(9)))
                elif isinstance(p[-1], int):
                    writes.append((p[:-1], Q([S(8)])))                          # lists replace by default
                else:
                    writes.append((p[:-1], M([('n', S(8))], kw={'del': True})))
                actions.append('parent')
            else:
                writes.append((p, M([('m', S(1)), ('r', Sempty('required'))]) if rng.random() < 0.3 else Q([S(1)])))
                actions.append('container')
        if not fill_all and rng.random() < (0.5 if after_cut else 0.25):
            writes.append(((rng.choice(KEYS), 'new'), Sempty('required')))       # a placeholder added late
            actions.append('add')
        if not fill_all and values and rng.random() < (0.5 if after_cut else 0.15):
            for p in rng.sample(values, min(len(values), rng.choice([1, 1, 2]))):
                writes.append((p, Sempty('required')))                           # a value is turned (back) into a placeholder
            actions.append('unset')
        if not writes:
            writes.append((('zz',), S(1)))
        stage = build_stage(writes)
        docs.append({'raw': stage})
        values = [p for p in values if not any(w[0] == p[:len(w[0])] for w in writes)] + \
                 [w[0] + q for w in writes for q in ([()] if 's' in w[1] and not w[1].get('t') else plain_leaf_paths(w[1]))]
        # placeholders as far as the generator can tell (the oracle reads the real merged tree instead)
        ps = [p for p in ps if not any(w[0] == p[:len(w[0])] for w in writes)] + \
             [w[0] + q for w in writes for q in placeholder_paths(w[1])]
    if not hist and rng.random() < 0.12:
        # a last document whose ROOT is a deleting mapping, empty or not: it wipes whatever the earlier documents hold, their
        # placeholders included ("a placeholder ... deleted by any later stage does not count") (seeded change S7-C14: an empty
        # document was skipped as "nothing to merge", its !del with it)
        docs.append({'raw': M([] if rng.random() < 0.6 else [('c', S(3))], kw={'del': True})})
        actions.append('wipe')
    case = {'docs': docs, 'actions': sorted(set(actions))}
    if hist:
        for i in cuts:
            docs[i]['cut'] = True
        case['hist'] = rng.choice(['builder', 'builder', 'source'])
    return case


def gen_prune_case(rng):
    """a list holding placeholders is pruned by a later deleting list while some of its elements are protected by a higher priority
    (their own tag, or a `!merge {i: !force v}` stage in between): elements are removed from the middle of the list, the survivors
    move down - the placeholders the error lists must be the ones of the merged tree as it is AFTER that (seeded change S5-C14: the
    child map was not renumbered after a removal)"""
    n = rng.choice([2, 3, 3, 4])
    def elem():
        r = rng.random()
        kw = {'prio': 1} if rng.random() < 0.3 else {}
        if r < 0.4: return Sempty('required', kw=kw)
        if r < 0.7: return S(rng.choice(['b', 'c', 7]), kw=kw)
        if r < 0.85: return M([('x', Sempty('required') if rng.random() < 0.5 else S(1))], kw=kw)
        return M([(0, S(1))], tag={'k': 'call', 'f': 'rec.f'}, kw=kw)
    key = rng.choice(['inputs', 'l'])
    wrap = rng.choice([[], [], ['n']])
    docs = [{'raw': G.nest(wrap + [key], Q([elem() for _ in range(n)]))}]
    if rng.random() < 0.6:
        idx = rng.sample(range(n), rng.choice([1, 1, 2]))
        docs.append({'raw': G.nest(wrap + [key], M([(i, S('x%d' % i, kw={'prio': 1}) if rng.random() < 0.7 else Sempty('required', kw={'prio': 1})) for i in sorted(idx)], kw={'del': False}))})
    last = Q([S('new') if rng.random() < 0.7 else Sempty('required') for _ in range(rng.choice([0, 1, 1, 2]))])
    docs.append({'raw': G.nest(wrap + [key], last)})
    if rng.random() < 0.3:
        docs.append({'raw': G.nest(wrap + [key], M([(0, S('late'))], kw={'del': False}))})
    return {'docs': docs, 'actions': ['prune-list']}


def cut_points(docs):
    """numbers of leading documents after which the config is constructed (the last one always)"""
    return [i + 1 for i, d in enumerate(docs) if d.get('cut') and i + 1 < len(docs)] + [len(docs)]


def plain_docs(docs):
    return [{k: v for k, v in d.items() if k != 'cut'} for d in docs]


def impl_history(docs, world, mode, style='flow', md_style=0, qs=0):
    """the case as a history on one root object: at every cut the tree is built, dumped, and a Config is constructed
    from it; further documents go to the same Builder ('builder') or are merged in place into the tree the
    last Config was made from ('source'). Returns one {'after', 'tree', 'cfg'} per construction."""
    points = []
    with WorldImpl(world) as w:
        b, root = Builder(), None
        cuts = cut_points(docs)
        try:
            for i, d in enumerate(docs):
                text = render_doc(d['raw'], style, md_style, qs)
                if mode == 'source' and root is not None:
                    sb = Builder()
                    sb.add_source(text, raw_yaml=True, filename=d.get('src'), safe=d.get('safe'))
                    sb.preprocess()
                    for st in sb.stages:
                        root = root.ayns.merge(st)
                else:
                    b.add_source(text, raw_yaml=True, filename=d.get('src'), safe=d.get('safe'))
                if i + 1 not in cuts:
                    continue
                if mode != 'source' or root is None:
                    root = b.build()
                pt = {'after': i + 1, 'tree': {'ok': None if root is None else dump_node(root)}}
                del w.log[:]
                try:
                    cfg = Config(root, eval_ctx=EvalContext(eval_symbols=w.syms))
                    pt['cfg'] = {'ok': renumber(conv_val(cfg, w, {})), 'log': list(w.log)}
                    if mode == 'source' and root is not None:
                        root = cfg.ayns.source
                except RecursionError:
                    pt['cfg'] = {'err': 'recursion', 'log': list(w.log)}
                except Exception as e:  # noqa
                    pt['cfg'] = dict(classify_error(e), log=list(w.log))
                points.append(pt)
        except RecursionError:
            points.append({'after': i + 1, 'tree': {'err': 'recursion'}, 'cfg': {'err': 'recursion', 'log': []}})
        except Exception as e:  # noqa   building failed: the history ends here
            points.append({'after': i + 1, 'tree': classify_error(e), 'cfg': dict(classify_error(e), log=[])})
    return points


def required_in_dump(d, pre=()):
    out = []
    if d['k'] == 'required':
        out.append(pre)
    for k, c in d.get('c', []):
        out += required_in_dump(c, pre + (sc_py(k),))
    return out


def add_shared(rng, case):
    """the same case with one sub-tree of the first document (preferably one holding a placeholder) anchored and aliased under a
    new last top-level key, directly or one mapping deeper: one node object at two paths. Outside the model (compare = SKIP);
    the rule is checked on the implementation alone, against the merged tree as the public child API shows it."""
    case = copy.deepcopy(case)
    raw = case['docs'][0]['raw']
    cands = [(p, n) for p, n in G.paths_of(raw) if p and 'alias' not in n]
    if not cands:
        return None
    withreq = [(p, n) for p, n in cands if placeholder_paths(n)]
    p, n = rng.choice(withreq if withreq and rng.random() < 0.8 else cands)
    n['anchor'] = 'sh1'
    al = {'alias': 'sh1'}
    raw['m'].append(['shared', al if rng.random() < 0.5 else {'m': [['first', al], ['n', {'s': {'l': 2}}]]}])
    case['shared'] = True
    case['style'] = [case['style'][0] if case['style'][0] != 'blocklit' else 'block', 0, 0]
    case['actions'] = list(case.get('actions', [])) + ['shared-node']
    return case

class C14(MergeFamProp):
    ID = 'C14'
    WORLD = WORLD
    QUICK_N = 450
    THOROUGH_N = 6000
    RULE = ('a document with !required placeholders at random positions (top level, nested mappings, lists, arguments of '
            '!call/!bind nodes given as mappings and lists; 0-30% of the leaves) next to recording !call / !eval nodes, followed '
            'by 0-3 stages that overwrite subsets of the placeholders with values, re-declare them, replace or delete their '
            'parent containers, turn them into containers holding new placeholders, add placeholders, or turn plain values / '
            'filled-in placeholders (back) into placeholders; flow or block style. 35% of the cases are HISTORIES on one root '
            'object: after each document marked `cut` (each non-final one with p=1/2, at least one) the tree is built and a '
            'Config is constructed, then the remaining documents are added to the same Builder and built again (2/3) or merged '
            'in place into cfg.ayns.source (1/3) and the config is constructed again; in a history the stage before a cut fills '
            'every open placeholder with p=0.6, the first document is complete with p=1/2 when a cut follows it, and stages '
            'after a cut add / re-open placeholders with p=1/2 each; the rule is checked at every construction; distinct by '
            'SHA-1 of the case')
    ASSUMPTIONS = ['the merged tree is read through the public child API (ayns.named_children) of the real nodes',
                   'in a history the tree is read immediately before each Config(...) call, from the object that is passed to it']
    P_HIST = 0.35

    def corpus(self):
        D = lambda *raws: {'docs': [{'raw': r} for r in raws], 'style': ['flow', 0, 0], 'actions': ['corpus']}
        R = lambda: Sempty('required')
        call = lambda f, items, kind='call': M(items, tag={'k': kind, 'f': f})
        def H(mode, raws, cuts):
            c = D(*raws)
            for i in cuts:
                c['docs'][i]['cut'] = True
            c['hist'] = mode
            return c
        return [
            D(M([('a', R()), ('b', M([('x', S(1)), ('y', R())])), ('c', Q([S(1), R()])),
                 ('d', call('rec.f', [(0, R()), ('p', S(2))])), ('k', call('rec.g', [(0, S(1))]))])),
            D(M([('a', R()), ('k', call('rec.f', [(0, S(1))]))]), M([('a', S(5))])),
            D(M([('b', M([('y', R())])), ('k', call('rec.f', [(0, S(1))]))]), M([('b', M([('n', S(1))], kw={'del': True}))])),
            D(M([('c', Q([S(1), R()], tag={'k': 'bind', 'f': 'rec.f'}))]), M([('c', M([(1, S(3))]))])),
            D(M([('a', S(1))]), M([('a', R())])),
            D(M([])),
            D(M([('c', Q([R(), R()]))]), M([('c', M([(0, S(1))]))])),
            # histories: a complete tree is made into a Config, then a placeholder enters the same root object
            H('builder', [M([('k', call('rec.f', [(0, S(1))]))]), M([('a', R())])], [0]),
            H('source', [M([('k', call('rec.f', [(0, S(1))]))]), M([('a', R())])], [0]),
            H('builder', [M([('a', R()), ('k', call('rec.f', [(0, S(1))]))]), M([('a', S(5))]),
                          M([('a', R()), ('b', M([('y', R())]))])], [0, 1]),
            H('source', [M([('a', S(1)), ('t', Stext('T(S1)', 'eval'))]), M([('a', R())]), M([('a', S(2))])], [0, 1]),
        ]

    P_SHARED = 0.08     # share of cases in which a YAML anchor/alias places one node object at two paths (oracle only)

    def gen_cases(self, rng, n, tier):
        out = []
        for i in range(n):
            c = gen_case(rng, hist=rng.random() < self.P_HIST)
            st = self.STYLES[rng.randrange(len(self.STYLES))] if rng.random() < 0.4 else self.STYLES[0]
            c['style'] = list(st)
            if not c.get('hist') and rng.random() < self.P_SHARED:
                c = add_shared(rng, c) or c
            out.append(c)
        r2 = random.Random(rng.random())
        for _ in range(max(4, n // 10)):
            c = gen_prune_case(r2)
            c['style'] = ['flow', 0, 0]
            out.append(c)
        return out

    def impl(self, case):
        st = case.get('style', ['flow', 0, 0])
        # the single build of all documents from a fresh builder (tree and config from one build: a history without cuts)
        fresh = impl_history(plain_docs(case['docs']), self.WORLD, 'builder', *st)[-1]
        io = {'tree': fresh['tree'], 'cfg': fresh['cfg']}
        if case.get('hist'):
            io['hist'] = impl_history(case['docs'], self.WORLD, case['hist'], *st)
        return io

    def model_requests(self, case):
        if case.get('shared'):
            return []
        docs = plain_docs(case['docs'])
        reqs = [{'op': 'merge', 'docs': docs}, {'op': 'config', 'docs': docs, 'world': self.WORLD}]
        if case.get('hist'):
            for k in cut_points(case['docs'])[:-1]:
                reqs += [{'op': 'merge', 'docs': docs[:k]}, {'op': 'config', 'docs': docs[:k], 'world': self.WORLD}]
        return reqs

    def model_obs(self, case, answers):
        if case.get('shared'):
            return {'shared': True}
        mo = {'tree': answers[0], 'cfg': answers[1]}
        if case.get('hist'):
            ks = cut_points(case['docs'])
            mo['hist'] = {k: {'tree': answers[2 + 2 * j], 'cfg': answers[3 + 2 * j]} for j, k in enumerate(ks[:-1])}
            mo['hist'][ks[-1]] = {'tree': answers[0], 'cfg': answers[1]}
        return mo

    def compare(self, case, io, mo):
        if case.get('shared'):
            return 'SKIP'           # node sharing is outside the model's domain
        d = super().compare(case, io, mo)
        if d is not None or not case.get('hist'):
            return d
        # every construction of the history against the model's answer for the document prefix it has seen
        for pt in io['hist']:
            m = mo['hist'].get(pt['after'])
            if m is None:
                continue
            d = super().compare(case, pt, m)
            if d == 'SKIP':
                return d
            if d is not None:
                return d if d.startswith('KNOWN:') else f"history ({case['hist']}), construction after document {pt['after']}: {d}"
        return None

    @staticmethod
    def wiped(docs):
        """True when the documents say by themselves that no placeholder can remain: the last document is a root-level deleting
        mapping without placeholders, and nothing before it is protected by a priority tag"""
        if len(docs) < 2:
            return False
        last = docs[-1]['raw']
        if 'm' not in last or (last.get('kw') or {}).get('del') is not True or placeholder_paths(last):
            return False
        txt = json.dumps([d['raw'] for d in docs])
        return '"prio"' not in txt and '"alias"' not in txt

    def oracle(self, case, io, ans):
        if not case.get('hist') and self.wiped(plain_docs(case['docs'])) and io['cfg'].get('err') == 'required':
            return (f"the last document is a deleting mapping at the root: it removes every placeholder of the earlier documents, yet the "
                    f"config reports {io['cfg'].get('paths')}")
        d = self.rule(io['tree'], io['cfg'])
        if d is None:
            for pt in io.get('hist', []):
                d = self.rule(pt['tree'], pt['cfg'])
                if d is not None:
                    return (f"history ({case['hist']}: the same root object is built and made into a Config after documents "
                            f"{cut_points(case['docs'])}), construction after document {pt['after']}: {d}")
        return d

    @staticmethod
    def rule(tree, cfg):
        if 'ok' not in tree:
            return None                       # the merge itself failed: there is no merged tree
        root = tree['ok']
        if root is None:
            return None
        def mismatch(n, pre=()):
            if n.get('storage_mismatch'):
                return pre
            for k, c in n.get('c', []):
                r = mismatch(c, pre + (sc_py(k),))
                if r is not None:
                    return r
            return None
        mm = mismatch(root)
        if mm is not None:
            # check_missing walks the child map, evaluation the builtin storage: when they disagree the listed paths mean nothing
            return (f'the merged tree is inconsistent at {list(mm)}: child map and builtin storage of the container disagree, so the '
                    f'placeholders that check_missing lists are not the ones evaluation would meet')
        expected = [NodePath.join_path(list(p)) for p in required_in_dump(root)]
        is_req = cfg.get('err') == 'required'
        if expected and not is_req:
            return (f"the merged tree holds placeholders at {expected} but constructing the config gave "
                    f"{json.dumps({k: v for k, v in cfg.items() if k != 'log'})[:200]}"
                    + (f"; evaluated on the way: {cfg['log']}" if cfg.get('log') else ''))
        if not expected and is_req:
            return f"no placeholder remains in the merged tree but the config reports {cfg.get('paths')}"
        if is_req:
            got = cfg.get('paths', [])
            if sorted(got) != sorted(expected):
                return f'the error lists {got}, the merged tree holds placeholders at {expected}'
            if len(set(got)) != len(got):
                return f'the error lists a path twice: {got}'
            if cfg.get('log'):
                return f"something was evaluated before the failure: {cfg['log']}"
        return None

    def features(self, case, io):
        f = ['action:' + a for a in case.get('actions', [])] + [f'stages={len(case["docs"])}']
        tree, cfg = io.get('tree', {}), io.get('cfg', {})
        if 'ok' in tree and tree['ok']:
            ps = required_in_dump(tree['ok'])
            f.append('remaining:' + ('0' if not ps else '1' if len(ps) == 1 else '2+'))
            for p in ps:
                f.append('depth:' + str(min(len(p), 4)))
                f.append('under:' + self._parent_kind(tree['ok'], p))
        else:
            f.append('merge:' + str(tree.get('err')))
        f.append('result:' + str(cfg.get('err', 'ok')))
        if case.get('hist'):
            pts = io.get('hist', [])
            f.append('history:' + case['hist'])
            f.append(f'history:constructions={len(pts)}')
            seq = ['ok' if 'ok' in pt['cfg'] else str(pt['cfg'].get('err')) for pt in pts]
            for a, b in zip(seq, seq[1:]):
                f.append(f'history:{a}->{b}')
            if pts and first_diff(pts[-1]['tree'], io.get('tree')) is not None:
                f.append('history:final-tree-differs-from-fresh-build')
        return f

    def shrink(self, case):
        yield from super().shrink(case)
        if case.get('hist'):
            docs = case['docs']
            for i, d in enumerate(docs):
                if d.get('cut'):
                    yield dict(case, docs=docs[:i] + [{k: v for k, v in d.items() if k != 'cut'}] + docs[i + 1:])
            if case['hist'] != 'builder':
                yield dict(case, hist='builder')

    def render(self, case):
        out = super().render(dict(case, docs=plain_docs(case['docs'])))
        if not case.get('hist'):
            return out
        how = {'builder': 'added to the same Builder, which is built again',
               'source': 'merged in place into the tree of the previous Config (cfg.ayns.source)'}[case['hist']]
        res = []
        for i, line in enumerate(out):
            res.append(line if i == 0 or not any(d.get('cut') for d in case['docs'][:i]) else f'[{how}] {line}')
            if case['docs'][i].get('cut') or i == len(out) - 1:
                res.append('  -> Config(...) is constructed from the tree built so far')
        return res

    @staticmethod
    def _parent_kind(root, p):
        d = root
        for k in p[:-1]:
            d = next(c for kk, c in d['c'] if sc_py(kk) == k)
        return d['k']

    def nontrivial(self, case, io):
        return any(placeholder_paths(d['raw']) for d in case['docs'])   # (a history and the single build of the same documents are different cases: `cut`, `hist` are part of the digest)


PROP = C14()
