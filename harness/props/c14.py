"""C14 — `!required` placeholders: constructing the config fails, before anything is evaluated,
exactly when a placeholder remains anywhere in the merged tree, and the error lists every such path.

Cases: a first document with `!required` at random positions (top level, nested mappings, lists,
arguments of call/bind nodes) next to recording dynamic nodes (`!call:rec.f`, `!eval T(...)`), and
0-3 later stages that override subsets of the placeholders with values, replace or delete their
parents, re-declare them, or add new ones.
Oracle (implementation alone): walk the real merged tree (`Builder().build()`, dumped through the
public child API) for RequiredNode instances; `Config(...)` must raise the 'required nodes have not
been set' ValueError iff there is one, the message must list exactly their paths (each once), and
no recording function may have run."""
from props.mergefam import *

WORLD = GE.WORLD
KEYS = ['a', 'b', 'c', 'd', 'e', 'x', 'y']


def gen_tree(rng, depth, p_req, in_args=False):
    """a raw value with placeholders sprinkled in"""
    r = rng.random()
    if r < p_req:
        return Sempty('required')
    if depth <= 0 or r < 0.40:
        return S(rng.choice([0, 1, 'p', 'q', True, None, 2.5]))
    if r < 0.55:
        return Q([gen_tree(rng, depth - 1, p_req) for _ in range(rng.choice([0, 1, 2, 3]))])
    if r < 0.75:
        keys = rng.sample(KEYS, rng.choice([0, 1, 2, 3]))
        return M([(k, gen_tree(rng, depth - 1, p_req)) for k in keys])
    if r < 0.93 and not in_args:
        kind = rng.choice(['call', 'bind'])
        f = rng.choice(['rec.f', 'rec.g'])
        if rng.random() < 0.4:
            return Q([gen_tree(rng, depth - 1, p_req * 1.5, True) for _ in range(rng.choice([0, 1, 2]))], tag={'k': kind, 'f': f})
        keys = rng.sample([0, 1, 'p', 'q'], rng.choice([0, 1, 2, 3]))
        keys = sorted([k for k in keys if isinstance(k, int)]) + [k for k in keys if isinstance(k, str)]
        if 1 in keys and 0 not in keys:
            keys = [0] + keys
        return M([(k, gen_tree(rng, depth - 1, p_req * 1.5, True)) for k in keys], tag={'k': kind, 'f': f})
    if r < 0.97:
        return Stext('T(' + rng.choice(['', 'S1', 'len']) + ')', 'eval')
    return Stext(rng.choice(KEYS), 'xref')


def placeholder_paths(raw, pre=()):
    out = []
    t = raw.get('t')
    if t and t.get('k') == 'required':
        return [pre]
    if 'm' in raw:
        for k, c in raw['m']:
            out += placeholder_paths(c, pre + (sc_py(k),))
    elif 'q' in raw:
        for i, c in enumerate(raw['q']):
            out += placeholder_paths(c, pre + (i,))
    return out


def build_stage(writes):
    """mapping document writing `leaf` at each path (prefix conflicts: the shorter path wins)"""
    writes = sorted(writes, key=lambda w: len(w[0]))
    trie = {}
    for path, leaf in writes:
        cur, ok = trie, True
        for k in path[:-1]:
            nxt = cur.get(k)
            if nxt is None:
                nxt = cur[k] = {}
            if '__leaf__' in nxt:
                ok = False
                break
            cur = nxt
        if ok and path[-1] not in cur:
            cur[path[-1]] = {'__leaf__': leaf}
    def build(d):
        return M([(k, v['__leaf__'] if '__leaf__' in v else build(v)) for k, v in d.items()])
    return build(trie)


def gen_case(rng):
    depth = rng.choice([1, 2, 2, 3])
    p_req = rng.choice([0.0, 0.08, 0.15, 0.15, 0.3])
    keys = rng.sample(KEYS, rng.choice([1, 2, 3, 4, 5]))
    items = [(k, gen_tree(rng, depth, p_req)) for k in keys]
    # recording nodes that would run if anything were evaluated
    if rng.random() < 0.8:
        items.append(('k', M([(0, S(1))], tag={'k': 'call', 'f': 'rec.f'})))
    if rng.random() < 0.4:
        items.append(('t', Stext('T(S1)', 'eval')))
    rng.shuffle(items)
    doc0 = M(items)
    docs = [{'raw': doc0}]
    ps = placeholder_paths(doc0)
    actions = []
    for _ in range(rng.choice([0, 0, 1, 1, 2, 3])):
        writes = []
        live = list(ps)
        for p in live:
            r = rng.random()
            if r < 0.40:
                continue                                   # left in place
            if r < 0.70:
                writes.append((p, S(rng.choice([5, 'set', None]))))            # overwritten by a value
                actions.append('set')
            elif r < 0.78:
                writes.append((p, Sempty('required')))                         # declared again
                actions.append('redeclare')
            elif r < 0.90 and len(p) > 1:
                # the parent is replaced: by a scalar, or by a deleting container without the placeholder
                if rng.random() < 0.5:
                    writes.append((p[:-1], S(9)))
                elif isinstance(p[-1], int):
                    writes.append((p[:-1], Q([S(8)])))                          # lists replace by default
                else:
                    writes.append((p[:-1], M([('n', S(8))], kw={'del': True})))
                actions.append('parent')
            else:
                writes.append((p, M([('m', S(1)), ('r', Sempty('required'))]) if rng.random() < 0.3 else Q([S(1)])))
                actions.append('container')
        if rng.random() < 0.25:
            writes.append(((rng.choice(KEYS), 'new'), Sempty('required')))       # a placeholder added late
            actions.append('add')
        if not writes:
            writes.append((('zz',), S(1)))
        stage = build_stage(writes)
        docs.append({'raw': stage})
        # placeholders as far as the generator can tell (the oracle reads the real merged tree instead)
        ps = [p for p in ps if not any(w[0] == p[:len(w[0])] for w in writes)] + \
             [w[0] + q for w in writes for q in placeholder_paths(w[1])]
    return {'docs': docs, 'actions': sorted(set(actions))}


def required_in_dump(d, pre=()):
    out = []
    if d['k'] == 'required':
        out.append(pre)
    for k, c in d.get('c', []):
        out += required_in_dump(c, pre + (sc_py(k),))
    return out


class C14(MergeFamProp):
    ID = 'C14'
    WORLD = WORLD
    QUICK_N = 450
    THOROUGH_N = 6000
    RULE = ('a document with !required placeholders at random positions (top level, nested mappings, lists, arguments of '
            '!call/!bind nodes given as mappings and lists; 0-30% of the leaves) next to recording !call / !eval nodes, followed '
            'by 0-3 stages that overwrite subsets of the placeholders with values, re-declare them, replace or delete their '
            'parent containers, turn them into containers holding new placeholders, or add placeholders; flow or block '
            'style; distinct by SHA-1 of the case')
    ASSUMPTIONS = ['the merged tree is read through the public child API (ayns.named_children) of the real nodes']

    def corpus(self):
        D = lambda *raws: {'docs': [{'raw': r} for r in raws], 'style': ['flow', 0, 0], 'actions': ['corpus']}
        R = lambda: Sempty('required')
        call = lambda f, items, kind='call': M(items, tag={'k': kind, 'f': f})
        return [
            D(M([('a', R()), ('b', M([('x', S(1)), ('y', R())])), ('c', Q([S(1), R()])),
                 ('d', call('rec.f', [(0, R()), ('p', S(2))])), ('k', call('rec.g', [(0, S(1))]))])),
            D(M([('a', R()), ('k', call('rec.f', [(0, S(1))]))]), M([('a', S(5))])),
            D(M([('b', M([('y', R())])), ('k', call('rec.f', [(0, S(1))]))]), M([('b', M([('n', S(1))], kw={'del': True}))])),
            D(M([('c', Q([S(1), R()], tag={'k': 'bind', 'f': 'rec.f'}))]), M([('c', M([(1, S(3))]))])),
            D(M([('a', S(1))]), M([('a', R())])),
            D(M([])),
            D(M([('c', Q([R(), R()]))]), M([('c', M([(0, S(1))]))])),
        ]

    def gen_cases(self, rng, n, tier):
        out = []
        for i in range(n):
            c = gen_case(rng)
            st = self.STYLES[rng.randrange(len(self.STYLES))] if rng.random() < 0.4 else self.STYLES[0]
            c['style'] = list(st)
            out.append(c)
        return out

    def oracle(self, case, io, ans):
        tree, cfg = io['tree'], io['cfg']
        if 'ok' not in tree:
            return None                       # the merge itself failed: there is no merged tree
        root = tree['ok']
        if root is None:
            return None
        expected = [NodePath.join_path(list(p)) for p in required_in_dump(root)]
        is_req = cfg.get('err') == 'required'
        if expected and not is_req:
            return (f"the merged tree holds placeholders at {expected} but constructing the config gave "
                    f"{json.dumps({k: v for k, v in cfg.items() if k != 'log'})[:200]}")
        if not expected and is_req:
            return f"no placeholder remains in the merged tree but the config reports {cfg.get('paths')}"
        if is_req:
            got = cfg.get('paths', [])
            if sorted(got) != sorted(expected):
                return f'the error lists {got}, the merged tree holds placeholders at {expected}'
            if len(set(got)) != len(got):
                return f'the error lists a path twice: {got}'
            if cfg.get('log'):
                return f"something was evaluated before the failure: {cfg['log']}"
        return None

    def features(self, case, io):
        f = ['action:' + a for a in case.get('actions', [])] + [f'stages={len(case["docs"])}']
        tree, cfg = io.get('tree', {}), io.get('cfg', {})
        if 'ok' in tree and tree['ok']:
            ps = required_in_dump(tree['ok'])
            f.append('remaining:' + ('0' if not ps else '1' if len(ps) == 1 else '2+'))
            for p in ps:
                f.append('depth:' + str(min(len(p), 4)))
                f.append('under:' + self._parent_kind(tree['ok'], p))
        else:
            f.append('merge:' + str(tree.get('err')))
        f.append('result:' + str(cfg.get('err', 'ok')))
        return f

    @staticmethod
    def _parent_kind(root, p):
        d = root
        for k in p[:-1]:
            d = next(c for kk, c in d['c'] if sc_py(kk) == k)
        return d['k']

    def nontrivial(self, case, io):
        return any(placeholder_paths(d['raw']) for d in case['docs'])


PROP = C14()
