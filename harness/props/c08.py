"""C08 — !notnew (and command-line overrides) can change but never create paths.

Input families: (A) a plain base and an overriding document rooted !notnew; (N) a plain base - or nothing - and a document with
!notnew / !new on any container, in particular inside whole sections the base does not have (the tagged node sits below the root
of a subtree that is created in one piece, or in the first and only document); (B) command-line overrides through
Config.build_from_cmdline; (T) bare option strings through Config.process_cmdline; (D) a base with a protected (!force) entry
next to plain ones and a !notnew override whose mapping at that place is DELETING (!del), as documents and as the option string
`path=!del {...}`: a successful build creates no path, a failing one names a path the override writes and the base lacks.
Oracle for A and N (written_paths): a path may
be created iff the nearest tagged node strictly above it in the document says !new, or there is none; after a successful build
every path that did not exist before is exactly such a written path, a failure is a MergeError, and a document that writes only
existing or creatable paths builds."""
import copy
from props.mergefam import *
from props.c04 import plain_of, val_to_py, get_at, gen_plain_value, set_at

def paths_of_py(o, pre=()):
    out = [pre]
    if isinstance(o, dict):
        for k, v in o.items(): out += paths_of_py(v, pre + (k,))
    elif isinstance(o, list):
        for i, v in enumerate(o): out += paths_of_py(v, pre + (i,))
    return out

def written_paths(raw, pre=(), inherited=True):
    """(path, may_be_created) for every node of a document below its root. Whether a node may be created is decided by
    the nearest tagged node strictly above it: !new yes, !notnew no, none at all (not even the root) yes; a node's own
    tag speaks for its children only."""
    new = (raw.get('kw') or {}).get('new')
    eff = inherited if new is None else new
    children = [(sc_py(k), c) for k, c in raw['m']] if 'm' in raw else list(enumerate(raw['q'])) if 'q' in raw else []
    out = []
    for k, c in children:
        out.append((pre + (k,), eff))
        out += written_paths(c, pre + (k,), eff)
    return out

def norm_path(base, path):
    """normalise negative list indices of `path` against the plain data `base`; None if it does not exist"""
    out, cur = [], base
    for k in path:
        if isinstance(cur, dict):
            if k not in cur: return None
            out.append(k); cur = cur[k]
        elif isinstance(cur, list):
            if not isinstance(k, int) or not (-len(cur) <= k < len(cur)): return None
            k = k % len(cur) if cur else k
            out.append(k); cur = cur[k]
        else:
            return None
    return tuple(out)

def render_cmd_path(path):
    s = ''
    for k in path:
        if isinstance(k, int): s += f'[{k}]'
        else: s += ('.' if s else '') + str(k)
    return s

# ------------------------------------------------------------------------------------------------
# command-line STRINGS: the string step of process_cmdline against AY.Model.Cmdline (driver op c08tokens)
# ------------------------------------------------------------------------------------------------
import yaml as _pyyaml

class _AnyTagLoader(_pyyaml.BaseLoader):
    """BaseLoader (every scalar stays a string) that constructs nodes with application tags (!notnew, !new, ...) as if untagged"""

def _construct_any(loader, suffix, node):
    if isinstance(node, _pyyaml.MappingNode): return loader.construct_mapping(node, deep=True)
    if isinstance(node, _pyyaml.SequenceNode): return loader.construct_sequence(node, deep=True)
    return loader.construct_scalar(node)

_AnyTagLoader.add_multi_constructor('!', _construct_any)

def _flow_value(text):
    """what PyYAML makes of `text` as ONE flow-context node (strings only); ('bad',) when it is not exactly one node"""
    if text == '':
        return ''
    try:
        v = _pyyaml.load('[ ' + text + ' ]', Loader=_AnyTagLoader)
    except _pyyaml.YAMLError:
        return ('bad',)
    return v[0] if isinstance(v, list) and len(v) == 1 else ('bad',)

def _nesting(text):
    """{'path': key texts, 'value': data} of the nested single-key flow mappings `{ k: { k: ... value }}` that
    process_cmdline emits, read back with PyYAML; None when the text does not parse to that shape"""
    ind = len(text) - len(text.rstrip('}'))      # the text ends with value + ' ' + '}' * ind
    try:
        cur = _pyyaml.load(text, Loader=_AnyTagLoader)
    except _pyyaml.YAMLError:
        return None
    path = []
    for _ in range(ind):
        if not isinstance(cur, dict) or len(cur) != 1:
            return None
        (k, cur), = cur.items()
        if not isinstance(k, str):
            return None
        path.append(k)
    return {'path': path, 'value': cur}

def _loader_keys(text):
    """the mapping keys (JSON form) the awesomeyaml loader itself builds along the nesting of `text`; None on failure"""
    from awesomeyaml import yaml as ay_yaml
    ind = len(text) - len(text.rstrip('}'))
    try:
        cur = list(ay_yaml.parse(text))[0]
    except Exception:  # noqa
        return None
    keys = []
    for _ in range(ind):
        if not isinstance(cur, dict) or len(cur) != 1:
            return None
        (k, cur), = cur.items()
        keys.append(native_key(k))
    return keys

def cmdline_obs(opt):
    """implementation side: one option string through the real Config.process_cmdline"""
    try:
        yamls, _names, raws = Config.process_cmdline([opt])
    except (ValueError, IndexError) as e:      # only the inline branch raises: int() of a subscript, key[0] of an empty key
        return {'type': 'inline', 'error': type(e).__name__}
    text, raw = yamls[0], raws[0]
    typ = 'file' if not raw else ('raw' if text == opt else 'inline')    # an inline option never reproduces itself
    obs = {'type': typ, 'text': text, 'raw': raw}
    if typ == 'inline':
        obs['nest'] = _nesting(text)
        obs['keys'] = _loader_keys(text)
    return obs

def cmdline_model_obs(a):
    """the same observable from one answer of the driver op c08tokens:
       {"type":"raw"|"file","text":str,"raw":bool} | {"type":"inline","error":"IndexError"|"ValueError"}
       | {"type":"inline","tagged":bool,"parts":[[name,[int...]]...],"value":str,"path":[key...],"ykeys":[key|null...],"text":str,"raw":true}"""
    if 'error' in a:
        return {'type': a['type'], 'error': a['error']}
    obs = {'type': a['type'], 'text': a['text'], 'raw': a['raw']}
    if a['type'] == 'inline':
        keys, ykeys = [], []
        for (name, idx), yk in zip(a['parts'], a['ykeys']):
            keys.append(name.strip(' ')); keys += [str(i) for i in idx]      # YAML trims the blanks around a plain key
            ykeys.append(yk); ykeys += idx
        v = _flow_value(a['value'])
        obs['nest'] = None if v == ('bad',) else {'path': keys, 'value': v}
        obs['keys'] = None if any(k is None for k in ykeys) else ykeys
    return obs

def compare_cmdline(opt, wf, io, a, want_path=None):
    """None, or how model and implementation differ on the option string `opt`.
    Always compared: option type, exception class, the emitted text character by character, the raw_yaml flag.
    For well-formed options (wf: identifier names, a flow-safe value) also the nesting PyYAML reads from the text against the
    model's tokens, and the keys the awesomeyaml loader builds against tokensToPath / yamlNameKey; want_path: the path the
    spelling was generated from."""
    mo = cmdline_model_obs(a)
    for f in ('type', 'error', 'text', 'raw'):
        if io.get(f) != mo.get(f):
            return f'option {opt!r}: {f} differs: implementation {io.get(f)!r}, model {mo.get(f)!r}'
    if not wf or 'error' in io or io['type'] != 'inline':
        return None
    if io['nest'] is None or mo['nest'] is None or io['nest'] != mo['nest']:
        return f'option {opt!r}: PyYAML reads the emitted text {io["text"]!r} as {io["nest"]!r}, the model tokens give {mo["nest"]!r}'
    if mo['keys'] is not None and io['keys'] != mo['keys']:
        return f'option {opt!r}: the loader builds the keys {io["keys"]!r}, the model (tokensToPath / yamlNameKey) {mo["keys"]!r}'
    got = [k.strip(' ') if isinstance(k, str) else k for k in a['path']]      # YAML trims the blank left in front of a subscript
    if want_path is not None and got != want_path:
        return f'option {opt!r}: spelled for the path {want_path!r}, the model reads {a["path"]!r}'
    return None

_WS = ['', '', '', ' ', '  ']

def spell_index(rng, i):
    """a spelling of the integer i that Python's int() reads back as i: sign, leading zeros, one underscore, blanks"""
    s = str(abs(i))
    r = rng.random()
    if r < 0.15: s = '0' * rng.choice([1, 2]) + s
    elif r < 0.25 and len(s) > 1: s = s[0] + '_' + s[1:]
    sign = '-' if i < 0 else ('+' if rng.random() < 0.15 else '')
    return rng.choice(_WS) + sign + s + rng.choice(_WS)

def spell_override(rng, path, value):
    """a messy spelling of the override of `path` (names and integer indices, first a name) that denotes the same path:
    blanks around '.', around '=', inside the brackets, between a name and its first subscript, at both ends.
    (No blank between two subscripts: that ends the peeling loop of process_cmdline.)"""
    out = rng.choice(_WS)
    for j, k in enumerate(path):
        if isinstance(k, int):
            out += '[' + spell_index(rng, k) + ']'
        else:
            if j: out += rng.choice(_WS) + '.' + rng.choice(_WS)
            out += str(k)
            if j + 1 < len(path) and isinstance(path[j + 1], int): out += rng.choice(['', '', ' '])
    return out + rng.choice(_WS) + '=' + rng.choice(_WS) + value + rng.choice(_WS)

CMD_VALUES = ['7', 'hello', 'null', 'true', '1.5', '[1, 2]', '"q r"', 'k=v', 'x.y', '"a=b.c"', '{p: 1}', '[a.b, c=d]', '-3']
_NAMES = ['a', 'b1', '_x', 'A_9', 'k', 'x', 'n0_', 'Z']
_FUZZ = list('ab1_.=[]{}!- +\n\t0') + ['\x1c', '\xa0', '٣', '　', '１', '_', ']', '[', '=', '.']
_BAD_INDEX = ['', 'x', '1.0', '0x1', '--1', '1_', '_1', '1__0', '- 1', '1 2', '9' * 4301]
_EDGE = ['=5', 'a=', '=', ' = ', '{a: 1}', '{a=1}', ' {a=1} ', '{', '{a=1', 'a=1}', 'a.yaml', ' f.yaml ', 'a[0]b=1', '12]=1', ']=1',
         'a[]=1', 'a[[1]=2', 'a[1]]=2', 'a[0][1=2', 'a[1.0]=1', 'a[0] [1]=2', '!new a.b=5', '!del a=1', 'a.b.=1', '.a=1', 'a..b=1',
         'a=1\n', 'a=1\nb=2', '\na=1', 'a.0=5', 'a.true=1', 'a[' + '1' * 4300 + ']=1', 'a[1' + '_1' * 4300 + ']=1']

def gen_cmdline_strings(rng, n):
    """n option strings with their well-formedness flag and (for the well-formed ones) the path they spell"""
    opts, wf, paths = [], [], []
    for _ in range(n):
        r = rng.random()
        if r < 0.5:        # a well-formed override in a messy spelling
            path = [rng.choice(_NAMES)]
            for _j in range(rng.choice([0, 1, 1, 2, 3, 4])):
                path.append(rng.choice(_NAMES) if rng.random() < 0.5 else rng.choice([0, 1, 2, 10, 12, 305, -1, -2, -17]))
            opts.append(spell_override(rng, path, rng.choice(CMD_VALUES))); wf.append(True); paths.append(path)
        elif r < 0.7:      # a broken subscript somewhere, or text after a subscript
            path = [rng.choice(_NAMES), rng.choice([0, 1, -1]), rng.choice(_NAMES), rng.choice([0, 5])]
            o = spell_override(rng, path, rng.choice(CMD_VALUES))
            j = rng.choice([i for i, c in enumerate(o) if c == ']'])
            b = o.rfind('[', 0, j)
            o = o[:b + 1] + rng.choice(_BAD_INDEX) + o[j:] if rng.random() < 0.7 else o[:j + 1] + rng.choice(['b', ' [1]', '_']) + o[j + 1:]
            opts.append(o); wf.append(False); paths.append(None)
        elif r < 0.9:      # character soup
            opts.append(''.join(rng.choice(_FUZZ) for _j in range(rng.randrange(0, 14)))); wf.append(False); paths.append(None)
        else:
            opts.append(rng.choice(_EDGE)); wf.append(False); paths.append(None)
    return opts, wf, paths

# ------------------------------------------------------------------------------------------------
# (N) arbitrary !notnew / !new placement: sections the base does not have, tags at any depth
# ------------------------------------------------------------------------------------------------
_NEW_KEYS = ['sect', 'fresh', 'extra', 'nw', 'opt']

def resolve_aliases(raw):
    """the document with every alias replaced by a copy of the anchored node (what PyYAML's data is)"""
    anchors = {}
    def collect(n):
        if 'anchor' in n: anchors[n['anchor']] = n
        for c in n.get('q', []): collect(c)
        for _, c in n.get('m', []): collect(c)
    def subst(n):
        if 'alias' in n:
            return subst(anchors[n['alias']]) if n['alias'] in anchors else {'s': {'l': None}}      # (shrunk: the anchor is gone)
        m = {k: v for k, v in n.items() if k != 'anchor'}
        if 'q' in m: m['q'] = [subst(c) for c in m['q']]
        if 'm' in m: m['m'] = [[k, subst(c)] for k, c in m['m']]
        return m
    collect(raw)
    return subst(raw)

def gen_new_subtree(rng, depth):
    """plain content for a path the base does not have: scalars, mappings and lists, `depth` container levels at most"""
    r = rng.random()
    if depth <= 0 or r < 0.3:
        return S(rng.choice([1, 2, 7, 'p', 'q', True, None, 1.5]))
    if r < 0.45:
        return Q([gen_new_subtree(rng, depth - 1) for _ in range(rng.choice([0, 1, 1, 2]))])
    return M([(k, gen_new_subtree(rng, depth - 1)) for k in rng.sample(_NEW_KEYS, rng.choice([0, 1, 1, 2]))])

def place_flags(rng, raw, p_notnew, p_new, root=True):
    """tag the containers of `raw` (in place) with !notnew / !new at random, the root included"""
    if 's' in raw:
        return raw
    r = rng.random()
    pn, pw = (max(p_notnew, 0.3), max(p_new, 0.1)) if root else (p_notnew, p_new)
    if r < pn + pw and not raw.get('kw'):
        raw['kw'] = {'new': r >= pn}; raw['t'] = {'k': 'plain'}
    for c in (raw['q'] if 'q' in raw else [c for _k, c in raw['m']]):
        place_flags(rng, c, p_notnew, p_new, False)
    return raw

def gen_placement_override(rng, bp, ps):
    """an overriding document for the plain data `bp` (None: nothing built so far; ps: its non-root paths) that rewrites
    existing paths, mistypes keys and - mostly - adds whole new sections (nested mappings / lists under keys the base does
    not have, below the root or below an existing path), with !notnew / !new on any of its containers"""
    items = {}
    for _i in range(rng.choice([1, 1, 2, 3])):
        p = list(rng.choice(ps)) if ps and rng.random() < 0.6 else []
        r = rng.random()
        leaf = gen_plain_value(rng, 1)
        if not p or r < 0.65:                 # a new section: one to three new keys, then new content
            p = p + rng.sample(_NEW_KEYS, rng.choice([1, 2, 2, 3]))
            leaf = gen_new_subtree(rng, rng.choice([0, 1, 2]))
        elif r < 0.8:                         # mistype a component
            j = rng.randrange(len(p))
            p = p[:j] + [rng.choice(['typo', 'zz', 9, -7])]
        cur, ok = items, True
        for k in p[:-1]:
            cur = cur.setdefault(k, {})
            if '__leaf__' in cur:
                ok = False; break
        if ok and p[-1] not in cur:
            cur[p[-1]] = {'__leaf__': leaf}
    def build(d):
        return M([(k, v['__leaf__'] if '__leaf__' in v else build(v)) for k, v in d.items()])
    if rng.random() < 0.5:                    # exactly one !notnew, anywhere
        o = build(items)
        cs = [n for _p, n in G.paths_of(o) if 's' not in n]
        n = rng.choice(cs)
        n['kw'] = {'new': False}; n['t'] = {'k': 'plain'}
        return o
    return place_flags(rng, build(items), 0.2, 0.1)

# ------------------------------------------------------------------------------------------------
# (D) deleting nodes inside a !notnew override, next to a protected sibling
# ------------------------------------------------------------------------------------------------
_D_KEYS = ['opt', 'sched', 'wd', 'aug', 'lr', 'mom']
_D_NEW = ['lrr', 'optt', 'fresh', 'zz']

def _d_sub(rng, depth):
    """unprotected content: scalars and mappings (no list, no tag)"""
    if depth <= 0 or rng.random() < 0.4:
        return S(rng.choice([1, 2, 7, 'adam', True, 0.5]))
    return M([(k, _d_sub(rng, depth - 1)) for k in rng.sample(_D_KEYS, rng.choice([1, 2, 3]))])

def _d_restate(rng, raw, new_left):
    """restate part of the unprotected subtree `raw` with other values (scalars stay scalars, mappings mappings); while
    new_left[0] > 0, now and then write a key the base does not have, at this level"""
    if 's' in raw:
        return S(rng.choice([3, 4, 'sgd', False]))
    items = [(sc_py(k), _d_restate(rng, c, new_left)) for k, c in raw['m'] if rng.random() < 0.75]
    if new_left[0] > 0 and rng.random() < 0.5:
        new_left[0] -= 1
        items.insert(rng.randrange(len(items) + 1), (rng.choice(_D_NEW), _d_sub(rng, rng.choice([0, 0, 1]))))
    return M(items)

def gen_del_case(rng):
    """base `{w: {m: {keep: !force 1, opt: {lr: 1}, ..}}, z: 0}` (0-2 wrappers above m) and the override
    `!notnew {w: {m: !del {opt: {lr: 2, lrr: 3}}}}`: the mapping at m is deleting, it restates some of the unprotected entries of m
    (other values, sub-mappings in part) and writes 0-2 keys the base does not have, at its own level or deeper; mostly next to
    protected (!force) siblings, which survive the pruning; handed over as two documents or as `w.m=!del {...}`"""
    prefix = rng.sample(['w', 'v', 'u'], rng.choice([0, 0, 1, 2]))
    entries = [(k, _d_sub(rng, rng.choice([0, 1, 1, 2]))) for k in rng.sample(_D_KEYS, rng.choice([1, 2, 3]))]
    prot = [('keep', S(rng.choice([1, 'x']), kw={'prio': 1}))] if rng.random() < 0.85 else []
    if prot and rng.random() < 0.25:
        prot.append(('keep2', M([('a', S(1))], kw={'prio': 1})))
    items = prot + entries
    rng.shuffle(items)
    base = G.nest(prefix + ['m'], M(items))
    base['m'].append([sc_json('z'), S(0)])
    new_left = [rng.choice([0, 0, 1, 1, 2])]
    body = _d_restate(rng, M(entries), new_left)
    while new_left[0] > 0:                    # the remaining new keys: at the level of the deleting mapping itself
        new_left[0] -= 1
        k = rng.choice(_D_NEW)
        if all(sc_py(k2) != k for k2, _ in body['m']):
            body['m'].insert(rng.randrange(len(body['m']) + 1), [sc_json(k), _d_sub(rng, rng.choice([0, 1]))])
    # a NEW key of the deleting mapping whose text spells a nested path that the pruning removes (`m: !del {'opt.lr': 5}` over
    # `m: {opt: {lr: 1}}`): one key, not the nested path - it is new and must be refused (seeded change S7-C08: paths compared as text)
    nested = [pth for pth, nd in G.paths_of(M(entries)) if len(pth) >= 2 and all(isinstance(x, str) for x in pth)]
    if nested and rng.random() < 0.3:
        k = '.'.join(rng.choice(nested))
        if all(sc_py(k2) != k for k2, _ in body['m']):
            body['m'].insert(rng.randrange(len(body['m']) + 1), [sc_json(k), S(rng.choice([5, 'v']))])
    value = M([(sc_py(k), c) for k, c in body['m']], kw={'del': True})
    over = G.nest(prefix + ['m'], value)
    over['kw'] = {'new': False}; over['t'] = {'k': 'plain'}
    case = {'docs': [{'raw': base}, {'raw': over}], 'style': ['flow', 0, 0], 'kind': 'D'}
    if rng.random() < 0.5:
        case = {'docs': [{'raw': base}], 'style': ['flow', 0, 0], 'kind': 'D', 'over': over,
                'cmd': [render_cmd_path(prefix + ['m']) + '=' + render_flow(value).strip()]}
    return case

def gen_fn_case(rng):
    """(F) a function node below a !notnew root: base `{..: {opt: !bind:F {a: x, b: y}, k: 1}}`, override `!notnew {..: {opt: !call:G {..}}}`
    with the same or ANOTHER target, restating some arguments and writing 0-2 argument names the base does not have: arguments are
    paths like any other (seeded change S5-C08: a target change returned early, before the allow_new check of the incoming arguments)"""
    prefix = rng.sample(['w', 'v'], rng.choice([0, 0, 1]))
    f1, f2 = rng.choice(['rec.f', 'rec.g']), rng.choice(['rec.f', 'rec.g'])
    k1, k2 = rng.choice(['call', 'bind']), rng.choice(['call', 'bind'])
    args = rng.sample(['a', 'b', 'p', 'q'], rng.choice([1, 2, 3]))
    scalar_base = rng.random() < 0.25
    if scalar_base:
        # the key holds a SCALAR so far: a function node written over it below !notnew brings arguments, every one of them a new path
        # (seeded change S9-C08: the check of what a replacement brings along was skipped for nodes that call themselves leaves)
        args = []
        base = G.nest(prefix + ['opt'], S(rng.choice([5, 'adam', True])))
    else:
        base = G.nest(prefix + ['opt'], M([(a, S(rng.choice([1, 'x', True]))) for a in args], tag={'k': k1, 'f': f1}))
    base['m'].append([sc_json('k'), S(1)])
    keep = [a for a in args if rng.random() < 0.6]
    new = rng.sample(['start', 'zz', 'n2'], rng.choice([0, 0, 1, 1, 2]) if not scalar_base else rng.choice([1, 1, 2]))
    items = [(a, S(rng.choice([2, 'y', None]))) for a in keep + new]
    rng.shuffle(items)
    over = G.nest(prefix + ['opt'], M(items, tag={'k': k2, 'f': f2}, kw=rng.choice([{}, {}, {'del': False}, {'prio': 1}])))
    over['kw'] = {'new': False}; over['t'] = {'k': 'plain'}
    okw = over
    for k in prefix + ['opt']:
        okw = next(c for kk, c in okw['m'] if sc_py(kk) == k)
    return {'docs': [{'raw': base}, {'raw': over}], 'style': ['flow', 0, 0], 'kind': 'F', 'fnpath': prefix + ['opt'], 'old': args, 'new': new,
            'incoming': keep + new, 'replaces': scalar_base or (f1 != f2 and (okw.get('kw') or {}).get('del') is not False)}

class C08(MergeFamProp):
    ID = 'C08'
    VOCAB = G.Vocab(notnew=True, new=True)
    RULE = ('a random plain base document followed by (A) an overriding document rooted !notnew that rewrites existing paths, mistypes keys '
            'at random depths, addresses lists by existing / out-of-range / negative indices and re-allows creation below nested !new nodes, '
            'or (N) an overriding document - or a first and only document, checked against the empty config - that rewrites existing paths, '
            'mistypes keys and mostly adds whole new sections (nested mappings / lists under keys the base does not have, below the root or '
            'below an existing path) with !notnew / !new on any of its containers (half of them: exactly one !notnew anywhere, else each '
            'container tagged at random, root included), so that tagged nodes sit below the root of a subtree created in one piece, '
            'or (B) command-line overrides a.b[i].c=value (existing and mistyped paths, scalar and list values; spelled with random blanks '
            "around '.', '=', inside brackets, signs / leading zeros / underscores in indices, values containing '=' and '.') through "
            'Config.build_from_cmdline, or (T) bare option strings (well-formed overrides in messy spellings, broken subscripts, '
            'character soup, edge cases) through Config.process_cmdline alone; for (B) and (T) the model tokenises the very same '
            'strings (driver op c08tokens) and must reproduce the option type, the exception class and the emitted YAML text character by '
            'character, and for well-formed options the nesting PyYAML reads from that text; '
            'or (D) a base {..: {m: {keep: !force 1, opt: {lr: 1}, ..}}} and a !notnew override whose mapping at m is deleting (!del) and restates '
            'part of the unprotected entries with 0-2 keys the base lacks at random depth (0-2 wrappers above m, mostly a protected sibling, '
            'sometimes none: early exit), as two documents or as the option string `path=!del {...}` through Config.build_from_cmdline; '
            'non-trivial = the override touches at least one existing path; distinct by SHA-1')
    ASSUMPTIONS = ['between the YAML text emitted by process_cmdline (modelled: AY.Model.Cmdline.emitText) and the override document '
                   '(modelled: emitDoc / c08_rawDoc) sits PyYAML, which is compared at run time, not verified']

    def corpus(self):
        D = lambda kind, *raws, **kw: dict({'docs': [{'raw': r} for r in raws], 'style': ['flow', 0, 0], 'kind': kind}, **kw)
        base = M({'a': M({'b': Q([M({'c': S(1), 'd': S(2)}), S(5)]), 'e': S('x')}), 'f': S(3)})
        return [
            D('A', base, M({'a': M({'e': S('y')})}, kw={'new': False})),
            D('A', base, M({'a': M({'typo': S('y')})}, kw={'new': False})),
            D('A', base, M({'a': M({'n': M({'deep': S(1)}, kw={'new': True})})}, kw={'new': False})),
            # (N) tags below the root of a created subtree; the first two must fail naming sect.fresh.extra / evaluation.sched.warmup
            D('N', M({'sect': M({'fresh': M({'extra': M({})}, kw={'new': False})})})),
            D('N', M({'train': M({'lr': S(1)})}), M({'evaluation': M({'sched': M({'warmup': S(5)}, kw={'new': False})})})),
            D('N', M({'train': M({'lr': S(1)})}), M({'evaluation': M({'sched': M({}, kw={'new': False})}), 'train': M({'lr': S(2)}, kw={'new': False})})),
            D('N', M({'train': M({'lr': S(1)})}), M({'nw': M({'s': M({'w': M({'v': S(1)})}, kw={'new': True})}, kw={'new': False})})),
            D('N', M({'train': M({'lr': S(1)})}), M({'train': M({'opt': Q([M({'v': S(1)})])}, kw={'new': True})}, kw={'new': False})),
            D('N', M({'nw': Q([M({'z': S(1)}, kw={'new': False})])})), D('N', M({}, kw={'new': False})), D('N', M({'a': S(1)}, kw={'new': False})),
            # (D) the deleting mapping next to a protected sibling: m.opt.lrr must be named; restating what was there must build
            D('D', M({'m': M({'keep': S(1, kw={'prio': 1}), 'opt': M({'lr': S(1)})})}),
              M({'m': M({'opt': M({'lr': S(2), 'lrr': S(3)})}, kw={'del': True})}, kw={'new': False})),
            D('D', M({'m': M({'keep': S(1, kw={'prio': 1}), 'opt': M({'lr': S(1)})})}),
              M({'m': M({'opt': M({'lr': S(2)})}, kw={'del': True})}, kw={'new': False})),
            D('D', M({'m': M({'keep': S(1, kw={'prio': 1}), 'opt': M({'lr': S(1)})})}), cmd=['m=!del {opt: {lr: 2, lrr: 3}}'],
              over=M({'m': M({'opt': M({'lr': S(2), 'lrr': S(3)})}, kw={'del': True})}, kw={'new': False})),
            D('D', M({'m': M({'keep': S(1, kw={'prio': 1}), 'opt': M({'lr': S(1)})})}), cmd=['m=!del {opt: {lr: 2}}'],
              over=M({'m': M({'opt': M({'lr': S(2)})}, kw={'del': True})}, kw={'new': False})),
            D('D', M({'m': M({'opt': M({'lr': S(1)})})}), M({'m': M({'optt': S(2)}, kw={'del': True})}, kw={'new': False})),
            # D52 (recorded finding): an untagged mapping placed twice by an anchor / alias below !notnew shares its CHILD nodes; the first
            # merge re-parents them (inherited allow_new of the destination), so the second placement may create them
            D('AL', M({'a': M({'k': S(0)}), 'b': M({})}), M([('a', dict(M({'k': S(1)}), anchor='x')), ('b', {'alias': 'x'})], kw={'new': False})),
            D('B', base, cmd=['a.b[0].c=7']), D('B', base, cmd=['a.b[0].x=7']), D('B', base, cmd=['a.b[-1]=[1, 2]', 'f=null']),
            D('B', base, cmd=['a.b[2]=1']),
            D('B', base, cmd=['a.b[0].c=7', 'a.e=k=v'], spell=[' a . b [ +0 ] . c = 7 ', 'a.e = k=v']),
            {'docs': [], 'style': ['flow', 0, 0], 'kind': 'T', 'opts': list(_EDGE), 'wf': [False] * len(_EDGE), 'paths': [None] * len(_EDGE)},
            {'docs': [], 'style': ['flow', 0, 0], 'kind': 'T', 'opts': [' a . b1 [ 0 ][-1] = x=y.z ', 'a[007][1_0].k={p: 1}'], 'wf': [True, True],
             'paths': [['a', 'b1', 0, -1], ['a', 7, 10, 'k']]},
        ]

    def gen_cases(self, rng, n, tier):
        out = []
        for _ in range(n):
            base = M([(k, gen_plain_value(rng, 3)) for k in rng.sample(['a', 'b', 'c', 'k', 'x'], rng.choice([2, 3, 4]))])
            bp = plain_of(base)
            ps = [p for p in paths_of_py(bp) if p]
            kind = rng.choice(['A', 'A', 'B', 'T'])
            if kind == 'A':
                items = {}
                for _i in range(rng.choice([1, 1, 2, 3])):
                    p = list(rng.choice(ps))
                    r = rng.random()
                    leaf = gen_plain_value(rng, 1)
                    if r < 0.25:      # mistype a component
                        j = rng.randrange(len(p))
                        p = p[:j] + [rng.choice(['typo', 'zz', 9, -7])]
                    elif r < 0.4:     # one level deeper than exists
                        p = p + [rng.choice(['more', 0])]
                    elif r < 0.55:    # create below a !new node
                        leaf = M([('fresh', gen_plain_value(rng, 1))], kw={'new': True})
                        p = p[:max(1, len(p) - 1)] + ['created']
                    elif r < 0.65 and isinstance(get_at(bp, p), list):
                        leaf = Q([gen_plain_value(rng, 0) for _ in range(rng.choice([0, 1, 2, 4]))])
                    if isinstance(p[-1], int) and rng.random() < 0.3 and isinstance(get_at(bp, p[:-1]), list):
                        p[-1] = p[-1] - len(get_at(bp, p[:-1]))     # negative spelling of the same index
                    cur = items
                    ok = True
                    for k in p[:-1]:
                        nxt = cur.get(k)
                        if nxt is None:
                            nxt = {}; cur[k] = nxt
                        if '__leaf__' in nxt:
                            ok = False; break
                        cur = nxt
                    if ok and p[-1] not in cur:
                        cur[p[-1]] = {'__leaf__': leaf}
                def build(d):
                    return M([(k, v['__leaf__'] if '__leaf__' in v else build(v)) for k, v in d.items()])
                o = build(items)
                o['kw'] = {'new': False}; o['t'] = {'k': 'plain'}
                out.append({'docs': [{'raw': base}, {'raw': o}], 'style': ['flow', 0, 0], 'kind': 'A'})
            elif kind == 'T':
                opts, wf, paths = gen_cmdline_strings(rng, rng.choice([4, 8, 12]))
                out.append({'docs': [], 'style': ['flow', 0, 0], 'kind': 'T', 'opts': opts, 'wf': wf, 'paths': paths})
            else:
                cmds, spell = [], []
                for _i in range(rng.choice([1, 1, 2])):
                    p = list(rng.choice(ps))
                    if not isinstance(p[0], str):
                        continue
                    if rng.random() < 0.3:
                        j = rng.randrange(len(p))
                        p = p[:j] + [rng.choice(['typo', 9])] if j > 0 else p + ['typo']
                    v = rng.choice(['7', 'hello', 'null', 'true', '1.5', '[1, 2]', '"q r"', 'k=v', 'x.y', '"a=b.c"'])
                    cmds.append(render_cmd_path(p) + '=' + v)
                    spell.append(spell_override(rng, p, v) if rng.random() < 0.7 else cmds[-1])
                if cmds:
                    out.append({'docs': [{'raw': base}], 'style': ['flow', 0, 0], 'kind': 'B', 'cmd': cmds, 'spell': spell})
        for _ in range(n // 4):       # (N), drawn after the others so that they are the same for a seed as before
            if rng.random() < 0.25:   # the document is the first and only one: everything it contains is new
                out.append({'docs': [{'raw': gen_placement_override(rng, None, [])}], 'style': ['flow', 0, 0], 'kind': 'N'})
                continue
            base = M([(k, gen_plain_value(rng, 3)) for k in rng.sample(['a', 'b', 'c', 'k', 'x'], rng.choice([1, 2, 3]))])
            bp = plain_of(base)
            o = gen_placement_override(rng, bp, [p for p in paths_of_py(bp) if p])
            out.append({'docs': [{'raw': base}, {'raw': o}], 'style': ['flow', 0, 0], 'kind': 'N'})
        for _ in range(max(4, n // 5)):   # (D), drawn last: the cases above stay the same for a seed
            out.append(gen_del_case(rng))
        for _ in range(max(4, n // 8)):   # (F), after them
            out.append(gen_fn_case(rng))
        for _ in range(max(3, n // 12)):  # (AL), after them
            out.append(self.gen_alias_case(rng))
        return out

    def finding_key(self, case, desc):
        # D52: child nodes shared through a YAML alias lose the inherited allow_new=False when the first placement is merged
        if case.get('kind') == 'AL' and desc and 'created the path' in desc:
            return 'alias-shared-node-under-notnew'
        return None

    @staticmethod
    def gen_alias_case(rng):
        """kind AL (oracle only: node sharing is outside the model): a !notnew override that places one anchored plain mapping
        under two or three keys of the base; some placements exist in full, some lack an entry"""
        ks = rng.sample(['a', 'b', 'c', 'k', 'x'], rng.choice([2, 3]))
        inner = rng.sample(['p', 'q', 'k'], rng.choice([1, 2]))
        base_items = []
        for i, k in enumerate(ks):
            have = [n for n in inner if rng.random() < (0.9 if i == 0 else 0.5)]
            base_items.append((k, M([(n, S(rng.randrange(9))) for n in have])))
        shared = M([(n, S(10 + rng.randrange(9))) for n in inner])
        order = list(ks); rng.shuffle(order)
        items = [(order[0], dict(shared, anchor='x'))] + [(k, {'alias': 'x'}) for k in order[1:]]
        return {'docs': [{'raw': M(base_items)}, {'raw': M(items, kw={'new': False})}], 'style': ['flow', 0, 0], 'kind': 'AL'}

    def cmd_docs(self, case):
        """the documents equivalent to the command-line overrides (what process_cmdline is specified to produce)"""
        import yaml as pyyaml
        if case.get('kind') == 'D':       # the value carries a tag: the equivalent document was generated along with the string
            return [{'raw': case['over']}]
        docs = []
        for c in case['cmd']:
            key, val = c.split('=', 1)
            path = [sc_py(k) for k in NodePath.get_list_path(key)]
            v = pyyaml.safe_load(val)
            def to_raw(x):
                if isinstance(x, list): return Q([to_raw(y) for y in x])
                if isinstance(x, dict): return M([(k, to_raw(y)) for k, y in x.items()])
                return S(x)
            d = G.nest(path, to_raw(v))
            d['kw'] = {'new': False}; d['t'] = {'k': 'plain'}
            docs.append({'raw': d})
        return docs

    def impl(self, case):
        if case.get('kind') == 'T':
            return {'cmdline': [cmdline_obs(o) for o in case['opts']]}
        if not (case.get('kind') == 'B' or (case.get('kind') == 'D' and case.get('cmd'))):
            return super().impl(case)
        text = render_doc(case['docs'][0]['raw'])
        spell = case.get('spell', case['cmd'])      # the strings actually handed to the implementation
        try:
            cfg = Config.build_from_cmdline('{ ' + text.strip()[1:-1] + ' }' if False else text, *spell)
            from evalrun import conv_val, renumber, WorldImpl
            with WorldImpl(self.WORLD) as w:
                r = {'ok': renumber(conv_val(cfg, w, {})), 'log': []}
        except Exception as e:  # noqa
            r = classify_error(e); r['log'] = []
        full = case['docs'] + self.cmd_docs(case)
        return {'tree': impl_merge(full), 'cfg': r, 'cfg_docs': impl_config(full, self.WORLD), 'cmdline': [cmdline_obs(o) for o in spell]}

    def model_requests(self, case):
        if case.get('kind') == 'AL':
            return []
        if case.get('kind') == 'T':
            return [{'op': 'c08tokens', 'options': case['opts']}]
        docs = case['docs'] + (self.cmd_docs(case) if case.get('cmd') else [])
        reqs = [{'op': 'merge', 'docs': docs}, {'op': 'config', 'docs': docs, 'world': self.WORLD}]
        if case.get('kind') == 'B':
            reqs.append({'op': 'c08tokens', 'options': case.get('spell', case['cmd'])})
        return reqs

    def model_obs(self, case, answers):
        if case.get('kind') == 'AL':
            return {'shared': True}
        if case.get('kind') == 'T':
            return {'tokens': answers[0]}
        mo = super().model_obs(case, answers)
        if len(answers) > 2:
            mo['tokens'] = answers[2]
        return mo

    def compare(self, case, io, mo):
        kind = case.get('kind')
        if kind == 'AL':
            return 'SKIP'          # node sharing (YAML anchors / aliases) is outside the model's domain: oracle only
        if kind in ('B', 'T'):
            tk = mo['tokens']
            if 'ok' not in tk:
                return f'driver op c08tokens failed: {json.dumps(tk)[:200]}'
            if kind == 'T':
                opts, wf, paths = case['opts'], case['wf'], case['paths']
            else:       # the path every spelling must denote: the one of the canonical command
                opts = case.get('spell', case['cmd'])
                wf = [True] * len(opts)
                paths = [[sc_py(k) for k in NodePath.get_list_path(c.split('=', 1)[0])] for c in case['cmd']]
            for o, w, p, i, a in zip(opts, wf, paths, io['cmdline'], tk['ok']):
                d = compare_cmdline(o, w, i, a, p)
                if d:
                    return 'command line: ' + d
            if kind == 'T':
                return None
        return super().compare(case, io, mo)

    def oracle_del(self, case, io):
        """(D): a successful build creates no path that did not exist before; a failing one is a MergeError naming a path that the
        override writes and the base lacks"""
        cfg = io['cfg']
        over = case['over'] if case.get('cmd') else (case['docs'][1]['raw'] if len(case['docs']) == 2 else None)
        if over is None or (over.get('kw') or {}).get('new') is not False:
            return None       # shrunk out of the family: the root is no longer !notnew
        if case.get('cmd'):
            d = first_diff({k: v for k, v in cfg.items() if k != 'log'}, {k: v for k, v in io['cfg_docs'].items() if k != 'log'})
            if d:
                return 'build_from_cmdline differs from merging the equivalent !notnew document: ' + d
        base = plain_of(case['docs'][0]['raw'])
        bpaths = set(paths_of_py(base))
        wp = {p for p, _ in written_paths(over)}
        if 'ok' in cfg:
            got = val_to_py(strip_ids(cfg['ok']))
            created = sorted(set(paths_of_py(got)) - bpaths, key=str)
            if created:
                return (f'the build succeeded but created the path {list(created[0])}, which did not exist before, below a !notnew root '
                        f'(deleting mapping: a restated key is restored, a new one must be refused)')
            return None
        if cfg.get('err') != 'merge':
            return f'a !notnew override that cannot be applied must be a MergeError, got {cfg.get("err")}'
        named = cfg.get('notnew')
        if named is None:
            return 'the MergeError names no path (mappings only: no index validation involved)'
        try:
            p = tuple(sc_py(k) for k in NodePath.get_list_path(named))
        except Exception:
            return f'MergeError names an unparsable path {named!r}'
        # the message holds the path as text: a single key such as 'opt.lr' reads like the nested path
        same_text = [q for q in wp if NodePath.join_path(list(q)) == NodePath.join_path(list(p))]
        if p not in wp and not same_text:
            return f'MergeError names {named!r}, which the override does not write'
        if all(q in bpaths for q in ([p] if p in wp else []) + same_text):
            return f'MergeError names {named!r}, which exists in the base config'
        return None

    def oracle_fn(self, case, io):
        """(F): below a !notnew root a function node gets no argument it did not have; a refused override is a MergeError naming
        one of the new arguments"""
        if len(case['docs']) != 2 or (case['docs'][1]['raw'].get('kw') or {}).get('new') is not False:
            return None       # shrunk out of the family
        tree, cfg = io['tree'], io['cfg']
        fnp, old, new = case['fnpath'], case['old'], case['new']
        if 'ok' in tree:
            n = tree['ok']
            for k in fnp:
                n = next((c for kk, c in n.get('c', []) if sc_py(kk) == k), None) if n else None
            if n is None:
                return None
            created = [sc_py(k) for k, _ in n.get('c', []) if sc_py(k) not in old]
            if created:
                return (f'the merge succeeded and the function node at {".".join(fnp)} has the argument(s) {created}, which did not exist '
                        f'before, below a !notnew root')
            return None
        if new and tree.get('err') == 'merge' and tree.get('notnew') is not None:
            try:
                p = [sc_py(k) for k in NodePath.get_list_path(tree['notnew'])]
            except Exception:
                return f'MergeError names an unparsable path {tree["notnew"]!r}'
            # a different target drops the old arguments (documented merge table) unless told to !merge: every incoming argument is new then
            allowed = case['incoming'] if case['replaces'] else new
            if p[:-1] != fnp or p[-1] not in allowed:
                return f'MergeError names {tree["notnew"]!r}, expected one of the arguments {allowed} of {".".join(fnp)} that do not exist there'
        return None

    def oracle(self, case, io, ans):
        kind = case.get('kind')
        if kind == 'D':
            return self.oracle_del(case, io)
        if kind == 'F':
            return self.oracle_fn(case, io)
        if kind == 'AL':
            case = dict(case, docs=[{'raw': resolve_aliases(d['raw'])} for d in case['docs']])
            kind = 'A'
        if kind not in ('A', 'B', 'N'):
            return None
        cfg = io['cfg']
        docs = case['docs']
        if not 1 <= len(docs) <= 2:
            return None
        # what was built before the last document: the plain base, or nothing at all (only the root path exists)
        base = plain_of(docs[0]['raw']) if len(docs) == 2 or kind == 'B' else None
        bpaths = set(paths_of_py(base)) if base is not None else {()}
        if kind == 'B':
            d = first_diff({k: v for k, v in cfg.items() if k != 'log'}, {k: v for k, v in io['cfg_docs'].items() if k != 'log'})
            if d:
                return 'build_from_cmdline differs from merging the equivalent !notnew document: ' + d
            exp = copy.deepcopy(base)
            import yaml as pyyaml
            ok = True
            for c in case['cmd']:
                key, val = c.split('=', 1)
                p = norm_path(exp, [sc_py(k) for k in NodePath.get_list_path(key)])
                if p is None:
                    ok = False; break
                v = pyyaml.safe_load(val)
                if isinstance(v, list) and isinstance(get_at(exp, p), list) and len(v) > len(get_at(exp, p)):
                    ok = False; break      # a longer list would create new element paths
                if isinstance(v, list) and not isinstance(get_at(exp, p), list) and len(v) > 0:
                    ok = False; break
                set_at(exp, list(p), v)
            if ok:
                if 'ok' not in cfg:
                    return f'override of existing paths {case["cmd"]} failed: {json.dumps({k: v for k, v in cfg.items() if k != "log"})[:160]}'
                got = val_to_py(strip_ids(cfg['ok']))
                if got != exp:
                    return f'override {case["cmd"]}: expected exactly those paths to change: {json.dumps(exp, default=str)[:140]}, got {json.dumps(got, default=str)[:140]}'
            else:
                if 'ok' in cfg:
                    return f'a mistyped / non-existing override path {case["cmd"]} was accepted and created content'
                if cfg.get('err') != 'merge':
                    return f'a mistyped override path must be a MergeError, got {cfg.get("err")}'
            return None
        # kinds A, N: the last document carries the tags; a single document is checked against an empty config
        over = docs[-1]['raw']
        wp = written_paths(over)
        missing = [p for p, an in wp if not an and norm_path(base, p) is None]     # written, not there, may not be created
        if 'ok' in cfg:
            got = val_to_py(strip_ids(cfg['ok']))
            gpaths = set(paths_of_py(got))
            allowed = {norm_path(got, p) for p, an in wp if an}
            for p in sorted(gpaths - bpaths, key=str):
                if p not in allowed:
                    return (f'the merge succeeded but created the path {list(p)}, which did not exist before and is written below a !notnew node '
                            f'(not re-allowed by a !new in between)' if any(norm_path(got, q) == p for q, _ in wp) else
                            f'the merge succeeded but created the path {list(p)} that did not exist before and that the document does not write')
        else:
            if cfg.get('err') != 'merge':
                return f'a merge that creates paths below !notnew must fail with a MergeError, and plain documents fail in no other way; got {cfg.get("err")}'
            named = cfg.get('notnew')
            if named is not None and cfg.get('err') == 'merge' and len(docs) == 2 and (over.get('kw') or {}).get('new') is False:
                try:
                    p = [sc_py(k) for k in NodePath.get_list_path(named)]
                except Exception:
                    return f'MergeError names an unparsable path {named!r}'
                from props.c15 import C15 as _C15
                if _C15.has_alias_keys(docs[1:]):
                    return None     # two keys of one mapping address the same list position: the earlier one may have replaced what the later one names
                if norm_path(base, p) is not None and not any(list(q[:len(p)]) == p and a for q, a in wp):
                    # the named path exists in the base: only acceptable when a list is replaced by a longer one (element paths)
                    if not isinstance(get_at(base, list(norm_path(base, p))), list):
                        return f'MergeError names {named!r}, which exists in the base config'
            # completeness: if every written path exists or may be created the merge must succeed
            # (a mapping merged into a list of the base addresses positions: keys other than existing indices are errors of their own)
            def in_base_list(p):
                q = norm_path(base, p[:-1])
                return q is not None and isinstance(get_at(base, list(q)), list) and norm_path(base, p) is None
            if not missing and not any('q' in n for _, n in G.paths_of(over)) and not any(in_base_list(p) for p, _ in wp):
                return ('every path written by the document exists in the base or may be created, yet the merge failed: '
                        f'{json.dumps({k: v for k, v in cfg.items() if k != "log"})[:160]}')
        return None

    def render(self, case):
        r = super().render(case)
        if case.get('kind') == 'T':
            return r + ['option: ' + repr(o) for o in case['opts']]
        return r + (['cmdline: ' + ' '.join(repr(o) for o in case.get('spell', case['cmd']))] if case.get('cmd') else [])

    def features(self, case, io):
        f = super().features(case, io) + ['kind:' + str(case.get('kind'))]
        if case.get('kind') in ('A', 'N') and case['docs']:
            over = case['docs'][-1]['raw']
            base = plain_of(case['docs'][0]['raw']) if len(case['docs']) == 2 else None
            f.append('root:' + {None: 'untagged', True: '!new', False: '!notnew'}[(over.get('kw') or {}).get('new')])
            if len(case['docs']) == 1: f.append('first-and-only-document')
            for p, n in G.paths_of(over):
                if p and (n.get('kw') or {}).get('new') is False and ('m' in n or 'q' in n):
                    new_above = [i for i in range(1, len(p) + 1) if norm_path(base, p[:i]) is None]
                    f.append('!notnew:on-a-new-path' if new_above and new_above[0] == len(p) else
                             '!notnew:inside-a-new-section' if new_above else '!notnew:on-an-existing-path')
        if case.get('kind') == 'D':
            over = case['over'] if case.get('cmd') else (case['docs'][1]['raw'] if len(case['docs']) == 2 else None)
            if over is not None:
                bpaths = set(paths_of_py(plain_of(case['docs'][0]['raw'])))
                nnew = len([p for p, _ in written_paths(over) if p not in bpaths and p[:-1] in bpaths])
                f.append(f'D:new-keys={min(nnew, 2)}')
                f.append('D:option-string' if case.get('cmd') else 'D:documents')
                f.append('D:protected-sibling' if any((n.get('kw') or {}).get('prio') for _, n in G.paths_of(case['docs'][0]['raw'])) else 'D:nothing-protected')
        for o in (io.get('cmdline') or []) if isinstance(io, dict) else []:
            f.append('option:' + o['type'] + ('/' + o['error'] if 'error' in o else ''))
        if case.get('spell') and case['spell'] != case['cmd']:
            f.append('cmdline:messy-spelling')
        return f

    def shrink(self, case):
        if case.get('kind') == 'F':
            return            # the case carries what the generator knows about it (old / new argument names): not shrunk
        if case.get('kind') == 'T':
            n = len(case['opts'])
            for i in range(n):
                if n > 1:
                    yield dict(case, opts=case['opts'][:i] + case['opts'][i + 1:], wf=case['wf'][:i] + case['wf'][i + 1:],
                               paths=case['paths'][:i] + case['paths'][i + 1:])
            for i, o in enumerate(case['opts']):
                for j in range(len(o)):     # drop one character (the option is then no longer known to be well-formed)
                    yield dict(case, opts=case['opts'][:i] + [o[:j] + o[j + 1:]] + case['opts'][i + 1:],
                               wf=case['wf'][:i] + [False] + case['wf'][i + 1:], paths=case['paths'][:i] + [None] + case['paths'][i + 1:])
            return
        if case.get('kind') == 'D' and case.get('cmd'):
            yield {'docs': case['docs'] + [{'raw': case['over']}], 'style': case['style'], 'kind': 'D'}
            return
        for c in super().shrink(case):
            if case.get('spell'):
                c = {k: v for k, v in c.items() if k != 'spell'}      # shrunk documents keep the canonical spelling
            yield c

    def nontrivial(self, case, io):
        return True

PROP = C08()
