"""C08 — !notnew (and command-line overrides) can change but never create paths."""
import copy
from props.mergefam import *
from props.c04 import plain_of, val_to_py, get_at, gen_plain_value, set_at

def paths_of_py(o, pre=()):
    out = [pre]
    if isinstance(o, dict):
        for k, v in o.items(): out += paths_of_py(v, pre + (k,))
    elif isinstance(o, list):
        for i, v in enumerate(o): out += paths_of_py(v, pre + (i,))
    return out

def written_paths(raw, pre=(), under_new=False):
    """(path, allowed_new) for every node of the overriding document below its root"""
    out = []
    kw = raw.get('kw') or {}
    un = under_new
    if 'm' in raw:
        for k, c in raw['m']:
            p = pre + (sc_py(k),)
            out.append((p, un or kw.get('new') is True))
            out += written_paths(c, p, (un or kw.get('new') is True) and (c.get('kw') or {}).get('new') is not False)
    elif 'q' in raw:
        for i, c in enumerate(raw['q']):
            p = pre + (i,)
            out.append((p, un or kw.get('new') is True))
            out += written_paths(c, p, un or kw.get('new') is True)
    return out

def norm_path(base, path):
    """normalise negative list indices of `path` against the plain data `base`; None if it does not exist"""
    out, cur = [], base
    for k in path:
        if isinstance(cur, dict):
            if k not in cur: return None
            out.append(k); cur = cur[k]
        elif isinstance(cur, list):
            if not isinstance(k, int) or not (-len(cur) <= k < len(cur)): return None
            k = k % len(cur) if cur else k
            out.append(k); cur = cur[k]
        else:
            return None
    return tuple(out)

def render_cmd_path(path):
    s = ''
    for k in path:
        if isinstance(k, int): s += f'[{k}]'
        else: s += ('.' if s else '') + str(k)
    return s

class C08(MergeFamProp):
    ID = 'C08'
    VOCAB = G.Vocab(notnew=True, new=True)
    RULE = ('a random plain base document followed by (A) an overriding document rooted !notnew that rewrites existing paths, mistypes keys '
            'at random depths, addresses lists by existing / out-of-range / negative indices and re-allows creation below nested !new nodes, '
            'or (B) command-line overrides a.b[i].c=value (existing and mistyped paths, scalar and list values) through '
            'Config.build_from_cmdline; non-trivial = the override touches at least one existing path; distinct by SHA-1')
    ASSUMPTIONS = ['for (B) the string -> YAML step of process_cmdline is exercised on the implementation only (the model receives the equivalent document)']

    def corpus(self):
        D = lambda kind, *raws, **kw: dict({'docs': [{'raw': r} for r in raws], 'style': ['flow', 0, 0], 'kind': kind}, **kw)
        base = M({'a': M({'b': Q([M({'c': S(1), 'd': S(2)}), S(5)]), 'e': S('x')}), 'f': S(3)})
        return [
            D('A', base, M({'a': M({'e': S('y')})}, kw={'new': False})),
            D('A', base, M({'a': M({'typo': S('y')})}, kw={'new': False})),
            D('A', base, M({'a': M({'n': M({'deep': S(1)}, kw={'new': True})})}, kw={'new': False})),
            D('B', base, cmd=['a.b[0].c=7']), D('B', base, cmd=['a.b[0].x=7']), D('B', base, cmd=['a.b[-1]=[1, 2]', 'f=null']),
            D('B', base, cmd=['a.b[2]=1']),
        ]

    def gen_cases(self, rng, n, tier):
        out = []
        for _ in range(n):
            base = M([(k, gen_plain_value(rng, 3)) for k in rng.sample(['a', 'b', 'c', 'k', 'x'], rng.choice([2, 3, 4]))])
            bp = plain_of(base)
            ps = [p for p in paths_of_py(bp) if p]
            kind = rng.choice(['A', 'A', 'B'])
            if kind == 'A':
                items = {}
                for _i in range(rng.choice([1, 1, 2, 3])):
                    p = list(rng.choice(ps))
                    r = rng.random()
                    leaf = gen_plain_value(rng, 1)
                    if r < 0.25:      # mistype a component
                        j = rng.randrange(len(p))
                        p = p[:j] + [rng.choice(['typo', 'zz', 9, -7])]
                    elif r < 0.4:     # one level deeper than exists
                        p = p + [rng.choice(['more', 0])]
                    elif r < 0.55:    # create below a !new node
                        leaf = M([('fresh', gen_plain_value(rng, 1))], kw={'new': True})
                        p = p[:max(1, len(p) - 1)] + ['created']
                    elif r < 0.65 and isinstance(get_at(bp, p), list):
                        leaf = Q([gen_plain_value(rng, 0) for _ in range(rng.choice([0, 1, 2, 4]))])
                    if isinstance(p[-1], int) and rng.random() < 0.3 and isinstance(get_at(bp, p[:-1]), list):
                        p[-1] = p[-1] - len(get_at(bp, p[:-1]))     # negative spelling of the same index
                    cur = items
                    ok = True
                    for k in p[:-1]:
                        nxt = cur.get(k)
                        if nxt is None:
                            nxt = {}; cur[k] = nxt
                        if '__leaf__' in nxt:
                            ok = False; break
                        cur = nxt
                    if ok and p[-1] not in cur:
                        cur[p[-1]] = {'__leaf__': leaf}
                def build(d):
                    return M([(k, v['__leaf__'] if '__leaf__' in v else build(v)) for k, v in d.items()])
                o = build(items)
                o['kw'] = {'new': False}; o['t'] = {'k': 'plain'}
                out.append({'docs': [{'raw': base}, {'raw': o}], 'style': ['flow', 0, 0], 'kind': 'A'})
            else:
                cmds = []
                for _i in range(rng.choice([1, 1, 2])):
                    p = list(rng.choice(ps))
                    if not isinstance(p[0], str):
                        continue
                    if rng.random() < 0.3:
                        j = rng.randrange(len(p))
                        p = p[:j] + [rng.choice(['typo', 9])] if j > 0 else p + ['typo']
                    v = rng.choice(['7', 'hello', 'null', 'true', '1.5', '[1, 2]', '"q r"'])
                    cmds.append(render_cmd_path(p) + '=' + v)
                if cmds:
                    out.append({'docs': [{'raw': base}], 'style': ['flow', 0, 0], 'kind': 'B', 'cmd': cmds})
        return out

    def cmd_docs(self, case):
        """the documents equivalent to the command-line overrides (what process_cmdline is specified to produce)"""
        import yaml as pyyaml
        docs = []
        for c in case['cmd']:
            key, val = c.split('=', 1)
            path = [sc_py(k) for k in NodePath.get_list_path(key)]
            v = pyyaml.safe_load(val)
            def to_raw(x):
                if isinstance(x, list): return Q([to_raw(y) for y in x])
                if isinstance(x, dict): return M([(k, to_raw(y)) for k, y in x.items()])
                return S(x)
            d = G.nest(path, to_raw(v))
            d['kw'] = {'new': False}; d['t'] = {'k': 'plain'}
            docs.append({'raw': d})
        return docs

    def impl(self, case):
        if case.get('kind') != 'B':
            return super().impl(case)
        text = render_doc(case['docs'][0]['raw'])
        try:
            cfg = Config.build_from_cmdline('{ ' + text.strip()[1:-1] + ' }' if False else text, *case['cmd'])
            from evalrun import conv_val, renumber, WorldImpl
            with WorldImpl(self.WORLD) as w:
                r = {'ok': renumber(conv_val(cfg, w, {})), 'log': []}
        except Exception as e:  # noqa
            r = classify_error(e); r['log'] = []
        full = case['docs'] + self.cmd_docs(case)
        return {'tree': impl_merge(full), 'cfg': r, 'cfg_docs': impl_config(full, self.WORLD)}

    def model_requests(self, case):
        docs = case['docs'] + (self.cmd_docs(case) if case.get('kind') == 'B' else [])
        return [{'op': 'merge', 'docs': docs}, {'op': 'config', 'docs': docs, 'world': self.WORLD}]

    def oracle(self, case, io, ans):
        kind = case.get('kind')
        if kind not in ('A', 'B'):
            return None
        cfg = io['cfg']
        base = plain_of(case['docs'][0]['raw'])
        bpaths = set(paths_of_py(base))
        if kind == 'B':
            d = first_diff({k: v for k, v in cfg.items() if k != 'log'}, {k: v for k, v in io['cfg_docs'].items() if k != 'log'})
            if d:
                return 'build_from_cmdline differs from merging the equivalent !notnew document: ' + d
            exp = copy.deepcopy(base)
            import yaml as pyyaml
            ok = True
            for c in case['cmd']:
                key, val = c.split('=', 1)
                p = norm_path(exp, [sc_py(k) for k in NodePath.get_list_path(key)])
                if p is None:
                    ok = False; break
                v = pyyaml.safe_load(val)
                if isinstance(v, list) and isinstance(get_at(exp, p), list) and len(v) > len(get_at(exp, p)):
                    ok = False; break      # a longer list would create new element paths
                if isinstance(v, list) and not isinstance(get_at(exp, p), list) and len(v) > 0:
                    ok = False; break
                set_at(exp, list(p), v)
            if ok:
                if 'ok' not in cfg:
                    return f'override of existing paths {case["cmd"]} failed: {json.dumps({k: v for k, v in cfg.items() if k != "log"})[:160]}'
                got = val_to_py(strip_ids(cfg['ok']))
                if got != exp:
                    return f'override {case["cmd"]}: expected exactly those paths to change: {json.dumps(exp, default=str)[:140]}, got {json.dumps(got, default=str)[:140]}'
            else:
                if 'ok' in cfg:
                    return f'a mistyped / non-existing override path {case["cmd"]} was accepted and created content'
                if cfg.get('err') != 'merge':
                    return f'a mistyped override path must be a MergeError, got {cfg.get("err")}'
            return None
        # kind A
        if len(case['docs']) != 2 or (case['docs'][1]['raw'].get('kw') or {}).get('new') is not False:
            return None
        if 'ok' in cfg:
            got = val_to_py(strip_ids(cfg['ok']))
            gpaths = set(paths_of_py(got))
            wp = written_paths(case['docs'][1]['raw'])
            allowed = set()
            for p, an in wp:
                if an:
                    np_ = norm_path(got, p)
                    if np_: allowed.add(np_)
            for p in sorted(gpaths - bpaths, key=str):
                if not any(p[:len(a)] == a for a in allowed):
                    return f'!notnew merge succeeded but created the path {list(p)} that did not exist before'
        else:
            if cfg.get('err') != 'merge':
                return f'!notnew merge must fail with a MergeError, got {cfg.get("err")}'
            named = cfg.get('notnew')
            if named is not None:
                try:
                    p = [sc_py(k) for k in NodePath.get_list_path(named)]
                except Exception:
                    return f'MergeError names an unparsable path {named!r}'
                from props.c15 import C15 as _C15
                if _C15.has_alias_keys(case['docs'][1:]):
                    return None     # two keys of one mapping address the same list position: the earlier one may have replaced what the later one names
                if norm_path(base, p) is not None and not any(list(q[:len(p)]) == p and a for q, a in written_paths(case['docs'][1]['raw'])):
                    # the named path exists in the base: only acceptable when a list is replaced by a longer one (element paths)
                    if not isinstance(get_at(base, list(norm_path(base, p))), list):
                        return f'MergeError names {named!r}, which exists in the base config'
            # completeness: if every written path exists the merge must succeed
            wp = written_paths(case['docs'][1]['raw'])
            if all(norm_path(base, p) is not None for p, an in wp) and not any('q' in n for _, n in G.paths_of(case['docs'][1]['raw'])):
                compatible = True
                for p, an in wp:
                    pass
                return f'every path written by the !notnew document exists in the base, yet the merge failed: {json.dumps({k: v for k, v in cfg.items() if k != "log"})[:160]}'
        return None

    def render(self, case):
        r = super().render(case)
        return r + (['cmdline: ' + ' '.join(case['cmd'])] if case.get('cmd') else [])

    def nontrivial(self, case, io):
        return True

PROP = C08()
