"""Shared machinery of the merge-family properties (C01-C05, C08, C14-C16): a case is a list of
documents; the implementation observable is the merged node tree (full internal state) and the
evaluated config; the model observable is the same pair computed by the Lean driver."""
import json, copy
from framework import Prop
from common import *
from evalrun import impl_config, compare_config, canon_model_config, renumber
import gen_merge as G
import gen_eval as GE

def strip_ids(v):
    """value JSON without identity numbers (pure data)"""
    if isinstance(v, list):
        return [strip_ids(x) for x in v]
    if isinstance(v, dict):
        return {k: strip_ids(x) for k, x in v.items() if k != 'o'}
    return v

def doc_features(docs):
    """coverage features of a case: tags, kinds, depth, sizes"""
    feats = set()
    def walk(n, d):
        feats.add(f'depth>={min(d, 4)}')
        t = n.get('t', {}).get('k') if n.get('t') else None
        if t and t != 'plain':
            feats.add('tag:' + t)
        for k, v in (n.get('kw') or {}).items():
            if v not in (None, []):
                feats.add(f'kw:{k}={v}' if k != 'md' else 'kw:md')
        if 's' in n:
            s = n['s']
            feats.add('scalar:' + ('empty' if 'e' in s else 'text' if 'x' in s else type(sc_py(s['l'])).__name__))
        elif 'q' in n:
            feats.add('seq' if n['q'] else 'seq:empty')
            for c in n['q']: walk(c, d + 1)
        else:
            feats.add('map' if n['m'] else 'map:empty')
            for k, c in n['m']:
                feats.add('key:' + type(sc_py(k)).__name__)
                walk(c, d + 1)
    for d in docs:
        walk(d['raw'], 0)
        if d.get('safe') is False: feats.add('source:unsafe')
    feats.add(f'stages={len(docs)}')
    return sorted(feats)

def shrink_docs(docs):
    """candidate smaller cases: drop a stage, drop a subtree / key / element, drop a tag"""
    out = []
    if len(docs) > 1:
        for i in range(len(docs)):
            out.append(docs[:i] + docs[i + 1:])
    def variants(n):
        vs = []
        if n.get('t') or n.get('kw'):
            m = {k: v for k, v in n.items() if k not in ('t', 'kw', 'txt')}
            if not ('s' in m and 'x' in m['s']):
                vs.append(m)
        if 'q' in n:
            for i in range(len(n['q'])):
                vs.append(dict(n, q=n['q'][:i] + n['q'][i + 1:]))
            for i, c in enumerate(n['q']):
                for v in variants(c):
                    vs.append(dict(n, q=n['q'][:i] + [v] + n['q'][i + 1:]))
            if n['q'] and not n.get('t'):
                vs.append({'s': {'l': 0}})
        elif 'm' in n:
            for i in range(len(n['m'])):
                vs.append(dict(n, m=n['m'][:i] + n['m'][i + 1:]))
            for i, (k, c) in enumerate(n['m']):
                for v in variants(c):
                    vs.append(dict(n, m=n['m'][:i] + [[k, v]] + n['m'][i + 1:]))
        return vs
    for i, d in enumerate(docs):
        for v in variants(d['raw']):
            if 'm' in v:
                out.append(docs[:i] + [dict(d, raw=v)] + docs[i + 1:])
        if d.get('safe') is False:
            out.append(docs[:i] + [{k: x for k, x in d.items() if k != 'safe'}] + docs[i + 1:])
    return out

class MergeFamProp(Prop):
    VOCAB = G.PLAIN
    WORLD = GE.WORLD
    NMAX = 4
    DEPTH = 3
    PTAG = 0.25
    STYLES = [('flow', 0, 0), ('block', 0, 0), ('flow', 1, 1), ('block', 1, 0), ('blocklit', 0, 0), ('blocklit', 1, 1), ('flow', 2, 0), ('block', 3, 0)]

    def gen_docs(self, rng, tier):
        return [{'raw': d} for d in G.gen_sequence(rng, self.VOCAB, self.NMAX, self.DEPTH, self.PTAG)]

    def gen_cases(self, rng, n, tier):
        out = []
        for i in range(n):
            st = self.STYLES[rng.randrange(len(self.STYLES))] if rng.random() < 0.5 else self.STYLES[0]
            out.append({'docs': self.gen_docs(rng, tier), 'style': list(st)})
        return out

    def impl(self, case):
        st = case.get('style', ['flow', 0, 0])
        return {'tree': impl_merge(case['docs'], *st), 'cfg': impl_config(case['docs'], self.WORLD, *st)}

    def model_requests(self, case):
        return [{'op': 'merge', 'docs': case['docs']}, {'op': 'config', 'docs': case['docs'], 'world': self.WORLD}]

    def model_obs(self, case, answers):
        return {'tree': answers[0], 'cfg': answers[1]}

    def compare(self, case, io, mo):
        if mo['tree'].get('err') == 'unsupported':
            return 'SKIP'
        d = first_diff(io['tree'], canon_model_answer(mo['tree']))
        if d:
            return 'merged tree: ' + d
        d = compare_config(io['cfg'], mo['cfg'])
        if d in ('SKIP', None) or d.startswith('KNOWN:'):
            return d
        return 'evaluated config: ' + d

    def render(self, case):
        st = case.get('style', ['flow', 0, 0])
        out = []
        for d in case['docs']:
            try:
                out.append(('[safe=False] ' if d.get('safe') is False else '') + render_doc(d['raw'], *st).rstrip())
            except Exception as e:
                out.append(f'<unrenderable: {e}>')
        return out

    def features(self, case, io):
        f = doc_features(case['docs'])
        r = io['cfg'].get('err', 'ok') if isinstance(io, dict) and 'cfg' in io else '?'
        return f + ['result:' + str(r)]

    def shrink(self, case):
        for d in shrink_docs(case['docs']):
            yield dict(case, docs=d)

    def nontrivial(self, case, io):
        return any(len(d['raw'].get('m', [])) > 0 for d in case['docs'])
