"""C12 — `!eval` and f-strings compute what Python computes, with config names visible.

Case kinds (all JSON, deterministic):

* `prog`    a config document `{n1: v1, ..., r: !eval <code>}` whose code is a program of a generated
            grammar (expressions, assignments, augmented assignment, def with defaults and closures,
            lambda, list/dict/set/generator comprehensions, if/elif/else, for/while with
            break/continue, try/except/else/finally with raised exceptions, `with` over a context
            manager defined in the code, imports, `global` in nested functions, > 256 names to force
            EXTENDED_ARG) over random config names, eval symbols, builtins and shadowing between them;
            statements joined by newlines or by `;` in every spacing, `;` inside string literals and
            after one-line compound statements, last expressions spanning several lines; the last
            statement may raise.
* `fstr`    the same document with an f-string node (`!fstr fmt`, `f'fmt'`, `f"fmt"`), with quotes of
            both kinds in the text and inside replacement fields, `;` and (explicit form) newlines.
* `resolve` probe programs: every candidate name is read at module level / in a function / lambda /
            comprehension / nested try-with / class body; every source supplies a distinguishable value.
* `hist`    2-4 builds in ONE process (same / different configs, symbols, code; the same multi-statement
            persistent node re-built with other symbols and configs).

Implementation side: every case runs in its own forked child of a worker subprocess (the worker
imports the implementation once; a crash of the interpreter is the exit status of that child, so it
is attributed to the case).  The child computes the native reference first (the code text parsed by Python
itself: `exec` of all statements but the last, `eval` of the last one, in a plain dict holding config
values, then symbols, builtins behind it; a text Python cannot parse is outside the quantifier), then
`Config.build(text, filename=..., eval_ctx=EvalContext(eval_symbols=...))`.  Observed without touching
the implementation's source: what is handed to `compile` (module attribute `compile` of
nodes/eval.py set to a recording wrapper; syntax trees are recorded statement by statement through
`ast.unparse`), the names that reached `EvalGlobals.__missing__` (wrapper around the method), the
eval-node modules in `sys.modules` after every build.

Oracle: equal canonical value, or EvalError whose `__cause__` has the class of the native exception;
any abnormal exit status is a violation.  Correspondence with lean/AY/Model/Resolve.lean (driver op
`c12`): `splitStmts` over Python's statement list vs the compiled trees, `multiStmt`/`publishes` vs
publication of a module, `normFstr` vs the code of the f-string node, `resolve`/`Globals.lookup` vs the
observed resolution of every name, `evalStep` folded over a history vs the values the real builds
observed.  The only recorded finding is D26 (`class-body-config-name`).
"""
import os, sys, json, re, ast, hashlib, random, subprocess, signal, builtins as _bi

if __name__ == '__main__':
    sys.path.insert(0, os.path.dirname(os.path.dirname(os.path.abspath(__file__))))
import common
from common import REPO
import errwrap      # families `errwrap` / `errbuild`: errors.py rethrow_point / api_entry against AY.Model.ErrWrap (driver op errwrap)

PY = '/venv/bin/python'
NSPREFIX = 'awesomeyaml.eval_node_namespace.'
BUILTIN_NAMES = sorted(n for n in dir(_bi) if not n.startswith('_'))

# ----------------------------------------------------------------------------------------------
# shared between harness and worker: symbols, canonical values
# ----------------------------------------------------------------------------------------------

def _guard(f):
    try:
        return f()
    except NameError:
        return 'nameerror'

FUNCS = {'sdouble': lambda x: x * 2, 'sinc': lambda x: x + 1, 'ssq': lambda x: x * x, 'guard': _guard}

def mk_syms(spec):
    out = {}
    for name, v in spec:
        out[name] = FUNCS[v['fn']] if isinstance(v, dict) and 'fn' in v else json.loads(json.dumps(v))
    return out

class RefBunch(dict):
    """what a config mapping looks like to eval code: a dict with attribute access"""
    def __getattr__(self, n):
        if n not in self:
            raise AttributeError(n)
        return self[n]

def to_ref(v):
    if isinstance(v, dict):
        return RefBunch((k, to_ref(x)) for k, x in v.items())
    if isinstance(v, list):
        return [to_ref(x) for x in v]
    return v

def canon(v, depth=0):
    if depth > 40:
        return {'o': 'deep'}
    if v is None or isinstance(v, str):
        return v
    if isinstance(v, bool):
        return {'b': v}
    if isinstance(v, int):
        return v if abs(v) < 2 ** 53 else {'i': str(v)}
    if isinstance(v, float):
        return {'f': repr(v)}
    if isinstance(v, list):
        return {'l': [canon(x, depth + 1) for x in v]}
    if isinstance(v, tuple):
        return {'t': [canon(x, depth + 1) for x in v]}
    if isinstance(v, dict):
        return {'d': [[canon(k, depth + 1), canon(x, depth + 1)] for k, x in v.items()]}
    if isinstance(v, (set, frozenset)):
        return {'s': sorted((canon(x, depth + 1) for x in v), key=lambda j: json.dumps(j, sort_keys=True))}
    if getattr(_bi, getattr(v, '__name__', ''), None) is v:
        return {'o': 'builtin:' + v.__name__}
    for k, f in FUNCS.items():
        if v is f:
            return {'o': 'symfn:' + k}
    return {'o': type(v).__name__}

# ----------------------------------------------------------------------------------------------
# worker: one forked child per job
# ----------------------------------------------------------------------------------------------

def _native(b):
    ns = {}
    for name, val in b['cfg']:
        ns[name] = to_ref(val)
    syms = mk_syms(b['syms'])
    out = {}
    ns['ayns'] = RefBunch({'cfg': RefBunch((k, v) for k, v in ns.items())})     # the injected name: this build's config
    before = dict(ns)
    try:
        for name, code in b.get('derived', []):
            tmp = dict(ns); tmp.update(syms)
            ns[name] = eval(code, tmp)
        ns.update(syms)
        before = dict(ns)
        if b.get('code') is not None:
            # Python's own reading of the code text: all statements but the last executed, the last one evaluated
            tree = ast.parse(b['code'].strip())
            if not tree.body or not isinstance(tree.body[-1], ast.Expr):
                raise SyntaxError('the last statement is not an expression')
            exec(compile(ast.Module(tree.body[:-1], []), '<ref>', 'exec'), ns)
            out['ok'] = canon(eval(compile(ast.Expression(tree.body[-1].value), '<ref>', 'eval'), ns))
        else:
            out['ok'] = canon(eval(b['ref_eval'], ns))
    except BaseException as e:  # noqa
        out['exc'] = type(e).__name__
        out['msg'] = str(e)[:120]
    out['stored'] = sorted(n for n in ns if n != '__builtins__' and (n not in before or ns[n] is not before[n]))
    return out

def _impl(b, rec):
    from awesomeyaml.config import Config
    from awesomeyaml.eval_context import EvalContext
    from awesomeyaml import yaml as ayyaml
    out = {}
    try:
        root = list(ayyaml.parse(b['text']))[0]
        node = dict.__getitem__(root, 'r')
        out['node'] = [type(node).__name__, str(node), getattr(node, 'persistent_namespace', None)]
    except BaseException as e:  # noqa
        out['node'] = ['parse-error', f'{type(e).__name__}: {e}'[:200], None]
    rec['compiles'].clear(); rec['missing'].clear()
    try:
        cfg = Config.build(b['text'], filename=b.get('filename'), eval_ctx=EvalContext(eval_symbols=mk_syms(b['syms'])))
        out['ok'] = canon(dict.__getitem__(cfg, 'r'))
    except BaseException as e:  # noqa
        chain, x, seen = [], e.__cause__, set()
        while x is not None and id(x) not in seen:
            seen.add(id(x)); chain.append(type(x).__name__); x = x.__cause__
        out['exc'] = type(e).__name__
        out['cause'] = chain
        out['msg'] = (str(e.__cause__) if e.__cause__ is not None else str(e))[:160]
    out['compiles'] = [list(c) for c in rec['compiles']]
    out['missing'] = [list(m) for m in rec['missing']]
    out['registry'] = sorted(k[len(NSPREFIX):] for k in sys.modules if k.startswith(NSPREFIX))
    return out

def _child(job, wfd, rec):
    def emit(o):
        os.write(wfd, (json.dumps(o) + '\n').encode())
    signal.alarm(int(job.get('timeout', 30)))
    for i, b in enumerate(job['builds']):
        emit({'t': 'ref', 'i': i, 'r': _native(b)})
        emit({'t': 'impl', 'i': i, 'r': _impl(b, rec)})
    os.close(wfd)
    os._exit(0)

def worker_main():
    import awesomeyaml.nodes.eval as evmod
    rec = {'compiles': [], 'missing': []}
    real_compile = compile
    def rec_compile(src, fn, mode, *a, **k):
        if isinstance(src, ast.Module):
            seen = [ast.unparse(x) for x in src.body]
        elif isinstance(src, ast.Expression):
            seen = ast.unparse(src.body)
        else:
            seen = src
        rec['compiles'].append((seen, mode, fn))
        return real_compile(src, fn, mode, *a, **k)
    evmod.compile = rec_compile     # module attribute shadows the builtin for nodes/eval.py only
    if hasattr(evmod, 'EvalGlobals'):       # absent in revisions that do not resolve names through a dict subclass
        orig_missing = evmod.EvalGlobals.__missing__
        def missing(self, name):
            try:
                v = orig_missing(self, name)
            except KeyError:
                rec['missing'].append((name, 'miss'))
                raise
            rec['missing'].append((name, 'cfg'))
            return v
        evmod.EvalGlobals.__missing__ = missing
    sys.setrecursionlimit(3000)
    for line in sys.stdin:
        job = json.loads(line)
        rfd, wfd = os.pipe()
        sys.stdout.flush()
        pid = os.fork()
        if pid == 0:
            os.close(rfd)
            try:
                _child(job, wfd, rec)
            except BaseException as e:  # noqa
                try:
                    os.write(wfd, (json.dumps({'t': 'child-error', 'e': f'{type(e).__name__}: {e}'[:300]}) + '\n').encode())
                finally:
                    os._exit(97)
        os.close(wfd)
        data = b''
        while True:
            chunk = os.read(rfd, 65536)
            if not chunk:
                break
            data += chunk
        os.close(rfd)
        _, st = os.waitpid(pid, 0)
        status = {'signal': os.WTERMSIG(st)} if os.WIFSIGNALED(st) else {'exit': os.WEXITSTATUS(st)}
        lines = []
        for l in data.decode(errors='replace').splitlines():
            try:
                lines.append(json.loads(l))
            except ValueError:
                lines.append({'t': 'garbage', 'l': l[:200]})
        sys.stdout.write(json.dumps({'lines': lines, 'status': status}) + '\n')
        sys.stdout.flush()

if __name__ == '__main__' and '--worker' in sys.argv:
    worker_main()
    sys.exit(0)

from framework import Prop  # noqa: E402

class Worker:
    def __init__(self):
        self.p = None
    def start(self):
        env = dict(os.environ); env['AY_REPO'] = REPO
        self.p = subprocess.Popen([PY, os.path.abspath(__file__), '--worker'], stdin=subprocess.PIPE, stdout=subprocess.PIPE,
                                  stderr=subprocess.DEVNULL, env=env)
    def run(self, job):
        """returns {'lines': [...], 'status': {...}}; a worker that dies is restarted and the job retried alone once"""
        for attempt in (0, 1):
            if self.p is None or self.p.poll() is not None:
                self.start()
            try:
                self.p.stdin.write((json.dumps(job) + '\n').encode()); self.p.stdin.flush()
                line = self.p.stdout.readline()
            except (BrokenPipeError, OSError):
                line = b''
            if line:
                return json.loads(line)
            rc = self.p.poll()
            try:
                self.p.kill()
            except OSError:
                pass
            self.p = None
        return {'lines': [], 'status': {'worker_died': rc}}
    def close(self):
        if self.p is not None and self.p.poll() is None:
            try:
                self.p.stdin.close(); self.p.wait(timeout=5)
            except Exception:  # noqa
                self.p.kill()
        self.p = None

# ----------------------------------------------------------------------------------------------
# rendering
# ----------------------------------------------------------------------------------------------

def code_text(case):
    """the code of the node `r` as written in the document"""
    if case['kind'] == 'fstr':
        return case['scalar']
    pieces = case['stmts'] + [case['final']]
    seps = case.get('seps') or []
    out = pieces[0]
    for i, p in enumerate(pieces[1:]):
        out += (seps[i] if i < len(seps) else '\n') + p
    return out

def scalar_value(case):
    """the value of the YAML scalar of node `r` (what `str(node)` is before f-string fixing)"""
    code = code_text(case)
    if case['kind'] != 'fstr' and case.get('style') == 'block':
        return code + '\n'
    return code

def render_entry(case):
    code = code_text(case)
    if case['kind'] == 'fstr':
        if case['form'] == 'explicit':
            return 'r: !fstr ' + json.dumps(code) + '\n'
        return 'r: ' + code + '\n'
    if case.get('style') == 'block':
        return 'r: !eval |\n' + ''.join('  ' + l + '\n' if l else '\n' for l in code.split('\n'))
    return 'r: !eval ' + json.dumps(code) + '\n'

def render_build(b):
    lines = [f'{name}: {json.dumps(val)}\n' for name, val in b['cfg']]
    lines += [f'{name}: !eval {json.dumps(code)}\n' for name, code in b.get('derived', [])]
    pos = min(b.get('rpos', len(lines)), len(lines))
    lines.insert(pos, render_entry(b))
    return ''.join(lines)

def builds_of(case):
    return case['builds'] if case['kind'] == 'hist' else [case]

def ref_parts(b):
    if b['kind'] == 'fstr':
        return '', b['ref_lit']
    return '\n'.join(b['stmts']), b['final']

def job_of(case):
    builds = []
    for b in builds_of(case):
        ex, ev = ref_parts(b)
        builds.append({'cfg': b['cfg'], 'derived': b.get('derived', []), 'syms': b['syms'], 'text': render_build(b),
                       'filename': b.get('filename'), 'code': code_text(b) if b['kind'] != 'fstr' else None, 'ref_eval': ev})
    return {'builds': builds, 'timeout': 30}

def module_key(b):
    return 'r_0x' + hashlib.md5(scalar_value(b).encode('utf-8')).hexdigest()

# ----------------------------------------------------------------------------------------------
# the program generator
# ----------------------------------------------------------------------------------------------

NAMES = ['a', 'b', 'c', 'd', 'k', 'm', 'n', 'p', 'q', 's', 't', 'u', 'w', 'x', 'y', 'z']
BFUNCS = ['len', 'abs', 'max', 'min', 'sum', 'sorted']
WORDS = ['ab', 'cd', 'xyz', 'q', 'hello', 'w-1', 'A b', 'zz_9', 'p;q', 'u; v']

class Gen:
    def __init__(self, rng):
        self.r = rng
        self.feats = set()
        self.ints, self.strs, self.lists, self.dicts, self.funcs = [], [], [], {}, []
        self.bfuncs = set(BFUNCS)
        self.locals = []
        self.n = 0
        self.stmts = []
        self.known = None
        self.defd = set()

    # -- environment -------------------------------------------------------------------------
    def forget(self, name):
        self.defd.add(name)
        for l in (self.ints, self.strs, self.lists, self.funcs):
            while name in l:
                l.remove(name)
        self.dicts.pop(name, None)
        self.bfuncs.discard(name)

    def bind(self, name, val):
        self.forget(name)
        if isinstance(val, dict) and 'fn' in val:
            self.funcs.append(name)
        elif isinstance(val, bool):
            pass
        elif isinstance(val, int):
            self.ints.append(name)
        elif isinstance(val, str):
            self.strs.append(name)
        elif isinstance(val, list):
            self.lists.append(name)
        elif isinstance(val, dict):
            self.dicts[name] = val

    def world(self):
        r = self.r
        pool = NAMES + (BFUNCS if r.random() < 0.3 else [])
        cfg, syms = [], []
        def value(kind):
            if kind == 'int': return r.choice([0, 1, 2, 3, 5, 7, 10, -4, 100])
            if kind == 'str': return r.choice(WORDS)
            if kind == 'list': return [r.randint(-3, 9) for _ in range(r.randint(1, 5))]
            return {k: r.randint(0, 9) for k in r.sample(['k', 'l', 'val', 'x1'], r.randint(1, 3))}
        for name in r.sample(pool, r.randint(2, 7)):
            cfg.append([name, value(r.choice(['int', 'int', 'str', 'list', 'dict']))])
        cand = r.sample(pool, r.randint(0, 4))
        if cfg and r.random() < 0.5:
            cand.append(r.choice(cfg)[0])       # a symbol that shadows a config entry
        for name in dict.fromkeys(cand):
            if r.random() < 0.3:
                syms.append([name, {'fn': r.choice(['sdouble', 'sinc', 'ssq'])}])
            else:
                syms.append([name, value(r.choice(['int', 'int', 'str', 'list']))])
        if any(n in BFUNCS for n, _ in cfg + syms):
            self.feats.add('shadow:builtin')
        if {n for n, _ in cfg} & {n for n, _ in syms}:
            self.feats.add('shadow:sym-over-cfg')
        for n, v in cfg:
            self.bind(n, v)
        self.cfgdicts = {n for n, v in cfg if isinstance(v, dict)}
        for n, v in syms:
            self.bind(n, v)
            self.cfgdicts.discard(n)
        self.cfg, self.syms = cfg, syms
        self.cfgonly = [n for n, _ in cfg if n not in {m for m, _ in syms}]
        self.defd = set()
        return cfg, syms

    def fresh(self, typ=None, allow_shadow=True):
        r = self.r
        if allow_shadow and not self.locals and r.random() < 0.12:
            cands = [n for n, _ in self.cfg + self.syms] + sorted(self.bfuncs)
            if cands:
                name = r.choice(cands)
                self.feats.add('shadow:def')
                return name
        self.n += 1
        return f'v{self.n}'

    # -- expressions -------------------------------------------------------------------------
    def int_names(self):
        return self.ints + [n for l in self.locals for n in l]

    def int_e(self, d=0):
        r = self.r
        ch = r.random()
        names = self.int_names()
        if d > 3 or ch < 0.18:
            return str(r.choice([0, 1, 2, 3, 4, 7, 12]))
        if ch < 0.42 and names:
            return r.choice(names)
        if ch < 0.58:
            op = r.choice(['+', '-', '*', '//', '%'])
            a, b = self.int_e(d + 1), self.int_e(d + 1)
            self.feats.add('arith')
            if op in ('//', '%'):
                return f'({a} {op} (abs({b}) + 1))' if 'abs' in self.bfuncs else f'({a} {op} 3)'
            return f'({a} {op} {b})'
        if ch < 0.64:
            self.feats.add('condexpr')
            return f'({self.int_e(d + 1)} if {self.bool_e(d + 1)} else {self.int_e(d + 1)})'
        if ch < 0.70 and self.lists:
            l = r.choice(self.lists)
            self.feats.add('subscript')
            return r.choice([f'{l}[0]', f'{l}[-1]', f'len({l})' if 'len' in self.bfuncs else f'{l}[0]',
                             f'sum({l})' if 'sum' in self.bfuncs else f'{l}[0]',
                             f'max({l})' if 'max' in self.bfuncs else f'{l}[-1]'])
        if ch < 0.76 and self.dicts:
            dn = r.choice(sorted(self.dicts))
            k = r.choice(sorted(self.dicts[dn]))
            if dn in self.cfgdicts and r.random() < 0.5 and k.isidentifier():
                self.feats.add('attr-on-config-dict')
                return f'{dn}.{k}'
            self.feats.add('subscript')
            return f'{dn}[{k!r}]'
        if ch < 0.83 and self.funcs:
            self.feats.add('call')
            return f'{r.choice(self.funcs)}({self.int_e(d + 1)})'
        if ch < 0.88:
            self.feats.add('lambda')
            p = f'l{d}_{r.randint(0, 99)}'
            self.locals.append([p])
            body = self.int_e(d + 1)
            self.locals.pop()
            return f'(lambda {p}: {body})({self.int_e(d + 1)})'
        if ch < 0.96:
            return self.comp_int(d)
        if self.strs and 'len' in self.bfuncs:
            return f'len({r.choice(self.strs)})'
        return str(r.randint(0, 9))

    def iter_e(self, d):
        r = self.r
        if self.lists and r.random() < 0.7:
            return r.choice(self.lists)
        return f'range({r.randint(1, 4)})'

    def comp_int(self, d):
        r = self.r
        v, w = f'i{d}', f'j{d}'
        kind = r.choice(['list', 'gen', 'set', 'dict', 'nested', 'cond'])
        self.feats.add('comp:' + kind)
        agg = 'sum' if 'sum' in self.bfuncs else None
        self.locals.append([v])
        body = self.int_e(d + 1)
        cond = self.bool_e(d + 1)
        self.locals.pop()
        it = self.iter_e(d)
        def wrap(x):
            return f'{agg}({x})' if agg else f'[0, *{x}][-1]'
        if kind == 'list':
            return wrap(f'[{body} for {v} in {it}]')
        if kind == 'cond':
            return wrap(f'[{body} for {v} in {it} if {cond}]')
        if kind == 'gen':
            return f'{agg}({body} for {v} in {it})' if agg else wrap(f'list({body} for {v} in {it})')
        if kind == 'set':
            return wrap(f'sorted({{{body} for {v} in {it}}})') if 'sorted' in self.bfuncs else wrap(f'[{body} for {v} in {it}]')
        if kind == 'dict':
            return wrap(f'list({{{v}: {body} for {v} in {it}}}.values())')
        self.locals.append([v, w])
        inner = self.int_e(d + 1)
        self.locals.pop()
        return wrap(f'[{inner} for {v} in {it} for {w} in {self.iter_e(d)}]')

    def bool_e(self, d=0):
        r = self.r
        ch = r.random()
        if d > 3 or ch < 0.55:
            self.feats.add('compare')
            return f'({self.int_e(d + 1)} {r.choice(["<", "<=", "==", "!=", ">", ">="])} {self.int_e(d + 1)})'
        if ch < 0.75:
            self.feats.add('boolop')
            return f'({self.bool_e(d + 1)} {r.choice(["and", "or"])} {self.bool_e(d + 1)})'
        if ch < 0.85:
            self.feats.add('boolop')
            return f'(not {self.bool_e(d + 1)})'
        if self.lists:
            return f'({self.int_e(d + 1)} in {r.choice(self.lists)})'
        return r.choice(['True', 'False'])

    def str_e(self, d=0):
        r = self.r
        ch = r.random()
        if d > 2 or ch < 0.3:
            return repr(r.choice(WORDS))
        if ch < 0.55 and self.strs:
            return r.choice(self.strs)
        if ch < 0.7:
            return f'({self.str_e(d + 1)} + {self.str_e(d + 1)})'
        if ch < 0.8:
            return f'str({self.int_e(d + 1)})'
        if ch < 0.9:
            self.feats.add('fstring-in-code')
            return "f'{" + self.int_e(2) + "}-{" + self.str_e(2) + "}'"
        return f'{self.str_e(d + 1)}.upper()'

    def list_e(self, d=0):
        r = self.r
        ch = r.random()
        if ch < 0.3 and self.lists:
            return r.choice(self.lists)
        if ch < 0.6:
            v = f'e{d}'
            self.locals.append([v])
            body = self.int_e(d + 1)
            self.locals.pop()
            self.feats.add('comp:list')
            return f'[{body} for {v} in {self.iter_e(d)}]'
        return '[' + ', '.join(self.int_e(d + 1) for _ in range(r.randint(1, 3))) + ']'

    # -- statements --------------------------------------------------------------------------
    def ind(self, block, n=1):
        return '\n'.join('    ' * n + l for l in block.split('\n'))

    def s_assign(self):
        r = self.r
        typ = r.choice(['int', 'int', 'int', 'str', 'list', 'dict'])
        if typ == 'int':
            e = self.int_e(); name = self.fresh(); self.forget(name); self.ints.append(name)
        elif typ == 'str':
            e = self.str_e(); name = self.fresh(); self.forget(name); self.strs.append(name)
        elif typ == 'list':
            e = '[1] + ' + self.list_e(); name = self.fresh(); self.forget(name); self.lists.append(name)
        else:
            v = 'dk'
            self.locals.append([v]); body = self.int_e(1); self.locals.pop()
            e = f'{{str({v}): {body} for {v} in range(2)}}'
            name = self.fresh(); self.forget(name); self.dicts[name] = {'0': 0, '1': 0}
            self.feats.add('comp:dict')
        self.feats.add('assign')
        return f'{name} = {e}'

    def s_aug(self):
        if not self.ints:
            return self.s_assign()
        name = self.r.choice(self.ints)
        e = self.int_e(1)
        self.feats.add('augassign')
        self.defd.add(name)
        if name in self.cfgonly or name in {n for n, _ in self.syms}:
            self.feats.add('shadow:def')
        return f'{name} {self.r.choice(["+=", "-=", "*="])} {e}'

    def s_def(self):
        r = self.r
        self.n += 1
        f = f'f{self.n}'
        p, q = 'pa', 'pb'
        dflt = self.int_e(1)
        self.locals.append([p, q])
        pre = ''
        if r.random() < 0.4:
            self.locals[-1].append('lv')
            pre = f'lv = {self.int_e(1)}\n'
        body = self.int_e(0)
        self.locals.pop()
        self.feats.add('def'); self.feats.add('def:default')
        if r.random() < 0.35:
            self.feats.add('closure')
            self.locals.append([p, q, 'cx'])
            inner = self.int_e(1)
            self.locals.pop()
            txt = f'def {f}({p}, {q}={dflt}):\n' + self.ind(pre + f'def inner(cx):\n    return {inner}\nreturn inner({body})')
        else:
            txt = f'def {f}({p}, {q}={dflt}):\n' + self.ind(pre + f'return {body}')
        self.funcs.append(f)
        return txt

    def s_lambda(self):
        self.n += 1
        f = f'g{self.n}'
        dflt = self.int_e(1)
        self.locals.append(['la', 'lb'])
        body = self.int_e(1)
        self.locals.pop()
        self.feats.add('lambda'); self.feats.add('lambda:default')
        self.funcs.append(f)
        return f'{f} = lambda la, lb={dflt}: {body}'

    def s_closure(self):
        self.n += 1
        mk, g = f'mk{self.n}', f'h{self.n}'
        self.locals.append(['ck', 'cx'])
        body = self.int_e(1)
        self.locals.pop()
        self.feats.add('closure')
        self.funcs.append(g)
        return f'def {mk}(ck):\n    def inner(cx):\n        return {body}\n    return inner\n{g} = {mk}({self.int_e(1)})'

    def s_if(self):
        name = self.fresh(allow_shadow=False)
        c1, c2 = self.bool_e(1), self.bool_e(1)
        e1, e2, e3 = self.int_e(1), self.int_e(1), self.int_e(1)
        self.forget(name); self.ints.append(name)
        self.feats.add('if/elif/else')
        return f'if {c1}:\n    {name} = {e1}\nelif {c2}:\n    {name} = {e2}\nelse:\n    {name} = {e3}'

    def s_for(self):
        name = self.fresh(allow_shadow=False)
        it = self.iter_e(0)
        self.locals.append(['it'])
        c1, c2, e = self.bool_e(1), self.bool_e(1), self.int_e(1)
        self.locals.pop()
        self.forget(name); self.ints.append(name)
        self.feats.add('for/break/continue')
        return (f'{name} = 0\nfor it in {it}:\n    if {c1}:\n        break\n    if {c2}:\n        continue\n'
                f'    {name} += {e}\nelse:\n    {name} += 1')

    def s_while(self):
        name = self.fresh(allow_shadow=False)
        self.n += 1
        cnt = f'wc{self.n}'
        self.locals.append([cnt])
        c, e = self.bool_e(1), self.int_e(1)
        self.locals.pop()
        self.forget(name); self.ints.append(name)
        self.feats.add('while')
        return (f'{name} = 0\n{cnt} = 0\nwhile {cnt} < {self.r.randint(1, 5)}:\n    {cnt} += 1\n    if {c}:\n        continue\n'
                f'    {name} += {e}\n    if {name} > 1000:\n        break')

    def s_try(self):
        r = self.r
        name = self.fresh(allow_shadow=False)
        kind = r.choice(['zerodiv', 'custom', 'key', 'noerr'])
        self.feats.add('try:' + kind)
        e1, e2, e3 = self.int_e(1), self.int_e(1), self.int_e(1)
        pre = ''
        if kind == 'zerodiv':
            risky, exc, h = f'{name} = {e1} // ({e2} - {e2})', 'ZeroDivisionError', f'{name} = {e3}'
        elif kind == 'custom':
            self.n += 1
            cls = f'Err{self.n}'
            pre = f'class {cls}(Exception):\n    pass\n'
            self.feats.add('classdef')
            risky, exc, h = f'if {self.bool_e(1)}:\n        raise {cls}({e1}, 2)\n    {name} = {e2}', f'{cls} as ex', f'{name} = ex.args[0] + {e3}'
        elif kind == 'key':
            risky, exc, h = f"{name} = {{'k': {e1}}}['nope']", '(KeyError, IndexError)', f'{name} = {e3}'
        else:
            risky, exc, h = f'{name} = {e1}', 'Exception', f'{name} = {e3}'
        fin = self.fresh(allow_shadow=False)
        self.forget(name); self.ints.append(name)
        txt = pre + f'try:\n    {risky}\nexcept {exc}:\n    {h}\nelse:\n    {name} += 1\nfinally:\n    {fin} = {self.int_e(1)}'
        self.forget(fin); self.ints.append(fin)
        return txt

    def s_with(self):
        r = self.r
        name = self.fresh(allow_shadow=False)
        self.n += 1
        log = f'log{self.n}'
        e1, e2, e3 = self.int_e(1), self.int_e(1), self.int_e(1)
        self.feats.add('with')
        if r.random() < 0.5:
            cm = f'CM{self.n}'
            self.feats.add('classdef')
            pre = (f'{log} = []\nclass {cm}:\n    def __init__(self, v):\n        self.v = v\n    def __enter__(self):\n'
                   f'        {log}.append({e1})\n        return self.v\n    def __exit__(self, *exc):\n        {log}.append({e2})\n        return False\n')
            use = f'{cm}({e3})'
        else:
            cm = f'cm{self.n}'
            self.feats.add('import')
            pre = (f'import contextlib\n{log} = []\n@contextlib.contextmanager\ndef {cm}(v):\n    {log}.append({e1})\n    try:\n        yield v\n'
                   f'    finally:\n        {log}.append({e2})\n')
            use = f'{cm}({e3})'
        self.locals.append(['wv'])
        body = self.int_e(1)
        self.locals.pop()
        self.forget(name); self.ints.append(name)
        self.lists.append(log)
        return pre + f'with {use} as wv:\n    {name} = {body}'

    def s_import(self):
        r = self.r
        name = self.fresh(allow_shadow=False)
        self.feats.add('import')
        e = self.int_e(1)
        kind = r.choice(['math', 'from', 'as'])
        self.forget(name); self.ints.append(name)
        if kind == 'math':
            return f'import math\n{name} = math.floor(({e}) / 2) + math.gcd({e}, 12)'
        if kind == 'from':
            self.locals.append(['ra', 'rb']); body = self.int_e(2); self.locals.pop()
            return f'from functools import reduce\n{name} = reduce(lambda ra, rb: ra + rb + {body}, [1, 2, 3], {e})'
        return f'import itertools as itl\n{name} = len(list(itl.chain([{e}], [1, 2])))' if 'len' in self.bfuncs else f'import os.path as osp\n{name} = {e}'

    def s_global(self):
        name = self.fresh(allow_shadow=False)
        self.n += 1
        f = f'bump{self.n}'
        self.locals.append(['ga'])
        e = self.int_e(1)
        self.locals.pop()
        self.forget(name); self.ints.append(name)
        self.feats.add('global-in-nested')
        return (f'{name} = {self.int_e(1)}\ndef {f}(ga):\n    global {name}\n    def deep():\n        return {e}\n'
                f'    {name} += deep()\n    return {name}\n{f}(1)\n{f}(2)')

    def s_semi_compound(self):
        """one-line compound statement whose body holds several `;`-separated statements"""
        name = self.fresh(allow_shadow=False)
        c, e1, e2 = self.bool_e(1), self.int_e(1), self.int_e(1)
        self.forget(name); self.ints.append(name)
        self.feats.add('semicolon:compound')
        sp = self.r.choice([';', '; ', ' ; '])
        return f'{name} = {e1}\nif {c}: {name} = {e2}{sp}{name} = {name} + 5'

    def s_class_cfg(self):
        """class body that reads names directly (LOAD_NAME with class locals)"""
        self.n += 1
        cls, name = f'K{self.n}', self.fresh(allow_shadow=False)
        hid = set(self.cfgonly) - self.defd       # a bare config name in a class body is finding D24: keep it out of the clean domain
        saved = (self.ints, self.strs, self.lists, self.dicts, self.funcs)
        self.ints = [n for n in self.ints if n not in hid]; self.strs = [n for n in self.strs if n not in hid]
        self.lists = [n for n in self.lists if n not in hid]; self.funcs = [n for n in self.funcs if n not in hid]
        self.dicts = {n: v for n, v in self.dicts.items() if n not in hid}
        e = self.int_e(1)
        self.ints, self.strs, self.lists, self.dicts, self.funcs = saved
        self.forget(name); self.ints.append(name)
        self.feats.add('classdef'); self.feats.add('class-body-reads-name')
        return f'class {cls}:\n    cv = {e}\n{name} = {cls}.cv'

    def program(self, nst, pad=0, error=None):
        r = self.r
        stmts = []
        if pad:
            self.feats.add('extended-arg')
            stmts += [f'zp{i} = {i + 1000}' for i in range(pad)]
            self.ints += [f'zp{r.randrange(pad)}' for _ in range(4)]
        makers = [self.s_assign, self.s_assign, self.s_aug, self.s_def, self.s_lambda, self.s_closure, self.s_if, self.s_for,
                  self.s_while, self.s_try, self.s_with, self.s_import, self.s_global, self.s_class_cfg, self.s_semi_compound]
        for _ in range(nst):
            stmts.append(r.choice(makers)())
        if pad:
            big = ' + '.join(f'zp{i}' for i in range(0, pad, 7))
            stmts.append(f'def bigf():\n    return {big} + {self.int_e(1)}')
            self.funcs.append('bigf')
        outs = [self.int_e(0) for _ in range(r.randint(1, 3))]
        if self.strs and r.random() < 0.5:
            outs.append(self.str_e(0))
        if r.random() < 0.4:
            outs.append(self.list_e(0))
        if pad:
            outs.append('bigf()')
            outs.append(f'zp{pad - 1} + zp{pad // 2}')
        if self.dicts and r.random() < 0.3:
            outs.append(r.choice(sorted(self.dicts)))
        final = '[' + ', '.join(outs) + ']'
        if r.random() < 0.15:
            self.feats.add('multiline-last-expression')
            final = '[\n    ' + ',\n    '.join(outs) + '\n]'
        if error:
            self.feats.add('error:' + error)
            e = self.int_e(1)
            if error == 'zerodiv': final = f'[{e} // ({e} - {e})]'
            elif error == 'keyerror': final = f"{{'k': {e}}}['nope']"
            elif error == 'nameerror': final = f'{e} + undefined_name_zz'
            elif error == 'custom':
                stmts.append('class BoomErr(Exception):\n    pass\ndef boom(x):\n    raise BoomErr(x)')
                final = f'boom({e})'
            elif error == 'index': final = f'[{e}][3]'
            elif error == 'value': final = "int('x' + str(" + e + "))"
            elif error == 'attr': final = f'({e}).nope'
            elif error == 'type': final = f"{e} + 'x'"
            elif error == 'in-comp': final = f'[{e} // (i9 - i9) for i9 in [1, 2]]'
            elif error == 'in-func':
                stmts.append(f'def failing(x):\n    def inner():\n        return x // (x - x)\n    return inner()')
                final = f'failing({e})'
        return stmts, final

def simple(stmt):
    return '\n' not in stmt and not re.match(r'\s*(if|for|while|try|with|def|class|@)\b', stmt)

def layout(rng, stmts, final, mode):
    """separators between consecutive pieces (stmts + [final]); `;` only joins simple statements (Python's rule)"""
    seps = []
    pieces = stmts + [final]
    for i in range(1, len(pieces)):
        sep = '\n'
        if mode == 'semi' and simple(pieces[i - 1]) and (simple(pieces[i]) or i == len(pieces) - 1) and rng.random() < 0.6:
            sep = rng.choice([';', '; ', ' ; ', ';  '])
        seps.append(sep)
    return seps

def gen_prog(rng, tier, known=None, pad=0, error=None):
    for _ in range(20):
        g = Gen(rng)
        cfg, syms = g.world()
        derived = []
        ints = [n for n, v in cfg if isinstance(v, int) and not isinstance(v, bool) and n in g.cfgonly]
        if ints and rng.random() < 0.3:
            dn = 'drv'
            derived.append([dn, f'{rng.choice(ints)} * 2 + 1'])
            g.ints.append(dn); g.cfgonly.append(dn)
            g.feats.add('derived-eval-entry')
        nst = rng.randint(0, 6) if not pad else rng.randint(0, 2)
        stmts, final = g.program(nst, pad=pad, error=error)
        mode = 'nl'
        if rng.random() < 0.4:
            mode = 'semi'
        if known == 'class-body-config-name':
            # the class body reads a name that is only a config entry (finding D26)
            cfgints = [n for n, v in cfg if n in g.cfgonly and n not in g.defd and isinstance(v, int)]
            if not cfgints:
                continue
            stmts = stmts + [f'class KB:\n    cv = {rng.choice(cfgints)} + 1']
            final = '[KB.cv, ' + final[1:] if final.startswith('[') else 'KB.cv'
        seps = layout(rng, stmts, final, mode)
        if any(x != '\n' for x in seps):
            g.feats.add('semicolon:separator')
        case = {'kind': 'prog', 'cfg': cfg, 'derived': derived, 'syms': syms, 'stmts': stmts, 'final': final, 'seps': seps,
                'style': rng.choice(['block', 'dq']), 'filename': rng.choice([None, None, 'conf.yaml', '/tmp/some dir/x.yaml']),
                'rpos': rng.randint(0, len(cfg) + len(derived)), 'feats': sorted(g.feats)}
        if known:
            case['known'] = known
        try:
            ast.parse(code_text(case))
        except SyntaxError:
            continue
        return case
    raise RuntimeError('generator failed to produce a compilable program')

# ---- f-strings ---------------------------------------------------------------------------------

QUOTES = ["'", '"', "'''", '"""']

def ref_literal(fmt):
    """a Python literal with the format text `fmt`: any delimiter that is valid for it will do, the value does not
    depend on the choice; tried in the opposite order of the implementation's"""
    for q in reversed(QUOTES):
        if q not in fmt and not fmt.endswith(q[0]) and ('\n' not in fmt or len(q) == 3):
            return 'f' + q + fmt + q
    return None

def gen_fstr(rng):
    for _ in range(20):
        g = Gen(rng)
        cfg, syms = g.world()
        form = rng.choice(['explicit', 'explicit', 'sq', 'dq'])
        own = {'sq': "'", 'dq': '"', 'explicit': None}[form]
        parts = []
        for _ in range(rng.randint(1, 4)):
            ch = rng.random()
            if ch < 0.35:
                lits = ['abc', 'x = ', ' - ', 'A:B', '100%', '(z)', ' a#b ', 'q_', '{{lit}}', 'p;q', 'r; s']
                if form == 'explicit':
                    lits += ["it's", 'say "hi"', "'", '"', 'l1\nl2', "''' ", '"" ']
                elif form == 'sq':
                    lits += ['say "hi"']
                else:
                    lits += ["it's"]
                parts.append(rng.choice(lits))
                for mark, feat in (('{{', 'fstr:escaped-brace'), (';', 'fstr:semicolon'), ("'", 'fstr:quote-in-text'),
                                   ('"', 'fstr:quote-in-text'), ('\n', 'fstr:newline')):
                    if mark in parts[-1]:
                        g.feats.add(feat)
            else:
                e = g.int_e(2) if rng.random() < 0.7 else g.str_e(2)
                if any(c in e for c in "'\"{}\\;"):
                    e = g.int_names()[0] if g.int_names() else '1'
                suffix = rng.choice(['', '', '!r', ':>6', ':03d' if e.isidentifier() and e in g.ints else ''])
                if g.dicts and rng.random() < 0.35:
                    dn = rng.choice(sorted(g.dicts)); k = rng.choice(sorted(g.dicts[dn]))
                    kq = rng.choice(["'", '"'])          # also the delimiter's own kind (valid since Python 3.12)
                    e = f'{dn}[{kq}{k}{kq}]'; suffix = ''
                    g.feats.add('fstr:quote-in-field' + (':same-as-delimiter' if kq == own else ''))
                parts.append('{' + e + suffix + '}')
                g.feats.add('fstr:field' + (':' + suffix if suffix else ''))
        fmt = ''.join(parts).strip() or 'x'
        if form != 'explicit':
            fmt = fmt.replace(': ', ':')        # a YAML plain scalar cannot contain ': '
        g.feats.add('fstr:' + form)
        if form == 'explicit':
            scalar, ref = fmt, ref_literal(fmt)
            if ref is None or (len(fmt) >= 3 and fmt[0] == 'f' and fmt[1] in '\'"' and fmt[-1] == fmt[1]):
                continue
        else:
            scalar = ref = 'f' + own + fmt + own
        try:
            ast.parse(ref, mode='eval')
        except SyntaxError:
            continue
        return {'kind': 'fstr', 'cfg': cfg, 'derived': [], 'syms': syms, 'form': form, 'scalar': scalar, 'ref_lit': ref,
                'filename': rng.choice([None, 'conf.yaml']), 'rpos': rng.randint(0, len(cfg)), 'feats': sorted(g.feats)}
    raise RuntimeError('generator failed to produce an f-string')

# ---- resolution probes -------------------------------------------------------------------------

def gen_resolve(rng, known=None):
    pool = rng.sample(['n0', 'n1', 'n2', 'n3', 'n4', 'n5'], rng.randint(2, 5)) + rng.sample(BFUNCS + ['print', 'Exception'], rng.randint(1, 3))
    defs = [n for n in pool if rng.random() < 0.3]
    syms = [n for n in pool if rng.random() < 0.35]
    cfgn = [n for n in pool if rng.random() < 0.45]
    names = pool + ['unknown_q']
    mode = rng.choice(['module', 'func', 'lambda', 'comp', 'nested']) if known is None else 'class'
    if known == 'class-body-config-name' and not [n for n in cfgn if n not in defs and n not in syms]:
        cfgn.append('n6'); names.append('n6')
    stmts = [f"{n} = 'def:{n}'" for n in defs]
    guard = "def gd(f):\n    try:\n        return f()\n    except NameError:\n        return 'nameerror'"
    if mode == 'module':
        for i, n in enumerate(names):
            stmts.append(f"try:\n    pr{i} = {n}\nexcept NameError:\n    pr{i} = 'nameerror'")
        final = '[' + ', '.join(f'pr{i}' for i in range(len(names))) + ']'
    elif mode == 'func':
        body = '\n'.join(f"    try:\n        out.append({n})\n    except NameError:\n        out.append('nameerror')" for n in names)
        stmts.append('def probe():\n    out = []\n' + body + '\n    return out')
        final = 'probe()'
    elif mode == 'lambda':
        stmts.append(guard)
        final = '[' + ', '.join(f'gd(lambda: {n})' for n in names) + ']'
    elif mode == 'comp':
        stmts.append(guard)
        final = '[' + ', '.join(f'gd(lambda: [{n} for _ in range(1)][0])' for n in names) + ']'
    elif mode == 'nested':
        stmts.append(guard)
        stmts.append('import contextlib\ndef deep(pick):\n    def lvl2():\n        with contextlib.suppress(KeyError):\n            try:\n                return pick()\n'
                     '            finally:\n                pass\n    return lvl2()')
        final = '[' + ', '.join(f'gd(lambda: deep(lambda: {n}))' for n in names) + ']'
    else:
        body = '\n'.join(f"    try:\n        c{i} = {n}\n    except NameError:\n        c{i} = 'nameerror'" for i, n in enumerate(names))
        stmts.append('class PB:\n' + body)
        final = '[' + ', '.join(f'PB.c{i}' for i in range(len(names))) + ']'
    case = {'kind': 'prog', 'sub': 'resolve', 'mode': mode, 'names': names,
            'cfg': [[n, f'cfg:{n}'] for n in cfgn], 'derived': [], 'syms': [[n, f'sym:{n}'] for n in syms],
            'stmts': stmts, 'final': final, 'seps': [], 'style': rng.choice(['block', 'dq']), 'filename': rng.choice([None, 'p.yaml']),
            'rpos': rng.randint(0, len(cfgn)), 'feats': ['resolve:' + mode]}
    if known:
        case['known'] = known
    return case

# ---- build histories ---------------------------------------------------------------------------

HCODES = [
    (['[gd(lambda: s), gd(lambda: a), gd(lambda: y), gd(lambda: len)]'], 'single'),
    (["y = 'def:y@' + str(bid)", '[gd(lambda: s), gd(lambda: a), gd(lambda: y), gd(lambda: len)]'], 'multi'),
    (["y = 'def:y@' + str(bid)", 'def hf():\n    return [s, a]', '[gd(hf), gd(lambda: y), a * 2]'], 'multi'),
    (['tot = 0', 'for i in [1, 2]:\n    tot += a * i', '[tot, gd(lambda: s)]'], 'multi'),
    (['if a > 5:\n    z = 1', '[gd(lambda: z), a, gd(lambda: s)]'], 'multi'),          # a definition made on one branch only
    (['y = gd(lambda: ayns.cfg.a)', '[y, a]'], 'multi'),                               # the escape hatch must be the current build's too
]

def gen_hist(rng):
    """2-4 builds in one process; with `reuse` most builds share one multi-statement persistent code while symbols
    and configs change (the history that used to read the cached module back)"""
    nb = rng.randint(2, 4)
    builds = []
    reuse = rng.random() < 0.65
    base_code = rng.choice(HCODES[1:])
    for k in range(nb):
        cfg = [['a', rng.choice([0, 1, 2, 5, 10, 100])], ['bid', k]]
        if rng.random() < 0.4:
            cfg.append(['s', f'cfg:s@{k}'])
        if rng.random() < 0.3:
            cfg.append(['z', 7 + k])
        syms = [['gd', {'fn': 'guard'}]] + ([['s', f'sym:s@{k}']] if rng.random() < 0.5 else [])
        alt = 'base' if (reuse and rng.random() < 0.75) else rng.choice(['single', 'fstr', 'multi', 'uniq'])
        if alt == 'base':
            stmts = list(base_code[0])
        elif alt == 'multi':
            stmts = list(rng.choice(HCODES[1:])[0])
        elif alt == 'uniq':
            stmts = [f'uniq{k} = {k}'] + list(rng.choice(HCODES[1:])[0])
        elif alt == 'single':
            stmts = list(HCODES[0][0])
        else:
            stmts = None
        if stmts is None:
            lit = "f'{gd(lambda:s)}|{a}|{bid}'"
            builds.append({'kind': 'fstr', 'cfg': cfg, 'derived': [], 'syms': syms, 'form': 'sq', 'scalar': lit, 'ref_lit': lit,
                           'filename': None, 'rpos': rng.randint(0, len(cfg))})
        else:
            builds.append({'kind': 'prog', 'cfg': cfg, 'derived': [], 'syms': syms, 'stmts': stmts[:-1], 'final': stmts[-1], 'seps': [],
                           'style': 'dq', 'filename': rng.choice([None, 'h.yaml']), 'rpos': rng.randint(0, len(cfg))})
    codes = [code_text(b) for b in builds if b['kind'] == 'prog' and b['stmts']]
    shared = len(codes) != len(set(codes))
    return {'kind': 'hist', 'builds': builds, 'feats': ['hist:' + ('same-node-rebuilt' if shared else 'distinct-nodes'), f'hist:builds={nb}']}

# ----------------------------------------------------------------------------------------------
# the property
# ----------------------------------------------------------------------------------------------

HIST_NAMES = ['s', 'a', 'y', 'z', 'bid', 'len', 'tot', 'ayns']

def stmts_of(code):
    """([[kind, source]...], parses): the top-level statements of Python's parse of the stripped code text"""
    try:
        tree = ast.parse(code.strip())
    except SyntaxError:
        return [], False
    return [['expr' if isinstance(x, ast.Expr) else 'other', ast.unparse(x)] for x in tree.body], True

def loaded_names(src):
    try:
        t = ast.parse(src)
    except SyntaxError:
        return []
    return sorted({n.id for n in ast.walk(t) if isinstance(n, ast.Name)})

class C12(Prop):
    ID = 'C12'
    QUICK_N = 1200
    THOROUGH_N = 6000
    RULE = ('programs of a generated grammar (arith/compare/bool/conditional expressions, subscripts and attribute access on config dicts, '
            'assignment, augmented assignment, def with defaults and closures, lambda, list/dict/set/generator/nested comprehensions, '
            'if/elif/else, for/while with break/continue/else, try/except/else/finally with raised and custom exceptions, with over a '
            'context manager defined in the code (class or generator), imports, global in nested functions, > 256 names) over random '
            'config names (ints, strings, lists, dicts, !eval entries), eval symbols (data and functions) and shadowing between '
            'definitions, symbols, config entries and builtins; programs whose last statement raises; f-string nodes in the three forms; '
            'name-resolution probes at module level, in functions, lambdas, comprehensions, nested try/with and class bodies; histories of '
            '2-4 builds in one process; every case in its own forked interpreter; non-trivial = the code reads at least one config name '
            'or symbol; distinct by SHA-1 of the case')
    ASSUMPTIONS = ['CPython exec/eval on a plain dict is the reference ("what Python computes"); it is sampled, not modelled',
                   'md5 is injective on the code texts of one process (registry key = path + code)',
                   'YAML text <-> scalar value is PyYAML (exercised by rendering, not modelled)']

    def __init__(self):
        import atexit
        self.w = Worker()
        self.cache = {}      # case -> observation of the last real run (lets `model_requests` ask about what the run stored)
        atexit.register(self.w.close)

    # -- cases -------------------------------------------------------------------------------
    def corpus(self):
        P = lambda cfg, syms, stmts, final, **kw: dict({'kind': 'prog', 'cfg': cfg, 'derived': [], 'syms': syms, 'stmts': stmts,
                                                        'final': final, 'seps': [], 'style': 'block', 'filename': None, 'rpos': 0, 'feats': []}, **kw)
        return [
            P([['a', 1], ['b', 2]], [], [], 'a + b'),                                        # D10: no file name
            P([['a', 1], ['b', 2]], [], [], 'a + b', filename='c.yaml', style='dq'),         # D10: the segfault witness
            P([['a', 5], ['l', [1, 2, 3]]], [['s', 3]], ['def f(x, y=a):\n    return [x * a + y + s for _ in l]'], 'f(2)'),
            P([['a', 5]], [], ['try:\n    t = 1 // (a - a)\nexcept ZeroDivisionError:\n    t = a\nfinally:\n    u = a + 1'], '[t, u]', filename='c.yaml'),
            P([['a', 5]], [], [f'zp{i} = {i}' for i in range(300)], 'zp299 + a + zp0', feats=['extended-arg']),
            P([['d', {'k': 4}]], [], [], 'd.k + d["k"]'),
            P([['a', 0]], [], [], '1 // a', feats=['error:zerodiv']),
            P([], [], [], "'a;b'", style='dq'),                                               # D23 repaired: ';' in a literal
            P([['c', 0]], [], ['x = 1; y = 2', 'if c: x = 10; y = 20'], 'x + y'),              # D23 repaired: '; ' and one-line compound
            P([['a', 1]], [], ['x = 1'], '[x,\n a]'),                                          # last expression on two lines
            P([['a', 1]], [], ['x = a'], 'y = x', style='dq'),                                 # last statement is not an expression
            {'kind': 'fstr', 'cfg': [['d', {'k': 1}]], 'derived': [], 'syms': [], 'form': 'explicit', 'scalar': "{d['k']} it's",
             'ref_lit': 'f"{d[\'k\']} it\'s"', 'filename': None, 'rpos': 0, 'feats': ['fstr:explicit']},   # D25 repaired
            {'kind': 'hist', 'feats': ['hist:same-node-rebuilt'], 'builds': [                 # D11 repaired
                dict(P([['a', 10], ['z', 7]], [['s', 1], ['gd', {'fn': 'guard'}]], ['y = 1', 'if a > 5:\n    z = 1'], '[s + y, z, gd(lambda: ayns.cfg.a)]', style='dq')),
                dict(P([['a', 0], ['z', 7], ['s', 100]], [['gd', {'fn': 'guard'}]], ['y = 1', 'if a > 5:\n    z = 1'], '[s + y, z, gd(lambda: ayns.cfg.a)]', style='dq'))]},
            {'kind': 'fstr', 'cfg': [['a', 5]], 'derived': [], 'syms': [], 'form': 'sq', 'scalar': "f'x{a}'", 'ref_lit': "f'x{a}'",
             'filename': None, 'rpos': 1, 'feats': ['fstr:sq']},
            {'kind': 'fstr', 'cfg': [['a', 5]], 'derived': [], 'syms': [], 'form': 'explicit', 'scalar': "it's {a}", 'ref_lit': 'f"it\'s {a}"',
             'filename': None, 'rpos': 0, 'feats': ['fstr:explicit']},
        ] + errwrap.corpus()

    def gen_cases(self, rng, n, tier):
        clean, known = [], []
        errors = ['zerodiv', 'keyerror', 'nameerror', 'custom', 'index', 'value', 'attr', 'type', 'in-comp', 'in-func']
        for i in range(n):
            x = rng.random()
            if x < 0.50:
                clean.append(gen_prog(rng, tier, error=rng.choice(errors) if rng.random() < 0.2 else None))
            elif x < 0.55:
                clean.append(gen_prog(rng, tier, pad=rng.choice([257, 300, 520]), error='zerodiv' if rng.random() < 0.1 else None))
            elif x < 0.70:
                clean.append(gen_fstr(rng))
            elif x < 0.83:
                clean.append(gen_resolve(rng))
            else:
                clean.append(gen_hist(rng))
        # witnesses of the one recorded finding class (D26), at the end so that new violations are triaged first
        known.append(gen_resolve(rng, known='class-body-config-name'))
        known.append(gen_prog(rng, tier, known='class-body-config-name'))
        r2 = random.Random(rng.random())      # drawn after the others: those stay as they were
        return clean + errwrap.gen_cases(r2, max(1, n // 3)) + known

    # -- implementation ----------------------------------------------------------------------
    def impl(self, case):
        if case['kind'] in errwrap.KINDS:
            io = errwrap.impl(case)
            self.cache[json.dumps(case, sort_keys=True, default=str)] = io
            return io
        res = self.w.run(job_of(case))
        if 'worker_died' in res['status']:
            return {'harness_error': f'the worker process died twice outside a case (rc {res["status"]["worker_died"]})'}
        nb = len(builds_of(case))
        out = {'status': res['status'], 'builds': [{'ref': None, 'impl': None} for _ in range(nb)]}
        for l in res['lines']:
            if l.get('t') in ('ref', 'impl') and l['i'] < nb:
                out['builds'][l['i']][l['t']] = l['r']
            elif l.get('t') == 'child-error':
                out['child_error'] = l['e']
        if 'child_error' in out and out['status'].get('exit') == 97:
            return {'harness_error': 'worker child failed: ' + out['child_error']}
        if len(self.cache) > 20000:
            self.cache.clear()
        self.cache[json.dumps(case, sort_keys=True, default=str)] = out
        return out

    # -- oracle ------------------------------------------------------------------------------
    def oracle(self, case, io, ans):
        if case['kind'] in errwrap.KINDS:
            return errwrap.oracle(case, io)
        st = io['status']
        if st != {'exit': 0}:
            done = sum(1 for b in io['builds'] if b['impl'] is not None)
            return f'the interpreter did not survive the build: status {st} during build {done} (no result for it)'
        for i, b in enumerate(io['builds']):
            ref, im = b['ref'], b['impl']
            tag = f'build {i}: ' if len(io['builds']) > 1 else ''
            if 'ok' in ref:
                if 'ok' not in im:
                    return f"{tag}python computes {json.dumps(ref['ok'])[:120]} but the build raised {im.get('exc')} <- {im.get('cause')}: {im.get('msg')}"
                if im['ok'] != ref['ok']:
                    return f"{tag}python computes {json.dumps(ref['ok'])[:160]} but the node evaluated to {json.dumps(im['ok'])[:160]}"
            elif ref['exc'] in ('SyntaxError', 'IndentationError', 'TabError'):
                continue     # not a Python program: outside the quantifier (only shrinking candidates get here)
            else:
                if 'ok' in im:
                    return f"{tag}python raises {ref['exc']} but the node evaluated to {json.dumps(im['ok'])[:120]}"
                if im.get('exc') != 'EvalError':
                    return f"{tag}python raises {ref['exc']}; the build raised {im.get('exc')} instead of EvalError"
                if not im.get('cause') or im['cause'][0] != ref['exc']:
                    return f"{tag}python raises {ref['exc']}; the EvalError carries the cause chain {im.get('cause')}: {im.get('msg')}"
        return None

    def finding_key(self, case, desc):
        return case.get('known')

    # -- model -------------------------------------------------------------------------------
    def model_requests(self, case):
        if case['kind'] in errwrap.KINDS:
            io = self.cache.get(json.dumps(case, sort_keys=True, default=str))
            return errwrap.requests(case, io if io is not None else errwrap.impl(case))
        return self.reqs_for(case, self.cache.get(json.dumps(case, sort_keys=True, default=str)))

    def model_obs(self, case, answers):
        return answers

    def resolve_req(self, b, stored, locals_):
        ex, ev = ref_parts(b)
        names = sorted(set(loaded_names(ex) + loaded_names(ev)) | set(b.get('names', [])))
        return {'op': 'c12', 'q': 'resolve', 'names': names, 'defs': stored, 'syms': [n for n, _ in b['syms']],
                'cfg': [n for n, _ in b['cfg']] + [n for n, _ in b.get('derived', [])] + ['r'], 'builtins': BUILTIN_NAMES,
                'locals': locals_}

    def complete(self, io):
        return bool(io) and 'builds' in io and io['status'] == {'exit': 0} and all(b['impl'] is not None and b['ref'] is not None for b in io['builds'])

    def reqs_for(self, case, io):
        # per build: [text request (split over Python's statement list / fstr)] and, when the run is known,
        # [resolve, split of the node's code]; then one history request.  The run-dependent requests use what the
        # real run reported (stored names, node code).
        builds = builds_of(case)
        reqs = []
        for b in builds:
            sv = scalar_value(b)
            if b['kind'] == 'fstr':
                reqs.append({'op': 'c12', 'q': 'fstr', 'explicit': b['form'] == 'explicit', 's': sv})
            else:
                reqs.append({'op': 'c12', 'q': 'split', 'stmts': stmts_of(sv)[0]})
        if not self.complete(io):
            return reqs
        steps = []
        for i, b in enumerate(builds):
            ref, node = io['builds'][i]['ref'], io['builds'][i]['impl']['node']
            code = node[1] if node[0] != 'parse-error' else scalar_value(b)
            reqs.append(self.resolve_req(b, ref['stored'], [f'c{j}' for j in range(len(b['names']))] if b.get('mode') == 'class' else []))
            reqs.append({'op': 'c12', 'q': 'split', 'stmts': stmts_of(code)[0]})
            steps.append({'build': i, 'syms': [n for n, _ in b['syms']], 'cfg': [n for n, _ in b['cfg']] + ['r'], 'path': 'r',
                          'code': code, 'stmts': len(stmts_of(code)[0]), 'persistent': b['kind'] != 'fstr',
                          'defs': ref['stored'], 'fails': 'exc' in io['builds'][i]['impl'], 'names': HIST_NAMES})
        reqs.append({'op': 'c12', 'q': 'hist', 'builtins': BUILTIN_NAMES, 'steps': steps})
        return reqs

    def compare(self, case, io, answers):
        if case['kind'] in errwrap.KINDS:
            return errwrap.compare(case, io, answers)
        if not self.complete(io):
            return None      # a crash is the oracle's business
        builds = builds_of(case)
        nb = len(builds)
        reqs = self.reqs_for(case, io)
        if len(answers) != len(reqs):
            return None      # the run was not known when the requests were made (cannot happen within evaluate_cases)
        bad = [a for a in answers if 'bad' in a]
        if bad:
            return f'driver rejected a request: {bad[0]}'
        second = reqs[nb:]
        ans2 = answers[nb:]
        steps = reqs[-1]['steps']
        hist = ans2[-1]
        for i, b in enumerate(builds):
            im, ref = io['builds'][i]['impl'], io['builds'][i]['ref']
            a_text, a_res = answers[i], ans2[2 * i]
            node = im['node']
            sv = scalar_value(b)
            # ---- f-string normalisation / what is done with the statements of the code
            if b['kind'] == 'fstr':
                if a_text.get('code') is None:
                    if node[0] == 'FStrNode':
                        return f'build {i}: normFstr says the scalar {sv!r} is not an f-string node, the loader made {node}'
                    continue
                if node[0] != 'FStrNode' or node[1] != a_text['code']:
                    return f'build {i}: normFstr gives {a_text["code"]!r}, the loader made {node}'
                sp = ans2[2 * i + 1]
            else:
                if node[0] != 'EvalNode' or node[1] != sv:
                    return f'build {i}: the harness expects an EvalNode with code {sv!r}, the loader made {node}'
                sp = a_text
            parses = stmts_of(node[1])[1]
            trees = [c for c in im['compiles'] if isinstance(c[0], list) or c[1] == 'eval']
            pairs = [[trees[j][0], trees[j + 1][0]] for j in range(len(trees) - 1) if trees[j][1] == 'exec' and trees[j + 1][1] == 'eval']
            if 'error' in sp:
                # no statement, or the last one is not an expression (or Python cannot parse the text): SyntaxError -> EvalError
                if im.get('exc') != 'EvalError' or not im.get('cause') or im['cause'][0] not in ('SyntaxError', 'IndentationError', 'TabError'):
                    return f'build {i}: splitStmts rejects the code (parses={parses}) but the build gave {json.dumps({k: im.get(k) for k in ("ok", "exc", "cause")})[:160]}'
            elif ref.get('exc') in ('SyntaxError', 'IndentationError', 'TabError'):
                pass         # parsed, but rejected by the compiler (e.g. `return` at top level): Python's business, outside the grammar
            else:
                want = [sp['exec'], sp['eval']]
                if want not in pairs:
                    return f'build {i}: splitStmts gives exec={want[0]!r} eval={want[1]!r}; compiled trees were {trees[-2:]}'
            fn = b.get('filename') or '<unknown>'
            if any(c[2] != fn for c in im['compiles']):
                return f'build {i}: code compiled under file name {[c[2] for c in im["compiles"]]}, expected {fn!r}'
            # ---- publication of a module (more than one statement, persistent, no error)
            key = module_key(b) if b['kind'] != 'fstr' else None
            if key is not None:
                pub_model = hist['steps'][i]['published']
                pub_impl = key in im['registry']
                if pub_model != pub_impl:
                    return f'build {i}: the registry machine says published={pub_model}, sys.modules says {pub_impl} ({im["registry"]})'
                if 'error' not in sp and 'exc' not in im and hist['steps'][i]['publishes'] != sp['multi']:
                    return f'build {i}: publishes={hist["steps"][i]["publishes"]} but multiStmt={sp["multi"]}'
            # ---- name resolution: what reached __missing__
            names = second[2 * i]['names']
            defs = set(ref['stored'])
            for n, cls in zip(names, a_res['spec']):
                mech = a_res['mech'][names.index(n)][0]
                if n not in ('ayns', '__name__', '__file__') and mech != cls:
                    return f'build {i}: Globals.lookup({n}) = {mech} but resolve = {cls}'
                if n in defs:
                    continue
                seen = {k for m, k in im['missing'] if m == n}
                if cls in ('sym',) and seen:
                    return f'build {i}: {n} is a symbol for the model but reached __missing__ ({seen})'
                if cls == 'cfg' and 'miss' in seen:
                    return f'build {i}: {n} is a config entry for the model but __missing__ raised KeyError'
                if cls in ('builtin', 'nameError') and 'cfg' in seen:
                    return f'build {i}: {n} is {cls} for the model but __missing__ returned a config entry'
            # ---- resolution probes: class of every probed name
            if b.get('sub') == 'resolve' and 'ok' in im:
                vals = im['ok'].get('l') if isinstance(im['ok'], dict) else None
                if vals is None or len(vals) != len(b['names']):
                    return f'build {i}: probe result has an unexpected shape: {json.dumps(im["ok"])[:120]}'
                for n, v in zip(b['names'], vals):
                    obs = ('nameError' if v == 'nameerror' else v.split(':')[0] if isinstance(v, str) else
                           'builtin' if isinstance(v, dict) and str(v.get('o', '')).startswith(('builtin:', 'type')) else '?')
                    field = 'cbody' if b.get('mode') == 'class' else 'mech'
                    pred = a_res[field][names.index(n)][0]
                    if obs != pred:
                        return f'build {i}: {b["mode"]}-level lookup of {n}: model {field} says {pred}, the real run observed {obs} ({v})'
        # ---- histories: the values the registry machine predicts
        if case['kind'] == 'hist':
            for i, b in enumerate(builds):
                im = io['builds'][i]['impl']
                if hist['steps'][i]['lookups'] != hist['steps'][i]['fresh']:
                    return f'build {i}: the registry machine itself is not history independent: {hist["steps"][i]}'
                if 'ok' not in im:
                    continue
                env = {}
                for n, (cls, prov) in zip(steps[i]['names'], hist['steps'][i]['lookups']):
                    if cls == 'sym':
                        env[n] = dict(map(tuple, builds[prov]['syms'])).get(n, '?')
                    elif cls == 'cfg':
                        env[n] = dict(map(tuple, builds[prov]['cfg'])).get(n, '?')
                    elif cls == 'injected' and n == 'ayns':
                        env[n] = RefBunch({'cfg': RefBunch((k, to_ref(v)) for k, v in builds[prov]['cfg'])})
                    elif cls == 'builtin':
                        env[n] = getattr(_bi, n)
                    # definitions are recomputed by running the code on this environment; a NameError stays one
                pred = self.predict_hist(b, env)
                if pred is not None and pred != im['ok']:
                    return (f'build {i}: the registry machine predicts {json.dumps(pred)[:140]} (lookups {hist["steps"][i]["lookups"]}), '
                            f'the real build gave {json.dumps(im["ok"])[:140]}')
        return None

    def predict_hist(self, b, env):
        # value of a history program when every free name has the value the machine assigns to it
        ns = dict(env)
        ns['gd'] = _guard
        ex, ev = ref_parts(b)
        try:
            if ex:
                exec(ex, ns)
            return canon(eval(ev, ns))
        except Exception:  # noqa
            return None

    # -- bookkeeping -------------------------------------------------------------------------
    def nontrivial(self, case, io):
        if case['kind'] in errwrap.KINDS:
            return True
        for b, o in zip(builds_of(case), io['builds']):
            if o['impl'] and any(k == 'cfg' for _, k in o['impl'].get('missing', [])):
                return True
            if b['syms']:
                return True
        return False

    def features(self, case, io):
        if case['kind'] in errwrap.KINDS:
            return errwrap.features(case, io)
        fs = list(case.get('feats', []))
        fs.append('kind:' + case['kind'] + (':' + case['sub'] if case.get('sub') else ''))
        for b, o in zip(builds_of(case), io['builds']):
            fs.append('filename:' + ('yes' if b.get('filename') else 'none'))
            if b['kind'] != 'fstr':
                fs.append('style:' + b.get('style', 'dq'))
            if o['impl'] is not None:
                fs.append('result:' + ('value' if 'ok' in o['impl'] else 'EvalError<-' + (o['impl'].get('cause') or ['?'])[0]))
        if io['status'] != {'exit': 0}:
            fs.append(f'status:{io["status"]}')
        if case.get('known'):
            fs.append('known-class:' + case['known'])
        return sorted(set(fs))

    def render(self, case):
        if case['kind'] in errwrap.KINDS:
            return '\n'.join(errwrap.render(case))
        bs = builds_of(case)
        out = []
        for i, b in enumerate(bs):
            head = f'# build {i}: filename={b.get("filename")!r} eval_symbols={json.dumps(b["syms"])}\n'
            out.append(head + render_build(b))
        return '\n'.join(out)

    def shrink(self, case):
        if case['kind'] in errwrap.KINDS:
            return list(errwrap.shrink(case))
        out = []
        def used(b, name):
            txt = code_text(b) + ' ' + ' '.join(c for _, c in b.get('derived', []))
            return re.search(r'\b' + re.escape(name) + r'\b', txt) is not None
        if case['kind'] == 'hist':
            bs = case['builds']
            if len(bs) > 2:
                for i in range(len(bs)):
                    out.append(dict(case, builds=bs[:i] + bs[i + 1:]))
            for i, b in enumerate(bs):
                for c in self.shrink(b):
                    out.append(dict(case, builds=bs[:i] + [c] + bs[i + 1:]))
            return out
        if case['kind'] == 'prog':
            st = case['stmts']
            if len(st) > 8:
                out.append(dict(case, stmts=st[len(st) // 2:], seps=[]))
                out.append(dict(case, stmts=st[:len(st) // 2], seps=[]))
            for i in range(len(st)):
                seps = list(case.get('seps') or [])
                if i < len(seps):
                    del seps[i]
                out.append(dict(case, stmts=st[:i] + st[i + 1:], seps=seps))
                if '\n' in st[i]:
                    lines = st[i].split('\n')
                    for j in range(len(lines)):
                        out.append(dict(case, stmts=st[:i] + ['\n'.join(lines[:j] + lines[j + 1:])] + st[i + 1:]))
            fin = case['final']
            if fin.startswith('[') and fin.endswith(']'):
                try:
                    elts = [ast.get_source_segment(fin, e) for e in ast.parse(fin, mode='eval').body.elts]
                    if len(elts) > 1:
                        for j in range(len(elts)):
                            out.append(dict(case, final='[' + ', '.join(elts[:j] + elts[j + 1:]) + ']'))
                    elif len(elts) == 1:
                        out.append(dict(case, final=elts[0]))
                except (SyntaxError, AttributeError):
                    pass
            try:
                tree = ast.parse(fin, mode='eval').body
                for sub in ast.iter_child_nodes(tree):
                    seg = ast.get_source_segment(fin, sub)
                    if seg and isinstance(sub, ast.expr) and seg != fin:
                        out.append(dict(case, final=seg))
            except SyntaxError:
                pass
            if case.get('seps') and any(s != '\n' for s in case['seps']):
                out.append(dict(case, seps=[]))
            if case.get('style') == 'block':
                out.append(dict(case, style='dq'))
        if case['kind'] == 'fstr':
            sc0 = case['scalar']
            body = sc0 if case['form'] == 'explicit' else sc0[2:-1]
            for m in re.finditer(r'\{[^{}]*\}|[^{}]+', body):
                nb = body[:m.start()] + body[m.end():]
                if nb and nb != body:
                    if case['form'] == 'explicit':
                        sc, rl = nb, ref_literal(nb)
                    else:
                        sc = rl = 'f' + sc0[1] + nb + sc0[1]
                    if rl is not None:
                        out.append(dict(case, scalar=sc, ref_lit=rl))
        for i, (n, _) in enumerate(case['cfg']):
            if not used(case, n):
                out.append(dict(case, cfg=case['cfg'][:i] + case['cfg'][i + 1:], rpos=0))
        for i, (n, _) in enumerate(case['syms']):
            if not used(case, n):
                out.append(dict(case, syms=case['syms'][:i] + case['syms'][i + 1:]))
        if case.get('derived') and not used(case, case['derived'][0][0]):
            out.append(dict(case, derived=[]))
        if case.get('filename'):
            out.append(dict(case, filename=None))
        return out

PROP = C12()
