"""C01 — tags are transparent: one source evaluates to its plain-YAML content.

Second family (`kind: meta`): the TEXT step `_encode_all_metadata` / `_get_metadata_content` / `_decode_metadata`
against AY.Model.MetaText (driver ops metaSplice, metaSplit).  A case is a list of segments: plain text pieces and
`!tag{{python dict}}` blocks (0..6 blocks: nested braces in the literal, strings with quotes / braces / unicode,
`{{` inside quoted scalars without a tag in front, adjacent blocks, a block at the very start / the very end).  The
real functions run on the text; the ranges they find, the replacement strings they compute and the ends the real
tokenizer-based `_get_metadata_end` reports at EVERY `{{` of the text go to the model, which must reproduce the
rewritten text character by character (literal loop = one-pass specification), the ranges (its own search loop and
tag regex, ends from the table) and the special/user split of every decoded dict.  Oracle on the implementation alone:
outside the blocks the text is unchanged, every block became `:hex` and the hex decodes to the python literal, in
order; no constructor keyword stays in the user metadata."""
import re, pickle, inspect
import yaml as pyyaml
import random as _random
from props.mergefam import *
from awesomeyaml import yaml as ay_yaml

def erase(n):
    m = {k: v for k, v in n.items() if k not in ('t', 'kw', 'txt')}
    if 'q' in m:
        m['q'] = [erase(c) for c in m['q']]
    elif 'm' in m:
        m['m'] = [[k, erase(c)] for k, c in m['m']]
    return m

def py_to_val(v):
    if isinstance(v, dict):
        return {'d': [[sc_json(k), py_to_val(x)] for k, x in v.items()]}
    if isinstance(v, list):
        return {'l': [py_to_val(x) for x in v]}
    return sc_json(v)

def plain_to_val(p):
    return p   # driver's plainJ already uses {'d': ..} / {'l': ..} / scalars

# ------------------------------------------------------------------------------------------------
# family `meta`: the {{...}} rewriting on text
# ------------------------------------------------------------------------------------------------
_TAG_RE = re.compile(r'(![a-zA-Z0-9_:.()]+){{')          # the pattern of _get_metadata_content, for the `tags` cross-check
_META_TAGS = ['!metadata', '!del', '!x', '!call:f.g', '!bind:m.f(x)', '!required', '!path:parent(2)', '!a.b:c_d', '!Z9', '!null']
_META_TEXTS = ['a: ', 'k: ', '\n', ' ', ' ', ', ', '\n- ', ' 5\n', ' [1, 2]\n', "q: '{{ not a block }}'\n", 'r: "}} {{"\n',
               'x: {y: {z: 1}}\n', '# c {{\n', 'e: !tag no braces\n', '! ', '!{{', 'a! {{', '{{', '}}', 'ü: ✓ 😀\n', '"!é{{"', '\t',
               '- !plain\n', '[', ']', '{', '}', ': ', '\u00a0', '𝔘{', '!!', '']
_META_SEPS = [' ', '\n', ',', ' ', '  ', '\n  ', ' x ', ', ']
_SPECIAL_CANON = [p for p in inspect.signature(ConfigNode.__init__).parameters
                  if p not in ('self', 'metadata', 'pyyaml_node') and not p.startswith('implicit_')]   # the constructor keywords

_META_BROKEN = [" !u{{'a': 1} ", ' !u{{', " !u{{'a': 'x}}", " !u{{'a': 1}", " !u{{'a': 1)}}", " !u{{'a': 1]}}", " !u{{'a': [1}}", " !u{{'a': (1, 2}}",
                " !u{{'a': \"x}}", " !u{{'a': '''x'}}''", ' !u{{"a\\"}}', " !u{{'a': 'x\\'}}", ' !u{{(', " !u{{'a': {1: 2}} }", ' !u{{ } }}',
                " !u{{'a': r'\\'}}", ' !u{{ü: 😀 ]', " !u{{'''", ' !u{{"', ' !u{{\\']
def _cps(s): return [ord(c) for c in s]
def _str(cps): return ''.join(chr(c) for c in cps)

def meta_text(segs):
    return ''.join(s[1] if s[0] == 't' else s[1] + '{' + s[2] + '}' for s in segs)

class Src(str):
    """a value given by its python source (spellings repr() never produces)"""

# string spellings the end finder has to read as strings: escaped quotes, triple quotes (with quotes, '}}' and line breaks
# inside), prefixes, brackets and '}}' inside strings, implicit concatenation, a backslash before the closing quote of a
# raw string; and bracketed values: sets, tuples, nested dicts / lists
_MD_SRCS = [r"'it\'s }}'", r'"say \"hi\" }}"', r"'\\'", r"'a\\'", r"'\\\'}}'", "'''tri'ple \"q\" }} '''", '"""a "q" \'\'\' }} b"""', "'''a\nb}}'''",
            '""""x" """', "''''''", '""', "''", r"r'a\d}}'", "b'x}}'", r"rb'\x ]'", "f'{1+1}}}'", r"R'\''", "u'ü}}'", "'[({'", '")]}"',
            "'}}'", "'a' \"}}\"", "('a' '}}')", '{7}', '{(1, 2)}', '[(1, {2: [3]})]', "{'y': {'z': {}}}", '((),)', '[[], {}]',
            "{'😀': ['ü}}', {'k': (1,)}]}", '{1: {2: {3: {4: 5}}}}', "'\\N{BULLET}}}'", '-1.5e3', "dict(a=1)['a']", '[1,\n 2]']

def _py_src(v, rng, depth=0, multiline=False):
    """python source of a value, in a random but valid spelling"""
    if isinstance(v, Src):
        return str(v)
    if isinstance(v, dict):
        sp = '\n ' if multiline and depth == 0 else rng.choice(['', '', ' '])
        items = [_py_src(k, rng, depth + 1) + rng.choice([': ', ':', ' : ']) + _py_src(x, rng, depth + 1) for k, x in v.items()]
        tail = rng.choice(['', '', ',']) if items else ''
        return '{' + sp + rng.choice([', ', ',', ' , ']).join(items) + tail + sp + '}'
    if isinstance(v, list):
        return '[' + ', '.join(_py_src(x, rng, depth + 1) for x in v) + ']'
    if isinstance(v, tuple):
        return '(' + ', '.join(_py_src(x, rng, depth + 1) for x in v) + (',' if len(v) == 1 else '') + ')'
    if isinstance(v, str) and rng.random() < 0.3 and "'" not in v and '"' not in v and '\\' not in v and v.isprintable():
        return '"' + v + '"'
    return repr(v)

_MD_STRS = ['bar', 'lru', '', 'a b', "it's", 'q"r', '{', '}', '{{', '} }', '{x}', '!t{{', 'é✓', '😀', '#', ':', 'a\nb', '}}', 'p}}q', '\\']
def _md_value(rng, depth):
    r = rng.random()
    if rng.random() < 0.22:
        return Src(rng.choice(_MD_SRCS))
    if depth <= 0 or r < 0.55:
        return rng.choice([0, 1, -1, 7, True, False, None, 1.5] + _MD_STRS)
    if r < 0.7:
        return [_md_value(rng, depth - 1) for _ in range(rng.choice([0, 1, 2, 3]))]
    if r < 0.78:
        return tuple(_md_value(rng, depth - 1) for _ in range(rng.choice([0, 1, 2])))
    return {rng.choice(['y', 'z', 'n', 1, 'k k', 'safe']): _md_value(rng, depth - 1) for _ in range(rng.choice([0, 1, 2]))}

def _md_dict(rng):
    d = {}
    for _ in range(rng.choice([0, 1, 1, 2, 3, 4])):
        if rng.random() < 0.45:
            k = rng.choice(['priority', 'delete', 'allow_new', 'safe', 'idx', 'source_file'])
            d[k] = {'priority': rng.choice([-1, 0, 1]), 'delete': rng.choice([True, False]), 'allow_new': rng.choice([True, False]),
                    'safe': rng.choice([True, False]), 'idx': rng.choice([0, 3]), 'source_file': rng.choice(['f.yaml', None])}[k]
        else:
            d[rng.choice(['foo', 'note', 'available_options', 'metadata', 'Priority', 'safe_', '_safe', 'k k', 'ü', 1, (1, 2), 'x'])] = _md_value(rng, 2)
    return d

def gen_meta_case(rng):
    """segments of one text: 0..6 blocks between text pieces"""
    nb = rng.choice([0, 1, 1, 2, 2, 3, 4, 5, 6])
    segs = []
    if rng.random() < 0.7:
        segs.append(['t', ''.join(rng.choice(_META_TEXTS) for _ in range(rng.choice([1, 1, 2, 3])))])
    for i in range(nb):
        src = _py_src(_md_dict(rng), rng, 0, rng.random() < 0.15)
        blk = ['b', rng.choice(_META_TAGS), src]
        segs.append(blk)
        if i + 1 < nb or rng.random() < 0.75:        # else: the block is the very end of the text
            r = rng.random()
            if r < 0.35 and i + 1 < nb:
                segs.append(['t', rng.choice(_META_SEPS)])        # adjacent blocks: a short separator
            elif r < 0.4 and i + 1 < nb:
                pass                                              # glued: the next tag follows without a separator
            else:
                segs.append(['t', rng.choice(_META_SEPS) + ''.join(rng.choice(_META_TEXTS) for _ in range(rng.choice([0, 1, 2])))])
    if rng.random() < 0.12:          # a block without end (the ValueError of the search loop): unterminated blocks and strings,
        # closers that close nothing at depth 0, a single '}' at depth 0 - at the end of the text or followed by more text
        segs.append(['t', rng.choice(_META_BROKEN) + rng.choice(['', '', ' k: 2\n', "}} 'x'}}", ' !v{{}}'])])
    return {'docs': [], 'style': ['flow', 0, 0], 'kind': 'meta', 'segs': segs}

def META(*segs):
    return {'docs': [], 'style': ['flow', 0, 0], 'kind': 'meta', 'segs': [list(s) for s in segs]}

META_CORPUS = [
    META(('t', 'caching_policy: '), ('b', '!metadata', "{ 'available_options': ['lru', 'fifo', 'filo'] }"), ('t', ' lru\n')),     # README
    META(('b', '!del', "{'delete': True, 'priority': -1, 'note': 'x'}")),                                     # the whole text is one block
    META(('b', '!a', '{}'), ('t', ' '), ('b', '!b', "{'k': 1}"), ('t', ','), ('b', '!c', "{'safe': False}"), ('t', '\n'),
         ('b', '!d', "{'x': [{'y': 1}, 2]}"), ('t', ' '), ('b', '!e', "{'ü': '😀'}"), ('t', ' '), ('b', '!f', "{1: (2, 3)}")),   # six blocks, one-character gaps
    META(('t', "q: '{{ not a block }}'\nr: \"}} {{\"\ns: {t: {u: 1}}\n!{{ a! {{ 'x'}}\n")),                       # braces, no block
    META(('t', 'a: '), ('b', '!metadata', "{'x': {'y': 1}, 'z': {} }"), ('t', ' 5\n')),                        # nested braces the end finder reads
    META(('t', 'a: '), ('b', '!metadata', "{'x': {'y': 1}}"), ('t', ' 5\n')),                                  # limit: nested closing braces
    META(('t', 'a: '), ('b', '!metadata', "{'x': 'p}}q'}"), ('t', ' 5\n')),                                    # limit: '}}' in a string
    META(('t', 'a: '), ('b', '!metadata', "{\n 'x': 1,\n }"), ('t', ' 5\nb: 6\n')),                           # multiline
    META(('b', '!a', "{'k': 1}"), ('b', '!b', "{'k': 2}")),                                                   # glued
    META(('t', 'a: '), ('b', '!x', "{'k': 1}"), ('t', " b: !u{{'never': 1} ")),                               # no end: ValueError
    # the character scanner (repo fix e40192c; AY.Model.MetaText.metadataEnd): the witnesses of Props/C01_MetaText.lean section 5
    META(('b', '!a', "{'k': 'it\\'s }}', 2: \"\"\"a\"b'''}}\"\"\", 3: r'[(', 4: [(1, {2})]}"), ('t', ' z')),
    META(('t', 'k: '), ('b', '!del', '{ "x": 1, "y" : -2.5 }'), ('t', ' 5')),
    META(('t', "!a{{'k': 1)}} !b{{'k': [1}} !c{{'k': 'x}} !d{{'k': 1} !e{{")),
    META(('t', 'a: '), ('b', '!x', "{'p': '}}'}"), ('t', ' b '), ('b', '!del', '{\n}'), ('t', ','), ('b', '!y', '{1: (1, [2]), 2: {3}}')),
    META(('b', '!m', "{'r': r'\\'}}', 'b': b'}}', 't': '''''', 'e': ''''x''', 'c': 'a' \"}}\"}"), ('t', '\n')),
]

def meta_expect(segs):
    """what the generator knows about the case: 'ok' (the oracle applies) or the reason why it does not:
    'glued' — a tag directly after a block (the search resumes one character after the block, past the '!');
    'stray' — the text pieces themselves contain a tag followed by '{{'"""
    text = meta_text(segs)
    pos, begs = 0, []
    for s in segs:
        if s[0] == 'b':
            begs.append(pos + len(s[1]))
            # nested closing braces, '}}' inside a string and literals with line breaks used to defeat the end finder
            # (D36-D38, repaired: the block ends at the first '}}' outside strings and nested brackets): the oracle applies
        pos += len(s[1]) if s[0] == 't' else len(s[1]) + len(s[2]) + 2
    for i, s in enumerate(segs[:-1]):
        if s[0] == 'b' and (segs[i + 1][0] == 'b' or (segs[i + 1][1] == '' and i + 2 < len(segs) and segs[i + 2][0] == 'b')):
            return 'glued'
    inside = lambda b: any(bb <= b < bb + len(s[2]) + 2 for bb, s in zip(begs, [x for x in segs if x[0] == 'b']))
    for m in _TAG_RE.finditer(text):
        if m.end(1) not in begs and not inside(m.end(1)):
            return 'stray'
    # a tag character run in front of a block tag would extend the match to the left but not move its end: fine
    return 'ok'

def meta_impl(case):
    """the real functions on the text, with the ranges and the replacement strings they compute recorded"""
    text = meta_text(case['segs'])
    obs = {'text': text}
    try:
        obs['ranges'] = [list(r) for r in ay_yaml._get_metadata_content(text)]
    except Exception as e:  # noqa
        obs['ranges_error'] = [type(e).__name__, str(e)]
    ends = []
    for b in range(len(text)):
        if text[b:b + 2] == '{{':
            try:
                ends.append([b, ay_yaml._get_metadata_end(text, b)])
            except Exception as e:  # noqa
                ends.append([b, {'raise': type(e).__name__}])
    obs['ends'] = ends
    rec = {'ranges': [], 'enc': []}
    orig_content, orig_encode = ay_yaml._get_metadata_content, ay_yaml._encode_metadata
    def content(data):
        for r in orig_content(data):
            rec['ranges'].append(list(r))
            yield r
    def encode(md):
        e = orig_encode(md)
        rec['enc'].append(e)
        return e
    ay_yaml._get_metadata_content, ay_yaml._encode_metadata = content, encode
    try:
        obs['out'] = ay_yaml._encode_all_metadata(text)
    except Exception as e:  # noqa
        obs['out_error'] = [type(e).__name__, str(e)[:120]]
    finally:
        ay_yaml._get_metadata_content, ay_yaml._encode_metadata = orig_content, orig_encode
    obs['seen_ranges'] = rec['ranges']
    obs['repls'] = [':' + e for e in rec['enc']]
    dec = []
    for e in rec['enc']:
        try:
            lit = pickle.loads(bytes.fromhex(e))
            kw = ay_yaml._decode_metadata(e)
            dec.append({'lit': [[_key_token(k), repr(v)] for k, v in lit.items()] if isinstance(lit, dict) else None,
                        'kw': [[_key_token(k), repr(v)] for k, v in kw.items() if k != 'metadata'],
                        'user': [[_key_token(k), repr(v)] for k, v in kw['metadata'].items()] if isinstance(kw.get('metadata'), dict) else None,
                        'has_md': 'metadata' in kw})
        except Exception as ex:  # noqa
            dec.append({'error': type(ex).__name__})
    obs['decoded'] = dec
    obs['empty'] = [ay_yaml._decode_metadata(''), ay_yaml._decode_metadata(None)]
    return obs

def _key_token(k):
    return 's:' + k if isinstance(k, str) else 'o:' + repr(k)

def meta_requests(case, io):
    n = len(io['repls'])
    reqs = [{'op': 'metaSplice', 'text': _cps(io['text']),
             'ranges': [[b, e, _cps(r)] for (b, e), r in zip(io['seen_ranges'][:n], io['repls'])],
             'ends': [[b, e if isinstance(e, int) else None] for b, e in io['ends']]}]
    for d in io['decoded']:
        if d.get('lit') is not None:
            reqs.append({'op': 'metaSplit', 'md': d['lit']})
    return reqs

def meta_compare(case, io, answers):
    a = answers[0]
    if 'bad' in a:
        return 'driver op metaSplice failed: ' + a['bad']
    text = io['text']
    # 1. the search loop: the model's own ranges (tag regex + loop, ends from the real tokenizer) against the real ones
    found = a['found']
    if 'ranges' in io:
        if found.get('ok') != io['ranges']:
            return f'ranges: _get_metadata_content finds {io["ranges"]}, the model {json.dumps(found)} in {text!r}'
    else:
        cls, msg = io['ranges_error']
        if found.get('err') != 'noEnd':
            return f'ranges: _get_metadata_content raises {cls}({msg!r}), the model answers {json.dumps(found)} for {text!r}'
        at = dict((b, e) for b, e in io['ends']).get(found['beg'])
        if at is None:
            if cls != 'ValueError' or not msg.endswith(f'begins at: {found["start"]}'):
                return f'ranges: the model reports no end for the tag at {found["start"]}; the implementation raises {cls}({msg!r})'
        elif not (isinstance(at, dict) and at['raise'] == cls):
            return f'ranges: the end finder answers {at!r} at {found["beg"]}, yet _get_metadata_content raises {cls}({msg!r})'
    # 1b. the model's OWN end finder (AY.Model.MetaText.metadataEnd) against the real _get_metadata_end at every '{{' of the
    #     text, and the search loop run with it against the real ranges
    if a['ownEnds'] != io['ends']:
        bad = [(r, m) for r, m in zip(io['ends'], a['ownEnds']) if r != m]
        return f'end finder: _get_metadata_end answers {bad[0][0][1]!r} at {bad[0][0][0]}, the model {bad[0][1][1]!r} in {text!r}'
    own = a['foundOwn']
    if 'ranges' in io:
        if own.get('ok') != io['ranges']:
            return f'ranges: _get_metadata_content finds {io["ranges"]}, the model with its own end finder {json.dumps(own)} in {text!r}'
    else:
        cls, msg = io['ranges_error']
        if cls != 'ValueError' or own.get('err') != 'noEnd' or not msg.endswith(f'begins at: {own["start"]}'):
            return f'ranges: _get_metadata_content raises {cls}({msg!r}), the model with its own end finder answers {json.dumps(own)} for {text!r}'
    tags = [[m.start(), m.end(1)] for m in _TAG_RE.finditer(text)]
    if a['tags'] != tags:
        return f'tag regex: re finds {tags}, the model {a["tags"]} in {text!r}'
    # 2. the splice loop, on the ranges and replacement strings of the real run
    n = len(io['repls'])
    if 'out' in io:
        if n != len(io['seen_ranges']):
            return f'{len(io["seen_ranges"])} ranges but {n} replacement strings were computed'
        if _str(a['text']) != io['out']:
            return f'rewritten text: implementation {io["out"]!r}, model (literal loop) {_str(a["text"])!r}; ranges {io["seen_ranges"]}'
    if a['pre']:
        if a['spec'] != a['text']:
            return f'the literal loop and the one-pass specification differ although the ranges are ascending: {_str(a["text"])!r} / {_str(a["spec"])!r}'
        if a['erased'] != a['outside']:
            return f'erasing the blocks and keeping the characters outside them differ: {_str(a["erased"])!r} / {_str(a["outside"])!r}'
    elif 'ranges' in io:
        return f'the ranges {io["seen_ranges"]} of the real run are not ascending / inside the text'
    # 3. the special / user split of every decoded dict
    k = 1
    for d in io['decoded']:
        if d.get('lit') is None:
            continue
        s = answers[k]; k += 1
        if 'bad' in s:
            return 'driver op metaSplit failed: ' + s['bad']
        if s['kw'] != d['kw'] or s['user'] != d['user'] or not d['has_md']:
            return (f'_decode_metadata of {d["lit"]}: keywords {d["kw"]} / user metadata {d["user"]}; '
                    f'model: {s["kw"]} / {s["user"]}')
    if io['empty'] != [{}, {}]:
        return f'_decode_metadata of an empty suffix: {io["empty"]!r}'
    return None

def meta_oracle(case, io):
    exp = meta_expect(case['segs'])
    if exp != 'ok':
        return None
    if 'out' not in io:
        return f'_encode_all_metadata failed on a text whose blocks are python dict literals: {io.get("out_error")}; text {io["text"]!r}'
    out, pos, nblk = io['out'], 0, 0
    for s in case['segs']:
        if s[0] == 't':
            if out[pos:pos + len(s[1])] != s[1]:
                return f'text outside the blocks changed: expected {s[1]!r} at {pos} of {out!r}'
            pos += len(s[1])
            continue
        if out[pos:pos + len(s[1])] != s[1]:
            return f'tag {s[1]!r} expected at {pos} of {out!r}'
        pos += len(s[1])
        m = re.compile(r':([0-9a-f]*)').match(out, pos)
        if not m:
            return f'block #{nblk} ({s[1]}{{{s[2]}}}) was not rewritten to :hex at {pos} of {out!r}'
        try:
            got = pickle.loads(bytes.fromhex(m.group(1)))
        except Exception as e:  # noqa
            return f'block #{nblk}: the hex suffix does not decode ({type(e).__name__}) in {out!r}'
        want = eval(s[2])
        if repr(got) != repr(want) or got != want:
            return f'block #{nblk}: decodes to {got!r}, the literal is {want!r}'
        kw = ay_yaml._decode_metadata(m.group(1))
        user = kw.get('metadata')
        if not isinstance(user, dict):
            return f'block #{nblk}: _decode_metadata gives no user metadata dict: {kw!r}'
        for key, v in want.items():
            where = [key in user and repr(user[key]) == repr(v), key in kw and key != 'metadata' and repr(kw[key]) == repr(v)]
            if key in _SPECIAL_CANON and isinstance(key, str):
                if where != [False, True]:
                    return f'block #{nblk}: the constructor keyword {key!r} of {want!r} is not passed as a keyword (or stays in the user metadata): {kw!r}'
            elif where[0] is not True or (key != 'metadata' and key in kw):
                return f'block #{nblk}: the user key {key!r} of {want!r} is not (only) in the user metadata: {kw!r}'
        if list(user.keys()) != [k for k in want if k not in _SPECIAL_CANON]:
            return f'block #{nblk}: user metadata keys {list(user.keys())!r} are not the non-special keys of {want!r} in order'
        pos = m.end()
        nblk += 1
    if pos != len(out):
        return f'trailing text {out[pos:]!r} after the last segment'
    return None

class C01(MergeFamProp):
    ID = 'C01'
    VOCAB = G.Vocab(prio=True, delete=True, new=True, unsafe=True, meta=True)
    DEPTH = 4
    PTAG = 0.35
    RULE = ('single mapping documents (nesting <= 4, str keys incl. underscore-prefixed, int and float keys, empty values, '
            'empty containers) with merge-control tags (!force !weak !del !merge !new !unsafe, {{..}} and hex metadata incl. the '
            'special names) placed on random nodes, rendered in flow/block style with both metadata syntaxes; '
            'non-trivial = the document carries at least one tag; distinct by SHA-1')
    ASSUMPTIONS = ['YAML text <-> representation tree and the {{...}} rewriting are exercised by rendering, not modelled',
                   'keys equal to attribute names of the node classes are rejected by design and not generated']

    def corpus(self):
        D = lambda raw: {'docs': [{'raw': raw}], 'style': ['flow', 0, 0]}
        return META_CORPUS + [
            D(M({'a': M({'b': M({'c': Q([S(1), S(2)])})}, kw={'prio': 1})})),                      # D01 witness
            D(M({'_w': S(3), 'a': M({'_u': S(1), 'v': S(2)})})),                                   # D02 witness
            D(M({'a': Q([M({'x': Q([S(1), M({'y': Q([S(2)])})])})], kw={'del': False}), 'b': Sempty(kw={'prio': -1})}, kw={'safe': False})),
            D(M({1: S('i'), 1.5: S('f'), 'k': M({}, kw={'del': True}), 'e': Q([], kw={'new': True, 'md': [['note', 'x']]})})),
            # a tagged node placed twice by an anchor / alias (seeded change S6-C01); outside the model: oracle only
            {'docs': [{'raw': M({'a': Q([dict(S(1, kw={'prio': 1}), anchor='x'), {'alias': 'x'}, S(2)]), 'b': dict(M({'p': S(1)}, kw={'del': False}), anchor='y'), 'c': {'alias': 'y'}}), 'shared': True}],
             'style': ['flow', 0, 0]},
        ]

    P_SHARED = 0.12

    def gen_docs(self, rng, tier):
        G.BIG = rng.random() < G.P_BIG
        try:
            d = {'raw': G.gen_doc(rng, self.VOCAB, self.DEPTH + (1 if G.BIG else 0), self.PTAG)}
        finally:
            G.BIG = False
        if rng.random() < self.P_SHARED:
            # one node (preferably a TAGGED one) anchored and aliased: PyYAML gives the same data at both places, so must the config
            # (seeded change S6-C01: duplicates dropped from evaluated lists); outside the model, oracle only
            r0 = rng.random()
            need = (lambda n: bool(n.get('kw'))) if r0 < 0.5 else (lambda n: not n.get('kw') and not n.get('t') and ('m' in n or 'q' in n)) if r0 < 0.8 else None
            r = G.share_node(rng, d['raw'], need=need)
            if r is not None:
                return [{'raw': r, 'shared': True}]
        if rng.random() < 0.5:
            d['auto'] = True       # handed over the way Config.build(src) does by default: raw_yaml=None (file name or YAML text is guessed)
        return [d]

    def gen_cases(self, rng, n, tier):
        cases = super().gen_cases(rng, n, tier)
        r2 = _random.Random(rng.random())
        for c in cases:
            # a document handed over as Config.build(src) does (file or YAML text is guessed) whose LAST node is a block scalar keeping
            # its final line break: what the builder does to the text before parsing shows there (seeded change S5-C01)
            d0 = c['docs'][0]
            if d0.get('auto') and 'm' in d0['raw'] and not d0.get('shared') and r2.random() < 0.15:
                d0['raw'] = dict(d0['raw'], m=list(d0['raw']['m']) + [['zz', S(r2.choice(['tail\n', 'two\nlines\n', 'x\n']))]])
                c['style'] = ['blocklit', 0, 0]
        # containers met again through an alias ACROSS the boundary of a tagged node (a tagged node is constructed deeply, an untagged
        # container is filled later): anchor outside / alias inside, anchor inside / alias outside, and an alias constructed before its
        # anchor's container (repo fix D53; seeded change S9-C01). Outside the model (shared nodes): oracle only.
        for _ in range(max(4, n // 40)):
            kw = r2.choice([{'prio': 1}, {'prio': -1}, {'safe': False}, {'del': False}, {'new': True}, {'del': True}])
            cont = r2.choice([lambda: Q([S(1), S(2)]), lambda: M([('d', S(5))]), lambda: Q([S('p'), M([('k', Q([S(1)]))])]), lambda: M([('d', Q([S(5), S(6)]))])])()
            shape = r2.choice(['in', 'in', 'out', 'early'])
            if shape == 'in':
                items = [('s', dict(cont, anchor='x')), ('u', M([('c', {'alias': 'x'}), ('n', S(2))], kw=kw))]
                if r2.random() < 0.4:
                    items.append(('v', M([('l', Q([{'alias': 'x'}, S(0)]))], kw=kw)))
            elif shape == 'out':
                items = [('u', M([('c', dict(cont, anchor='x'))], kw=kw)), ('s', {'alias': 'x'}), ('t', Q([{'alias': 'x'}]))]
            else:
                items = [('b', Q([Q([M([('c', dict(cont, anchor='x'))])])])), ('shared', {'alias': 'x'})]
            if r2.random() < 0.5:
                items.reverse() if shape == 'early' and False else None
            cases.append({'docs': [{'raw': M(items), 'shared': True}], 'style': ['flow', 0, 0]})
        return cases + [gen_meta_case(rng) for _ in range(max(1, n // 2))]      # drawn after the others: those stay as they were

    def impl(self, case):
        if case.get('kind') == 'meta':
            return meta_impl(case)
        return super().impl(case)

    def shared(self, case):
        return any(d.get('shared') for d in case.get('docs', []))

    def model_requests(self, case):
        if case.get('kind') == 'meta':
            return meta_requests(case, meta_impl(case))
        if self.shared(case):
            return []
        return super().model_requests(case) + [{'op': 'erase', 'docs': case['docs']}]

    def model_obs(self, case, answers):
        if case.get('kind') == 'meta':
            return {'meta': answers}
        if self.shared(case):
            return {'shared': True}
        return super().model_obs(case, answers)

    def compare(self, case, io, mo):
        if case.get('kind') == 'meta':
            return meta_compare(case, io, mo['meta'])
        if self.shared(case):
            return 'SKIP'           # node sharing (YAML anchors / aliases) is outside the model's domain
        return super().compare(case, io, mo)

    def render(self, case):
        if case.get('kind') == 'meta':
            return ['text: ' + repr(meta_text(case['segs'])), 'segments: ' + json.dumps(case['segs'], ensure_ascii=False)]
        return super().render(case)

    def features(self, case, io):
        if case.get('kind') == 'meta':
            segs = case['segs']
            nb = sum(1 for s in segs if s[0] == 'b')
            f = ['kind:meta', f'meta:blocks={nb}', 'meta:expect=' + meta_expect(segs)]
            if segs and segs[0][0] == 'b': f.append('meta:block-at-start')
            if segs and segs[-1][0] == 'b': f.append('meta:block-at-end')
            if any(a[0] == 'b' and b[0] == 't' and len(b[1]) == 1 and c[0] == 'b' for a, b, c in zip(segs, segs[1:], segs[2:])):
                f.append('meta:adjacent-blocks')
            if any(s[0] == 'b' and s[2].count('{') > 1 for s in segs): f.append('meta:nested-braces')
            if any(s[0] == 'b' and '\n' in s[2] for s in segs): f.append('meta:multi-line-literal')
            srcs = ' '.join(s[2] for s in segs if s[0] == 'b')
            if "'''" in srcs or '"""' in srcs: f.append('meta:triple-quoted')
            if "\\'" in srcs or '\\"' in srcs: f.append('meta:escaped-quote')
            if re.search(r"(?<![A-Za-z0-9_])[rRbBfFuU]{1,2}['\"]", srcs): f.append('meta:prefixed-string')
            if re.search(r"'[^']*[\[\](){}][^']*'", srcs): f.append('meta:bracket-in-string')
            if re.search(r"[\[(]", srcs): f.append('meta:list-tuple-set')
            if any(s[0] == 't' and any(b.strip() in s[1] for b in _META_BROKEN) for s in segs): f.append('meta:block-without-end')
            if isinstance(io, dict) and any(e is None for _, e in io.get('ends', [])): f.append('meta:end-finder-none')
            if any(ord(c) > 127 for c in meta_text(segs)): f.append('meta:unicode')
            if any(s[0] == 't' and '{{' in s[1] for s in segs): f.append('meta:braces-outside-blocks')
            if isinstance(io, dict):
                f.append('meta:result=' + ('ok' if 'out' in io else io.get('out_error', ['?'])[0]))
            return f
        return super().features(case, io)

    def shrink(self, case):
        if case.get('kind') == 'meta':
            segs = case['segs']
            for i in range(len(segs)):
                yield dict(case, segs=segs[:i] + segs[i + 1:])
            for i, s in enumerate(segs):
                if s[0] == 't' and len(s[1]) > 1:
                    for j in range(len(s[1])):
                        yield dict(case, segs=segs[:i] + [['t', s[1][:j] + s[1][j + 1:]]] + segs[i + 1:])
                if s[0] == 'b' and s[2] != '{}':
                    yield dict(case, segs=segs[:i] + [['b', s[1], '{}']] + segs[i + 1:])
            return
        yield from super().shrink(case)

    def oracle(self, case, io, ans):
        if case.get('kind') == 'meta':
            return meta_oracle(case, io)
        st = case.get('style', ['flow', 0, 0])
        raw = case['docs'][0]['raw']
        try:
            text = render_doc(erase(raw), st[0], 0, st[2])
            ref = pyyaml.load(text, Loader=pyyaml.Loader)
        except Exception as e:
            return None   # not a document PyYAML accepts: outside the property's domain
        cfg = io['cfg']
        if ref is None or not isinstance(ref, dict):
            return None
        if 'ok' not in cfg:
            return f'the tag-erased document loads fine with PyYAML but the build failed: {json.dumps({k: v for k, v in cfg.items() if k != "log"})[:200]}'
        d = first_diff(strip_ids(cfg['ok']), py_to_val(ref))
        if d:
            return 'evaluated config differs from yaml.load of the tag-erased text: ' + d
        spec = ans[2] if len(ans) > 2 else {}
        if 'ok' in spec:
            d = first_diff(strip_ids(cfg['ok']), spec['ok'][0])
            if d:
                return 'evaluated config differs from the erased representation tree: ' + d
        return None

    def nontrivial(self, case, io):
        if case.get('kind') == 'meta':
            return any(s[0] == 'b' for s in case['segs'])
        return any(f.startswith('kw:') for f in doc_features(case['docs']))

PROP = C01()
