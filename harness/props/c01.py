"""C01 — tags are transparent: one source evaluates to its plain-YAML content."""
import yaml as pyyaml
from props.mergefam import *

def erase(n):
    m = {k: v for k, v in n.items() if k not in ('t', 'kw', 'txt')}
    if 'q' in m:
        m['q'] = [erase(c) for c in m['q']]
    elif 'm' in m:
        m['m'] = [[k, erase(c)] for k, c in m['m']]
    return m

def py_to_val(v):
    if isinstance(v, dict):
        return {'d': [[sc_json(k), py_to_val(x)] for k, x in v.items()]}
    if isinstance(v, list):
        return {'l': [py_to_val(x) for x in v]}
    return sc_json(v)

def plain_to_val(p):
    return p   # driver's plainJ already uses {'d': ..} / {'l': ..} / scalars

class C01(MergeFamProp):
    ID = 'C01'
    VOCAB = G.Vocab(prio=True, delete=True, new=True, unsafe=True, meta=True)
    DEPTH = 4
    PTAG = 0.35
    RULE = ('single mapping documents (nesting <= 4, str keys incl. underscore-prefixed, int and float keys, empty values, '
            'empty containers) with merge-control tags (!force !weak !del !merge !new !unsafe, {{..}} and hex metadata incl. the '
            'special names) placed on random nodes, rendered in flow/block style with both metadata syntaxes; '
            'non-trivial = the document carries at least one tag; distinct by SHA-1')
    ASSUMPTIONS = ['YAML text <-> representation tree and the {{...}} rewriting are exercised by rendering, not modelled',
                   'keys equal to attribute names of the node classes are rejected by design and not generated']

    def corpus(self):
        D = lambda raw: {'docs': [{'raw': raw}], 'style': ['flow', 0, 0]}
        return [
            D(M({'a': M({'b': M({'c': Q([S(1), S(2)])})}, kw={'prio': 1})})),                      # D01 witness
            D(M({'_w': S(3), 'a': M({'_u': S(1), 'v': S(2)})})),                                   # D02 witness
            D(M({'a': Q([M({'x': Q([S(1), M({'y': Q([S(2)])})])})], kw={'del': False}), 'b': Sempty(kw={'prio': -1})}, kw={'safe': False})),
            D(M({1: S('i'), 1.5: S('f'), 'k': M({}, kw={'del': True}), 'e': Q([], kw={'new': True, 'md': [['note', 'x']]})})),
        ]

    def gen_docs(self, rng, tier):
        return [{'raw': G.gen_doc(rng, self.VOCAB, self.DEPTH, self.PTAG)}]

    def model_requests(self, case):
        return super().model_requests(case) + [{'op': 'erase', 'docs': case['docs']}]

    def oracle(self, case, io, ans):
        st = case.get('style', ['flow', 0, 0])
        raw = case['docs'][0]['raw']
        try:
            text = render_doc(erase(raw), st[0], 0, st[2])
            ref = pyyaml.load(text, Loader=pyyaml.Loader)
        except Exception as e:
            return None   # not a document PyYAML accepts: outside the property's domain
        cfg = io['cfg']
        if ref is None or not isinstance(ref, dict):
            return None
        if 'ok' not in cfg:
            return f'the tag-erased document loads fine with PyYAML but the build failed: {json.dumps({k: v for k, v in cfg.items() if k != "log"})[:200]}'
        d = first_diff(strip_ids(cfg['ok']), py_to_val(ref))
        if d:
            return 'evaluated config differs from yaml.load of the tag-erased text: ' + d
        spec = ans[2]
        if 'ok' in spec:
            d = first_diff(strip_ids(cfg['ok']), spec['ok'][0])
            if d:
                return 'evaluated config differs from the erased representation tree: ' + d
        return None

    def nontrivial(self, case, io):
        return any(f.startswith('kw:') for f in doc_features(case['docs']))

PROP = C01()
