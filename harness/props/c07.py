"""C07 — unsafe content never reaches executed code, whatever is merged around it."""
from props.evalfam import *
import gen_merge as G

class C07(EvalFamProp):
    ID = 'C07'
    P_UNSAFE = 0.10
    P_BAD = 0.03
    P_UNSAFE_SRC = 0.25
    RULE = ('1-3 stages with !call / !bind / restricted !eval / !import / !xref nodes, !unsafe markers at random nodes (10%), sources '
            'added with safe=False (25%), later stages overriding arguments, targets and placeholders of earlier ones; executions are '
            'attributed to nodes by frame inspection; non-trivial = the merged tree has a dynamic node and an unsafe node; distinct by SHA-1')
    ASSUMPTIONS = ['!rec and ayns.cfg/ayns.ctx access from evaluated code are outside the domain (documented escape hatches)',
                   'unsafe scalars carry unique marker values so that their arrival in executed code is observable',
                   'containers are tracked by object identity: the object evaluated for a plain container node at a path that only unsafe '
                   'content writes must not be among the arguments of an execution (references / expressions at such a path may alias safe objects); nodes written '
                   'as !prev / !clear are not attributed (control of data flow by unsafe content: recorded, C07_clear_prev_counterexample)']

    def corpus(self):
        D = lambda *docs: {'docs': list(docs), 'style': ['flow', 0, 0]}
        d = lambda raw, **kw: dict({'raw': raw}, **kw)
        call = lambda f, items, **kw: M(items, tag={'k': 'call', 'f': f}, **kw)
        F = lambda *docs: {'docs': list(docs), 'style': ['block', 0, 0], 'fam': 'fstr'}     # oracle-only: implicit f-strings
        P = lambda text, kw=None: common_tagged({'s': {'p': text}}, kw)
        return [
            D(d(M({'f': Sempty('required')})), d(M({'f': call('rec.f', {})}), safe=False)),                                        # D07
            D(d(M({'d': S(5), 'f': call('rec.f', {'x': Stext('d', 'xref')})})), d(M({'d': S(6001)}), safe=False)),                # D07b
            D(d(M({'bar': S(6002, kw={'safe': False}), 'fn': call('rec.f', {'x': Stext('bar', 'xref')})}))),                      # D08
            D(d(M({'fn': call('rec.f', {'x': Stext('bar', 'xref')}), 'bar': S(6003, kw={'safe': False})}))),
            D(d(M({'bar': S(6004, kw={'safe': False}), 'c': Stext('T(bar)', 'eval')}))),                                           # D19
            D(d(M({'bar': M({'z': S(6005, kw={'safe': False})}), 'c': Stext('T(bar)', 'eval')}))),
            D(d(M({'c': M({'d': call('rec.f', {'x': S(1)}), 'e': S(1)})})), d(M({'c': M({'e': S(2)}, kw={'del': True})}))),     # D05
            D(d(M({'q': S(6006, kw={'safe': False}), 'p': M({'x': Stext('q', 'xref')}), 'c': call('rec.f', {'a': Stext('p', 'xref')})}))),   # D24 laundering
            D(d(M({'a': M({'b': M({'c': call('rec.f', {})}, kw={'safe': True})}, kw={'safe': False})}))),                                   # D30 explicit safe=True below !unsafe
            D(d(M({'a': Stext('b.c', 'xref'), 'b': M({'c': M({'x': S(6007, kw={'safe': False})})}), 'c': call('rec.f', {'a': Stext('b', 'xref')})}))),
            D(d(M({'c': call('rec.f', {'a': S(1)})})), d(M({'c': S('rec.g', kw={'safe': False})}))),                                   # S5-C07: re-targeted by an unsafe string
            D(d(M({'c': call('rec.f', {'a': S(1)})})), d(M({'c': S('rec.g')}), safe=False), d(M({'k': S(2)}))),
            D(d(M({'steps': Q([call('rec.f', {})], tag='extend', kw={'safe': False})}))),                                           # S4-C07: an unsafe operator that becomes a plain list
            D(d(M({'k': S(1)})), d(M({'c': M({'h': Q([Stext('T(k)', 'eval')], tag='extend', kw={'safe': False})})})), d(M({'c': M({'h': Q([S(3)], tag='append')})}))),
            # D40: the plain list an unsafe !extend / !append leaves behind (no destination) reached a call as `[]`
            D(d(M({'steps': Q([], tag='extend', kw={'safe': False})})), d(M({'c': M({'a': Stext('steps', 'xref')}, tag={'k': 'bind', 'f': 'rec.f'})}))),
            D(d(M({'steps': Q([], tag='extend')}), safe=False), d(M({'c': call('rec.f', {'a': Stext('steps', 'xref')})}))),
            D(d(M({'steps': Q([], tag='append')}), safe=False), d(M({'c': call('rec.f', {'a': Stext('steps', 'xref')})}))),
            D(d(M({'k': S(1)})), d(M({'d': M({'steps': Q([], tag='extend', kw={'safe': False})})})), d(M({'c': call('rec.f', {'a': Stext('d.steps', 'xref')})}))),
            D(d(M({'steps': Q([], tag='extend')})), d(M({'c': call('rec.f', {'a': Stext('steps', 'xref')})}))),                         # safe operator: runs
            # D50: a dynamic node moved by !prev from under an !unsafe mapping, then promoted by a deleting container
            D(d(M({'a': M({'c': call('rec.f', {'x': S(1)})}, kw={'safe': False})})), d(M({'b': Stext('a.c', 'prev')})), d(M({'b': M({}, kw={'del': True})}))),
            D(d(M({'a': M({'c': call('rec.f', {'x': S(1)})}, kw={'safe': False})})), d(M({'b': Stext('a.c', 'prev')})), d(M({'b': Q([], kw={'del': True})}))),
            D(d(M({'a': M({'c': call('rec.f', {})})}), safe=False), d(M({'b': Stext('a.c', 'prev')})), d(M({'b': M({'p': S(2)}, kw={'del': True, 'prio': 1})}))),
            D(d(M({'b': M({'p': S(1)})})), d(M({'a': M({'c': call('rec.f', {}, kw={'del': False})}, kw={'safe': False})})), d(M({'b': Stext('a.c', 'prev')}))),
            # D49: an !unsafe mark on a value that is already a node: an implicit f-string (oracle-only), an explicit null
            F(d(M({'a': P("f'{T(1)}'", kw={'safe': False})}))),
            F(d(M({'k': S(1), 'a': P("f'{T(k)}'", kw={'safe': False, 'md': [['note', 1]]})}))),
            F(d(M({'u': M({'a': P("f'{T(2)}'")}, kw={'safe': False})}))),
            F(d(M({'a': P("f'{T(3)}'")}), safe=False)),
            F(d(M({'a': P("f'{T(4)}'")}))),                                                                                        # safe f-string: runs
            D(d(M({'a': S(None, kw={'safe': False}), 'c': call('rec.f', {'x': Stext('a', 'xref')})}))),
        ]


    @staticmethod
    def _objids(obs, root, cfg, w):
        """identity of every container of the evaluated config: {id: [path strings holding that object]}"""
        ids = {}
        def walk(v, path):
            if isinstance(v, dict):
                ids.setdefault(str(id(v)), []).append(NodePath.join_path(list(path)))
                for k, x in v.items():
                    if not isinstance(k, ConfigNode):
                        walk(x, path + (native_key_py(k),))
            elif isinstance(v, (list, tuple)):
                ids.setdefault(str(id(v)), []).append(NodePath.join_path(list(path)))
                for i, x in enumerate(v):
                    walk(x, path + (i,))
        try:
            walk(cfg, ())
        except Exception:
            pass
        obs['objids'] = ids

    def impl(self, case):
        if case.get('fam') == 'inc':
            return impl_inc(case, self.WORLD)
        return run_case(case['docs'], self.WORLD, tuple(case.get('style', ['flow', 0, 0])), extra=self._objids)

    def gen_cases(self, rng, n, tier):
        out = super().gen_cases(rng, n, tier)
        # unique marker values on every scalar so that the origin of a value is observable
        ctr = [7000]
        def mark(nd):
            if 's' in nd and 'l' in nd['s'] and isinstance(nd['s']['l'], int) and not isinstance(nd['s']['l'], bool):
                ctr[0] += 1; nd['s']['l'] = ctr[0]
            for c in nd.get('q', []): mark(c)
            for _, c in nd.get('m', []): mark(c)
        for c in out:
            for dd in c['docs']:
                mark(dd['raw'])
        # promotion family (D50): an unsafe dynamic node is moved by !prev under a safe parent (or onto a safe container), later
        # stages replace it by deleting / non-deleting empty or non-empty mappings and lists
        for _ in range(max(2, n // 8)):
            out.append(gen_promotion_case(rng))
        # implicit f-strings under !unsafe / !metadata{{'safe': False}} tags and in unsafe sources (D49): oracle-only
        for _ in range(max(2, n // 10)):
            out.append(gen_fstr_case(rng))
        # included files reached through an include node that is unsafe (unsafe source, own metadata, below !unsafe, the whole
        # document): nothing of the file may run (S6-C07)
        for _ in range(max(3, n // 8)):
            out.append(gen_inc_case(rng))
        # lazily included files: `!rec [base.yaml, !unsafe evil.yaml]` - every entry carries its own safety (seeded change S9-C07:
        # all files of a !rec node were loaded with the safety of the node); outside the model, oracle only
        for _ in range(max(2, n // 20)):
            out.append(gen_rec_case(rng))
        # a LONG list of plain scalars with one unsafe element (tagged, patched in by a later document through an index key, or appended
        # by an unsafe source), consumed by a call / bind / eval directly or through a reference (seeded change S8-C07: lists of ten or
        # more plain scalars were evaluated without looking at their elements)
        for _ in range(max(3, n // 10)):
            out.append(gen_biglist_case(rng, ctr))
        return out

    def model_requests(self, case):
        if case.get('fam') == 'inc':
            return [] if case.get('rec') else [inc_request(case, self.WORLD)]
        return [] if case.get('fam') == 'fstr' else super().model_requests(case)

    def model_obs(self, case, answers):
        if case.get('fam') == 'inc':
            if case.get('rec'):       # lazily included files (!rec) are outside the model: oracle only
                return {k: {'err': 'unsupported'} for k in ('stages', 'tree', 'cfg')}
            return answers[0]
        return {'err': 'unsupported'} if case.get('fam') == 'fstr' else super().model_obs(case, answers)

    def compare(self, case, io, mo):
        if case.get('fam') == 'inc':
            if 'bad' in mo:
                return 'driver rejected the request: ' + str(mo['bad'])
            if any(mo[k].get('err') == 'unsupported' for k in ('stages', 'tree', 'cfg')):
                return 'SKIP'
            d = first_diff(io['tree'], canon_model_answer(mo['tree']))
            if d:
                return 'merged tree (with included files): ' + d
            d = compare_config(io['cfg'], mo['cfg'])
            if d in ('SKIP', None) or d.startswith('KNOWN:'):
                return d
            return 'evaluated config (with included files): ' + d
        return super().compare(case, io, mo)

    def oracle(self, case, io, ans):
        if case.get('fam') == 'inc':
            return oracle_inc(case, io)
        nodes = io.get('nodes')
        if nodes is None:
            return None
        if io['cfg'].get('err') == 'HANG':
            return 'build did not terminate'
        # unsafety is derived from the DOCUMENTS, not from the flags of the merged tree (which are what is under test)
        uns, saf = doc_scalar_contexts(case['docs'])
        unsafe_only = set(v for v in (uns - saf) if re.fullmatch(r'[0-9]{4,}', v))
        stages = doc_safety(case['docs'])
        by_path = {n['p']: n for n in nodes}
        origins = dyn_origins(case['docs'])
        # containers: objects of the evaluated config that sit ONLY at paths written ONLY by unsafe content
        unattributed = doc_moved_paths(case['docs'])
        written = {}
        for m in stages:
            for pth, u in m.items():
                written.setdefault(pth, []).append(u)
        # only plain containers of the merged tree: their evaluated object is created on their behalf, whereas the value of a
        # reference / an evaluated expression at an unsafe path may legitimately BE an object of safe content (aliasing)
        unsafe_paths = set(pth for pth, us in written.items() if all(us) and pth not in unattributed and '*op*' not in pth
                           and pth in by_path and by_path[pth]['kind'] == 'comp')
        unsafe_objs = {}
        for o, ps in io.get('objids', {}).items():
            hit = [q for q in ps if q in unsafe_paths]
            if hit:
                unsafe_objs[o] = hit
        for what, path, safe, args in io.get('exec', []):
            if safe is False:
                return f'{what} executed on behalf of the unsafe node at {path!r}'
            n = by_path.get(path)
            if n is not None and not n['safe']:
                return f'{what} executed on behalf of the node at {path!r}, which is unsafe in the merged tree'
            writers = [m[path] for m in stages if path in m]
            if writers and writers[-1]:
                return f'{what} executed on behalf of the node at {path!r} whose latest writer is unsafe content (source added with safe=False or below !unsafe)'
            org = origins.get(path)
            if org is not None and org[1]:
                return (f'{what} executed on behalf of the node at {path!r} whose dynamic content ({org[0]}) was written by unsafe content'
                        + (f' and moved there by !prev from {org[2]!r}' if org[2] else ''))
            for v in unsafe_only:
                if re.search(r'(?<![0-9])' + re.escape(v) + r'(?![0-9])', args):
                    return f'value {v} originating from unsafe content reached the code executed for {path!r} ({what})'
            for o in re.findall(r'"o": (-?[0-9]+)', args):
                if o in unsafe_objs:
                    return (f'the object evaluated at {unsafe_objs[o][0]!r}, a path written only by unsafe content, reached the code '
                            f'executed for {path!r} ({what})')
        if 'ok' in io['cfg']:
            # a successful build must not contain the result of an unsafe dynamic node
            for n in nodes:
                if n['kind'] in ('call', 'bind', 'eval', 'import') and not n['safe']:
                    return f'build succeeded although the unsafe {n["kind"]} node at {n["p"]!r} survives merging'
        return None

    def nontrivial(self, case, io):
        ns = io.get('nodes', [])
        return any(n['kind'] in ('call', 'bind', 'eval', 'import') for n in ns) and any(not n['safe'] for n in ns)

def native_key_py(k):
    return sc_py(native_key(k))

def doc_moved_paths(docs):
    """path strings of nodes written as !prev / !clear (their value is content of other stages, moved or emptied)"""
    out = set()
    for d in docs:
        def walk(n, path):
            if (n.get('t') or {}).get('k') in ('prev', 'clear'):
                out.add(NodePath.join_path(list(path)))
            if 'm' in n:
                for k, c in n['m']:
                    walk(c, path + (sc_py(k),))
            elif 'q' in n:
                for i, c in enumerate(n['q']):
                    walk(c, path + (i,))
        walk(d['raw'], ())
    return out

def common_tagged(n, kw):
    if kw:
        n['kw'] = kw
        n['t'] = {'k': 'plain'}
    return n

DYN_TAGS = ('call', 'bind', 'eval', 'import', 'fstr')

def dyn_origins(docs):
    """{path string: (kind, unsafe?, moved-from or None)}: for every path, the latest stage that wrote a DYNAMIC node there
    (directly, or by moving it there with !prev), with the unsafety of that content derived from the documents alone"""
    acc = {}
    for d in docs:
        new, moves = {}, []
        def walk(n, path, unsafe):
            unsafe = unsafe or (n.get('kw') or {}).get('safe') is False
            k = (n.get('t') or {}).get('k')
            if k in DYN_TAGS:
                new[path] = (k, unsafe, None)
            elif 's' in n and 'p' in n['s']:
                new[path] = ('fstr', unsafe, None)
            elif k == 'prev' and 's' in n and 'x' in n['s']:
                try:
                    moves.append((path, tuple(NodePath.split_path(n['s']['x'])), unsafe))
                except Exception:
                    pass
            if 'm' in n:
                for key, c in n['m']:
                    walk(c, path + (sc_py(key),), unsafe)
            elif 'q' in n and k not in ('append', 'extend'):
                for i, c in enumerate(n['q']):
                    walk(c, path + (i,), unsafe)
        walk(d['raw'], (), d.get('safe') is False)
        for path, tgt, unsafe in moves:
            sub = {q: v for q, v in acc.items() if q[:len(tgt)] == tgt}
            for q in sub:
                del acc[q]
            for q, (kind, u, frm) in sub.items():
                acc[path + q[len(tgt):]] = (kind, u or unsafe, frm or NodePath.join_path(list(tgt)))
        acc.update(new)
    return {NodePath.join_path(list(q)): v for q, v in acc.items()}

def gen_promotion_case(rng):
    call = lambda f, items, kind='call', **kw: M(items, tag={'k': kind, 'f': f}, **kw)
    kind = rng.choice(['call', 'call', 'bind'])
    f = rng.choice(['rec.f', 'rec.g'])
    args = rng.choice([{}, {'x': S(1)}, {0: S(2)}])
    dkw = rng.choice([{}, {}, {'del': False}, {'prio': 1}])
    node = rng.choice([call(f, args, kind, kw=dkw), call(f, args, kind, kw=dkw), Stext('T(1)', 'eval'), Q([call(f, args, kind)])])
    mode = rng.randrange(3)                     # how the node is unsafe: enclosing !unsafe mapping, unsafe source, both
    holder = M({'c': node}, kw=({'safe': False} if mode != 1 else {}))
    first = {'raw': M({'a': holder, 'k': S(7)})}
    if mode != 0:
        first['safe'] = False
    dest = rng.choice([('b',), ('b',), ('w', 'b')])
    def at(path, n):
        for key in reversed(path):
            n = M({key: n})
        return n
    move = {'raw': at(dest, Stext('a.c', 'prev'))}
    repl_kw = rng.choice([{'del': True}, {'del': True}, {'del': True, 'prio': 1}, {}, {'del': False}])
    repl = rng.choice([M({}, kw=repl_kw), M({'p': S(3)}, kw=repl_kw), Q([], kw=repl_kw), Q([S(4)], kw=repl_kw), M({}, kw=repl_kw)])
    docs = [first, move, {'raw': at(dest, repl)}]
    if rng.random() < 0.35:                     # the container is there first: the moved node is merged ONTO it
        docs = [{'raw': at(dest, rng.choice([M({'p': S(5)}), M({}), Q([S(6)])]))}, first, move]
        if rng.random() < 0.5:
            docs.append({'raw': at(dest, repl)})
    if rng.random() < 0.3:
        docs.append({'raw': M({'r': call('rec.f', {'v': Stext(NodePath.join_path(list(dest)), 'xref')})})})
    return {'docs': docs, 'style': ['flow', 0, 0]}

def gen_fstr_case(rng):
    P = lambda text, kw=None: common_tagged({'s': {'p': text}}, kw)
    i = rng.randrange(1, 9)
    body = rng.choice([f"f'{{T({i})}}'", f"f'v{{T({i}, k)}}'", f'f"{{T({i})}}"'])
    how = rng.randrange(5)
    kw = [{'safe': False}, {'safe': False, 'md': [['note', 1]]}, None, None, None][how]
    leaf = P(body, kw)
    doc = M({'k': S(1), 'a': (M({'s': leaf}, kw={'safe': False}) if how == 2 else leaf)})
    d = {'raw': doc}
    if how == 3:
        d['safe'] = False
    docs = [d]
    if rng.random() < 0.4:
        docs.append({'raw': M({'z': S(2)})})
    if rng.random() < 0.3:
        docs.insert(0, {'raw': M({'k': S(3)})})
    return {'docs': docs, 'style': ['block', 0, 0], 'fam': 'fstr'}

PROP = C07()


# ------------------------------------------------------------------------------------------------
# family `inc`: dynamic nodes of an included file, the include node unsafe in one of four ways
# ------------------------------------------------------------------------------------------------
import tempfile, shutil, posixpath
INC_VBASE = os.path.realpath(tempfile.gettempdir())
INC_VROOT = posixpath.join(INC_VBASE, 'AYC07ROOT')

def gen_inc_case(rng):
    call = lambda f, items, **kw: M(items, tag={'k': 'call', 'f': f}, **kw)
    how = rng.choice(['source', 'source', 'meta', 'above', 'root', 'file', 'none', 'none'])
    mk = rng.randrange(8000, 8999)
    inner = [('r', call('rec.g', {'p': S(mk)})), ('v', S(mk + 1000))]
    if rng.random() < 0.4:
        inner.append(('e', Stext('T(%d)' % (mk + 2000), 'eval')))
    if rng.random() < 0.3:
        inner = [('sub', M(inner))]
    fdoc = M(inner, kw={'safe': False} if how == 'file' else None)
    files = [['inc1.yaml', [fdoc]]]
    if rng.random() < 0.3:
        files.append(['two.yaml', [M([('w', call('rec.g', {'q': S(mk + 3000)}))])]])
    names = [f for f, _ in files]
    inc = Stext(names[0], 'include') if len(names) == 1 and rng.random() < 0.6 else Q([S(nm) for nm in names], tag='include')
    if how == 'meta':
        inc = dict(inc, kw={'safe': False}, t=dict(inc['t']))
    if how == 'root':
        docs = [{'raw': M([('k', S(1))])}, {'raw': inc, 'safe': False}]
    else:
        holder = M([('x', inc)], kw={'safe': False}) if how == 'above' else inc
        items = [('k', S(1)), ('i', holder)]
        if rng.random() < 0.5:
            items.append(('c', call('rec.f', {0: Stext('k', 'xref')})))
        docs = [{'raw': M(items)}]
        if how == 'source':
            docs[0]['safe'] = False
            if rng.random() < 0.4:
                docs.append({'raw': M([('k', S(2))])})
    return {'fam': 'inc', 'how': how, 'files': files, 'docs': docs, 'style': ['flow', 0, 0], 'markers': [mk, mk + 1000, mk + 2000, mk + 3000]}

def inc_layout(case, root):
    files = {posixpath.join(root, nm): docs for nm, docs in case['files']}
    sources = [{'raw': [d['raw']], 'filename': posixpath.join(root, 'main%d.yaml' % i), 'safe': d.get('safe')} for i, d in enumerate(case['docs'])]
    return files, sources

def inc_request(case, world):
    files, sources = inc_layout(case, INC_VROOT)
    return {'op': 'c06', 'fs': [[f, d] for f, d in sorted(files.items())], 'cwd': INC_VROOT, 'sources': sources, 'world': world}

def impl_inc(case, world):
    from awesomeyaml.builder import Builder
    from awesomeyaml.config import Config
    from evalrun import WorldImpl, conv_val, renumber
    from props.c06 import classify_c06, render_file
    style = case.get('style', ['flow', 0, 0])
    real = os.path.realpath(tempfile.mkdtemp(prefix='ayc07_', dir=INC_VBASE))
    old = os.getcwd()
    res = {}
    try:
        files, sources = inc_layout(case, real)
        for f, docs in files.items():
            with open(f, 'w') as fh:
                fh.write(render_file(docs, style))
        os.chdir(real)
        with WorldImpl(world) as w:
            try:
                b = Builder()
                for s_ in sources:
                    b.add_source(render_file(s_['raw'], style), raw_yaml=True, filename=s_['filename'], safe=s_.get('safe'))
                root = b.build()
                res['tree'] = {'ok': dump_node(root)}
                try:
                    cfg = Config(root, eval_ctx=EvalContext(eval_symbols=w.syms))
                    res['cfg'] = {'ok': renumber(conv_val(cfg, w, {})), 'log': list(w.log)}
                except RecursionError:
                    res['cfg'] = {'err': 'recursion', 'log': list(w.log)}
                except Exception as e:  # noqa
                    res['cfg'] = dict(classify_c06(e), log=list(w.log))
            except Exception as e:  # noqa
                c = classify_c06(e)
                res = {'tree': c, 'cfg': dict(c, log=list(w.log))}
    finally:
        os.chdir(old)
        shutil.rmtree(real, ignore_errors=True)
    return json.loads(json.dumps(res).replace(real, INC_VROOT))

def inc_unsafety(case):
    """from the documents alone (not from the label of the case, which shrinking does not keep true): True when every file with dynamic
    nodes is reached only through unsafe include / !rec entries, False when through safe ones only, None when mixed or not at all"""
    dyn_files = {nm for nm, docs in case['files'] if any(k in json.dumps(docs) for k in ('"call"', '"eval"', '"bind"'))}
    flags = []
    def walk(n, unsafe):
        unsafe = unsafe or (n.get('kw') or {}).get('safe') is False
        is_inc = (n.get('t') or {}).get('k') == 'include' or n.get('txt') == '!rec'
        if is_inc:
            entries = n['q'] if 'q' in n else [n]
            for e in entries:
                nm = e['s'].get('l', e['s'].get('x')) if 's' in e else None
                if nm in dyn_files:
                    flags.append(unsafe or (e.get('kw') or {}).get('safe') is False)
            return
        for c in ([c for _, c in n['m']] if 'm' in n else n.get('q', [])):
            walk(c, unsafe)
    for d in case['docs']:
        walk(d['raw'], d.get('safe') is False)
    if not flags or (any(flags) and not all(flags)):
        return None
    return all(flags)

def oracle_inc(case, io):
    how = case.get('how')
    u = inc_unsafety(case)
    if u is None:
        return None
    how = how if (u and how != 'none') else ('derived' if u else 'none')
    if case.get('how') == 'file' and not u:
        # the file itself carries the mark
        if any((d.get('kw') or {}).get('safe') is False for _, docs in case['files'] for d in docs):
            how = 'file'
    if '"include"' not in json.dumps([d['raw'] for d in case['docs']]) and '!rec' not in json.dumps([d['raw'] for d in case['docs']]):
        return None          # (shrunk) no include node left: outside the family
    log = io['cfg'].get('log', [])
    if how == 'none':
        if 'ok' not in io['cfg']:
            return f'a safe include of a safe file must build: {json.dumps({k: v for k, v in io["cfg"].items() if k != "log"})[:160]}'
        if 'call:rec.g' not in log:
            return 'the dynamic node of a safely included file did not run'
        return None
    # the include node is unsafe: whatever the included file holds is unsafe content, none of its dynamic nodes may run
    if 'call:rec.g' in log:
        return f'the !call of a file included by an unsafe !include node ({how}) was executed'
    if 'eval' in log:
        return f'the !eval of a file included by an unsafe !include node ({how}) was executed'
    if 'ok' in io['cfg']:
        return f'build succeeded although the dynamic nodes of a file included by an unsafe !include node ({how}) survive'
    return None


def gen_biglist_case(rng, ctr):
    call = lambda f, items, **kw: M(items, tag={'k': rng.choice(['call', 'bind']), 'f': f}, **kw)
    ln = rng.choice([3, 9, 10, 11, 12, 13, 25])
    def mk():
        ctr[0] += 1
        return ctr[0]
    elems = [S(mk()) for _ in range(ln)]
    how = rng.choice(['tag', 'tag', 'patch', 'patchneg', 'append', 'none'])
    pos = rng.choice([0, ln - 1, ln - 2, rng.randrange(ln)])
    docs = []
    if how == 'tag':
        elems[pos] = S(mk(), kw={'safe': False})
    lst = Q(elems)
    consumer = rng.choice(['arg', 'xref', 'eval', 'nested'])
    if consumer == 'arg':
        items = [('c', call('rec.f', {0: lst})), ('k', S(1))]
    elif consumer == 'xref':
        items = [('x', lst), ('c', call('rec.f', {0: Stext('x', 'xref')}))]
    elif consumer == 'eval':
        items = [('x', lst), ('c', Stext('T(x)', 'eval'))]
    else:
        items = [('w', M([('x', lst)])), ('c', call('rec.g', {'p': Stext('w', 'xref')}))]
    rng.shuffle(items)
    docs.append({'raw': M(items)})
    where = {'arg': ['c', 0], 'xref': ['x'], 'eval': ['x'], 'nested': ['w', 'x']}[consumer]
    if how in ('patch', 'patchneg'):
        key = pos if how == 'patch' else pos - ln
        docs.append({'raw': G.nest(where, M([(key, S(mk(), kw={'safe': False}))]))})
    elif how == 'append':
        docs.append({'raw': G.nest(where, Q([S(mk())], tag='append')), 'safe': False})
    return {'docs': docs, 'style': ['flow', 0, 0]}


def gen_rec_case(rng):
    call = lambda f, items, **kw: M(items, tag={'k': 'call', 'f': f}, **kw)
    mk = rng.randrange(8000, 8999)
    how = rng.choice(['source', 'elem', 'elem', 'above', 'none', 'none'])
    files = [['base.yaml', [M([('p', S(1))])]], ['evil.yaml', [M([('r', call('rec.g', {'p': S(mk)})), ('v', S(mk + 1000))])]]]
    names = [S('base.yaml'), S('evil.yaml', kw={'safe': False} if how == 'elem' else None)]
    if rng.random() < 0.3:
        names.reverse()
    rec = Q(names, tag='rec', txt='!rec')
    holder = M([('x', rec)], kw={'safe': False}) if how == 'above' else rec
    docs = [{'raw': M([('k', S(1)), ('sub', holder)])}]
    if how == 'source':
        docs[0]['safe'] = False
    return {'fam': 'inc', 'rec': True, 'how': how, 'files': files, 'docs': docs, 'style': ['flow', 0, 0], 'markers': [mk, mk + 1000, mk + 2000, mk + 3000]}
