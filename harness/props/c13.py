"""C13 — `!call` / `!bind`: argument passing and the merge table of function nodes.

Cases are merge-family cases (a list of documents) of two kinds:
  * 'bind':  one document with a `!call:`/`!bind:` node over a world of recording targets with
             real signatures (positional, defaulted, keyword-only, *args, **kwargs) x generated key
             sets (contiguous, gaps, beyond the signature, negative, position/name duplicates, unknown
             names, float keys) x argument forms (mapping, list, scalar, empty, `!call name`);
  * 'merge': a function node followed by 1-3 stages that merge a mapping / list / string (same or
             different name) / function node (same or different target, with or without `!merge`)
             onto it, with priorities on the nodes and, in 4 of 10 histories, on individual arguments
             (`{a: !force 1}`, `[!weak 2]`): arguments that outrank / are outranked by the incoming node.
Correspondence: merged tree and evaluated config of the implementation against the Lean model.
Oracle (implementation alone, independent of the model):
  * binding: the positional/keyword split that the property text prescribes, bound with Python's own
    `inspect.signature(target).bind`, against what the recording target received (or, for `!bind`,
    against `partial.args/keywords`);
  * merge table: every stage is checked as `before <- other = after` on the real node trees."""
import inspect
from props.mergefam import *
from evalrun import WorldImpl, build_root
import impname      # family `impname`: target resolution utils.import_name against AY.Model.ImportName (driver op importName)

VARSIG = GE.VARSIG
WORLD = dict(GE.WORLD)
WORLD['sigs'] = [e for e in GE.WORLD['sigs'] if e[0] not in ('rec.none', 'rec.kw')] + [      # C13 observes received arguments: recording callables only
    ['sig.p3', [['a', 'pk', None], ['b', 'pk', None], ['c', 'pk', None]]],
    ['sig.d3', [['a', 'pk', None], ['b', 'pk', [1]], ['c', 'pk', [2]]]],
    ['sig.ko', [['u', 'ko', None], ['v', 'ko', [5]]]],
    ['sig.kw', [['a', 'pk', None], ['kw', 'vk', None]]],
    ['sig.va', [['a', 'pk', None], ['rest', 'va', None]]],
    ['sig.n0', []],
    ['sig.mix', [['a', 'pk', None], ['b', 'pk', [1]], ['rest', 'va', None], ['k', 'ko', None], ['m', 'ko', ['M']], ['kw', 'vk', None]]],
]
SIGS = {name: sig for name, sig in WORLD['sigs']}
TARGETS = sorted(SIGS)
_REAL = WorldImpl(WORLD)          # real function objects, used for inspect.signature only


def real_func(fname):
    mod, _, short = fname.rpartition('.')
    m = _REAL.mods.get(mod)
    return getattr(m, short, None) if m is not None else None


class Dynamic(Exception):
    """an argument is not plain data: the oracle does not predict its value"""


# ------------------------------------------------------------------------------------------------
# plain values (identity-free value JSON, the form `strip_ids(conv_val(...))` produces)
# ------------------------------------------------------------------------------------------------

def raw_value(raw, tops):
    """value JSON of an untagged raw node; an `!xref` to a plain top-level entry is resolved"""
    t = raw.get('t')
    if t and t.get('k') == 'xref' and not raw.get('kw'):
        name = raw['s']['x']
        if name in tops:
            return raw_value(tops[name], {})
        raise Dynamic()
    if t or raw.get('kw'):
        raise Dynamic()
    if 's' in raw:
        s = raw['s']
        if 'e' in s:
            return None
        if 'x' in s:
            raise Dynamic()
        return s['l']
    if 'q' in raw:
        return {'l': [raw_value(c, tops) for c in raw['q']]}
    return {'d': [[k, raw_value(c, tops)] for k, c in raw['m']]}


def dump_value(d):
    """value JSON of a dumped node tree made of plain data only"""
    k = d['k']
    if k == 'scalar':
        return d.get('v')
    if k == 'list':
        return {'l': [dump_value(c) for _, c in d['c']]}
    if k == 'dict':
        return {'d': [[key, dump_value(c)] for key, c in d['c']]}
    raise Dynamic()


def pykey(k):
    return sc_py(k)


# ------------------------------------------------------------------------------------------------
# the binding the property text prescribes
# ------------------------------------------------------------------------------------------------

def prescribed_split(fname, args, for_call=True):
    """args: list of (python key, value JSON). Returns ('ok', pos, kw) | ('err', why) | ('skip', why)."""
    f = real_func(fname)
    if f is None:
        return ('err', 'unknown target')
    ints = [(k, v) for k, v in args if isinstance(k, int) and not isinstance(k, bool)]
    strs = [(k, v) for k, v in args if isinstance(k, str)]
    if len(ints) + len(strs) != len(args):
        if not ints and not for_call:
            # `partial(f, **{1.5: x})` is accepted by CPython (no key check in partial.__new__); the
            # property text says nothing about keys that are neither positions nor names
            return ('skip', 'non-position, non-name key on a bind node')
        return ('err', 'key that is neither a position nor a name')
    if any(k < 0 for k, _ in ints):
        return ('skip', 'negative position: not covered by the property text')
    params = list(inspect.signature(f).parameters.values())
    names = []
    for p in params:
        if p.kind == inspect.Parameter.VAR_POSITIONAL:
            break
        names.append(p.name)
    d = dict(ints)
    pos, i = [], 0
    while i in d:
        pos.append(d.pop(i)); i += 1
    kw = {}
    for k, v in ints:
        if k in d:                       # a gap below it: bound by the name of the k-th parameter
            if k >= len(names):
                return ('err', f'position {k} beyond the signature')
            kw[names[k]] = v
    for k, v in strs:
        if k in kw:
            return ('err', f'parameter {k} given by position and by name')
        kw[k] = v
    return ('ok', pos, kw)


def expected_call(fname, args):
    r = prescribed_split(fname, args)
    if r[0] != 'ok':
        return r
    _, pos, kw = r
    f = real_func(fname)
    sig = inspect.signature(f)
    try:
        ba = sig.bind(*pos, **kw)
    except TypeError as e:
        return ('err', f'TypeError: {e}')
    ba.apply_defaults()
    named, va, vk = [], [], []
    for p in sig.parameters.values():
        if p.kind in (p.POSITIONAL_OR_KEYWORD, p.KEYWORD_ONLY):
            v = ba.arguments[p.name]
            named.append([p.name, v if not isinstance(v, float) else {'f': repr(v)}])
        elif p.kind == p.VAR_POSITIONAL:
            va = list(ba.arguments.get(p.name, ()))
        elif p.kind == p.VAR_KEYWORD:
            vk = [[k, v] for k, v in ba.arguments.get(p.name, {}).items()]
    return ('ok', {'app': fname, 'named': named, 'va': va, 'vk': vk})


def expected_bind(fname, args):
    r = prescribed_split(fname, args, for_call=False)
    if r[0] != 'ok':
        return r
    _, pos, kw = r
    return ('ok', {'part': fname, 'pos': pos, 'kw': sorted([k, v] for k, v in kw.items())})


# ------------------------------------------------------------------------------------------------
# generators
# ------------------------------------------------------------------------------------------------

def names_before_va(sig):
    out = []
    for nm, kind, _ in sig:
        if kind == 'va':
            break
        out.append(nm)
    return out


def gen_value(rng, i, allow_dyn=True):
    r = rng.random()
    if r < 0.62:
        return S(rng.choice([100 + i, 'v%d' % i, True, None, 1.5 + i, -i]))
    if r < 0.72:
        return Q([S(i), S('e')])
    if r < 0.80:
        return M([('p', S(i))])
    if r < 0.90 and allow_dyn:
        return Stext('v', 'xref')
    if allow_dyn:
        return M([(0, S(i))], tag={'k': 'call', 'f': 'rec.f'})
    return S(i)


def gen_keyset(rng, fname):
    sig = SIGS.get(fname, VARSIG)
    names = names_before_va(sig)
    named = [nm for nm, kind, _ in sig if kind in ('pk', 'ko')]
    npos = len([1 for nm, kind, _ in sig if kind == 'pk'])
    mode = rng.choice(['contig', 'contig', 'contig', 'gap', 'gap', 'beyond', 'neg', 'dup', 'str', 'str', 'mixed', 'float', 'free'])
    keys = []
    if mode == 'contig':
        n = rng.randrange(0, npos + 2)
        keys = list(range(n))
        if rng.random() < 0.3:
            rng.shuffle(keys)
    elif mode == 'gap':
        hi = max(len(names), 2)
        keys = sorted(rng.sample(range(hi + 1), rng.randrange(1, min(hi, 3) + 1)))
        if keys and keys == list(range(len(keys))):
            keys = [k + 1 for k in keys]
    elif mode == 'beyond':
        n = rng.randrange(0, max(npos, 1))
        keys = list(range(n)) + [len(names) + rng.choice([0, 1, 2]) + (1 if n >= len(names) else 0)]
        if keys == list(range(len(keys))):
            keys[-1] += 1
    elif mode == 'neg':
        keys = list(range(rng.randrange(0, 2))) + [rng.choice([-1, -2, -5])]
    elif mode == 'dup':
        if names:
            i = rng.randrange(len(names))
            keys = list(range(i + 1)) if rng.random() < 0.5 else [i]
            keys.append(names[i])
        else:
            keys = [0, 'zz']
    elif mode == 'str':
        pool = named + ['zz']
        keys = rng.sample(pool, rng.randrange(0, min(len(pool), 3) + 1))
    elif mode == 'mixed':
        n = rng.randrange(0, npos + 1)
        keys = list(range(n)) + [nm for nm in named[n:] if rng.random() < 0.6] + (['zz'] if rng.random() < 0.3 else [])
    elif mode == 'float':
        keys = [0, 1.5] if rng.random() < 0.5 else [1.5, 'a']
    else:
        keys = rng.sample([0, 1, 2, 3, 5, -1] + named + ['zz', 'w'], rng.randrange(0, 5))
    # mostly valid: give the required parameters a value by name
    if mode not in ('dup', 'float') and rng.random() < 0.75:
        covered = set(k for k in keys if isinstance(k, str))
        ints = sorted(k for k in keys if isinstance(k, int))
        pref = 0
        while pref in ints:
            pref += 1
        pk = [nm for nm, kind, _ in sig if kind == 'pk']
        covered |= set(pk[:pref])
        covered |= set(names[k] for k in ints if pref <= k < len(names))
        for nm, kind, dflt in sig:
            if kind in ('pk', 'ko') and dflt is None and nm not in covered:
                keys.append(nm)
    out = []
    for k in keys:
        if k not in out:
            out.append(k)
    return mode, out


def gen_func_node(rng, kind, fname, keys, kw=None, allow_dyn=True, forms=True):
    tag = {'k': kind, 'f': fname}
    vals = [gen_value(rng, i, allow_dyn) for i, _ in enumerate(keys)]
    r = rng.random()
    if forms and keys == list(range(len(keys))):
        if not keys:
            if r < 0.3 and not kw:
                return S(fname, tag=kind + 'Name')
            if r < 0.6:
                return Sempty(tag=tag, kw=kw)
            if r < 0.8:
                return Q([], tag=tag, kw=kw)
            return M([], tag=tag, kw=kw)
        if len(keys) == 1 and r < 0.35 and 's' in vals[0] and not vals[0].get('t') and vals[0]['s'].get('l') is not None:
            return S(sc_py(vals[0]['s']['l']), tag=tag, kw=kw)
        if r < 0.6:
            return Q(vals, tag=tag, kw=kw)
    return M(list(zip(keys, vals)), tag=tag, kw=kw)


def gen_bind_case(rng):
    fname = rng.choice(TARGETS + ['sig.f2', 'sig.mix', 'sig.d3', 'nope.f'] if rng.random() < 0.95 else ['nope.f'])
    kind = rng.choice(['call', 'call', 'bind'])
    mode, keys = gen_keyset(rng, fname)
    node = gen_func_node(rng, kind, fname, keys)
    items = [('v', S(rng.choice([7, 'vv', None]))), ('r', node)]
    if rng.random() < 0.3:
        items.append(('z', S(1)))
    if rng.random() < 0.2:
        items.reverse()
    return {'kind': 'bind', 'mode': mode, 'docs': [{'raw': M(items)}]}


MERGE_TARGETS = ['rec.f', 'rec.g', 'sig.f1', 'sig.d3', 'sig.kw']

def gen_prio_kw(rng, p=0.3):
    if rng.random() < p:
        return {'prio': rng.choice([1, -1])}
    return {}


def gen_small_keys(rng, fname):
    sig = SIGS.get(fname, VARSIG)
    named = [nm for nm, kind, _ in sig if kind in ('pk', 'ko')] or ['p', 'q']
    pool = [0, 1, 2] + named[:3] + [x for x in ['p'] if x not in named[:3]]
    r = rng.random()
    if r < 0.35:
        return list(range(rng.randrange(0, 3)))
    return rng.sample(pool, rng.randrange(0, 4))


def with_arg_prio(rng, node, p, strong=0.7):
    """tag each (so far untagged) argument of a mapping / list / function node with `!force` or `!weak` with
    probability p: an argument that outranks, or is outranked by, the node merged onto its parent"""
    for c in (node.get('q') or [c for _, c in node.get('m', [])]):
        if not c.get('t') and not c.get('kw') and rng.random() < p:
            c['t'] = {'k': 'plain'}
            c['kw'] = {'prio': 1 if rng.random() < strong else -1}
    return node


def has_arg_prio(raw):
    return any((c.get('kw') or {}).get('prio') is not None for c in (raw.get('q') or [c for _, c in raw.get('m', [])]))


def gen_merge_case(rng):
    f0 = rng.choice(MERGE_TARGETS)
    kind0 = rng.choice(['call', 'bind'])
    kw0 = gen_prio_kw(rng, 0.2)
    # per-argument priorities: in 4 of 10 histories the arguments of the first node (often) and of the later stages
    # (sometimes) carry their own !force / !weak
    p_arg0, p_arg = (rng.choice([0.4, 0.7, 1.0]), 0.25) if rng.random() < 0.4 else (0, 0)
    node0 = gen_func_node(rng, kind0, f0, gen_small_keys(rng, f0), kw=kw0 or None, allow_dyn=False)
    with_arg_prio(rng, node0, p_arg0)
    docs = [{'raw': M([('v', S(7)), ('r', node0)])}]
    ops = []
    cur = f0
    for _ in range(rng.choice([1, 1, 2, 2, 3])):
        op = rng.choice(['map', 'map', 'list', 'str_same', 'str_diff', 'fn_same', 'fn_same_merge', 'fn_diff', 'fn_diff', 'fn_diff_merge'])
        kw = gen_prio_kw(rng)
        if op == 'map':
            if rng.random() < 0.25:
                kw = dict(kw, **{'del': rng.choice([True, False])})
            keys = gen_small_keys(rng, cur)
            x = M([(k, gen_value(rng, 10 + i, False)) for i, k in enumerate(keys)], kw=kw or None)
        elif op == 'list':
            if rng.random() < 0.15:
                kw = dict(kw, **{'del': False})
            x = Q([gen_value(rng, 20 + i, False) for i in range(rng.randrange(0, 3))], kw=kw or None)
        elif op in ('str_same', 'str_diff'):
            name = cur if op == 'str_same' else rng.choice([t for t in MERGE_TARGETS if t != cur])
            x = S(name, kw=kw or None)
            if kw.get('prio') != -1 or not kw0.get('prio'):
                pass
        else:
            name = cur if op.startswith('fn_same') else rng.choice([t for t in MERGE_TARGETS if t != cur])
            if op.endswith('_merge'):
                kw = dict(kw, **{'del': False})
            x = gen_func_node(rng, rng.choice(['call', 'bind']), name, gen_small_keys(rng, name), kw=kw or None,
                              allow_dyn=False, forms=rng.random() < 0.5)
        with_arg_prio(rng, x, p_arg, 0.5)
        ops.append(op)
        docs.append({'raw': M([('r', x)])})
        if op in ('str_diff', 'fn_diff', 'fn_diff_merge') and kw.get('prio') != -1:
            cur = name
    return {'kind': 'merge', 'mode': '+'.join(ops), 'docs': docs}


# ------------------------------------------------------------------------------------------------
# the merge table on real node trees
# ------------------------------------------------------------------------------------------------

def child_dump(root_dump, key='r'):
    if not root_dump or 'c' not in root_dump:
        return None
    for k, c in root_dump['c']:
        if k == key:
            return c
    return None


def args_of(d):
    """argument list of a dumped container: [(key, value JSON or Dynamic marker, ePrio)]"""
    out = []
    for k, c in d.get('c', []):
        try:
            v = dump_value(c)
        except Dynamic:
            v = ('dyn', c['k'], c.get('v'))
        out.append((pykey(k), v, c['f']['ePrio']))
    return out


def keywise(B_args, O_args):
    """expected argument map of a key-wise update; value None = not predicted"""
    out = [[k, v] for k, v, _ in B_args]
    idx = {json.dumps(k): i for i, (k, _, _) in enumerate(B_args)}
    bprio = {json.dumps(k): p for k, _, p in B_args}
    for k, v, p in O_args:
        j = json.dumps(k)
        if j in idx:
            simple = lambda x: not isinstance(x, (dict, tuple))
            if p >= bprio[j] and simple(v) and simple(out[idx[j]][1]):
                out[idx[j]][1] = v
            elif p < bprio[j] and simple(v) and simple(out[idx[j]][1]):
                pass
            else:
                out[idx[j]][1] = ('any',)
        else:
            idx[j] = len(out)
            out.append([k, v])
    return out


def args_match(expected, A_args, ordered=True):
    got = [[k, v] for k, v, _ in A_args]
    if len(got) != len(expected):
        return False
    for (ek, ev), (gk, gv) in zip(expected, got):
        if json.dumps(ek) != json.dumps(gk):
            return False
        if ev == ('any',):
            continue
        if json.dumps(ev, default=str) != json.dumps(gv, default=str):
            return False
    return True


def table_row(B, O, A):
    """B <- O = A on dumped nodes; returns None or a description of the violated row"""
    if B is None or B['k'] not in ('call', 'bind'):
        return None
    tB, cls = B['v'], B['k']
    Ba = args_of(B)
    pB, pO = B['f']['ePrio'], O['f']['ePrio']
    outranked = pO < pB
    def show(d):
        return f"{d['k']}:{d.get('v')} {[[k, v] for k, v, _ in args_of(d)]}" if d else 'None'
    def unchanged(why):
        if A is None or A['k'] != cls or A.get('v') != tB or not args_match([[k, v] for k, v, _ in Ba], args_of(A)):
            return f'{why}: expected target and arguments unchanged ({show(B)}) but got {show(A)}'
        return None
    strong_arg = any(p > pO for _, _, p in Ba) or any(p > q for _, _, p in Ba for _, _, q in args_of(O))
    ok = O['k']
    if ok in ('scalar', 'xref', 'prev', 'eval', 'fstr', 'import') and isinstance(O.get('v'), str):
        name = O['v']
        if outranked:
            return unchanged('Call <- str (outranked)')
        if name == tB:
            return unchanged('Call <- str with the same name')
        if A is None or A['k'] != cls or A.get('v') != name or args_of(A):
            return f'Call <- str with a different name: expected {cls}:{name} without arguments, got {show(A)}'
        return None
    if ok in ('call', 'bind'):
        tO = O['v']
        Oa = args_of(O)
        if tO != tB:
            if outranked:
                return unchanged('Call1 <- Call2 with a different target (outranked)')
            if O['f']['eDel']:
                if A is None or A['k'] != ok or A.get('v') != tO or not args_match([[k, v] for k, v, _ in Oa], args_of(A)):
                    return f'Call1 <- Call2 with a different target: expected exactly {show(O)}, got {show(A)}'
                return None
            if A is None or A['k'] != cls or A.get('v') != tO or not args_match(keywise(Ba, Oa), args_of(A)):
                return (f'Call1 <- !merge Call2 with a different target: expected {cls}:{tO} with key-wise merged '
                        f'arguments {keywise(Ba, Oa)}, got {show(A)}')
            return None
        # same target
        if A is None or A.get('v') != tB or A['k'] not in ('call', 'bind'):
            return f'Call1 <- Call2 with the same target: target changed: {show(A)}'
        if O['f']['eDel']:
            if not outranked and not strong_arg:
                if not args_match([[k, v] for k, v, _ in Oa], args_of(A)):
                    return f'Call1 <- Call2 with the same target replaces the arguments: expected {show(O)}, got {show(A)}'
            return None
        if not args_match(keywise(Ba, Oa), args_of(A)):
            return f'Call1 <- !merge Call2 (same target): expected key-wise merge {keywise(Ba, Oa)}, got {show(A)}'
        return None
    if ok == 'dict':
        if A is None or A['k'] != cls or A.get('v') != tB:
            return f'Call <- dict must not change the target: {show(B)} <- dict gave {show(A)}'
        Oa = args_of(O)
        if not O['f']['eDel']:
            if not args_match(keywise(Ba, Oa), args_of(A)):
                return f'Call <- dict updates the arguments key-wise: expected {keywise(Ba, Oa)}, got {show(A)}'
        elif not outranked and not strong_arg:
            if not args_match([[k, v] for k, v, _ in Oa], args_of(A)):
                return f'Call <- !del dict: expected the arguments {[[k, v] for k, v, _ in Oa]}, got {show(A)}'
        return None
    if ok == 'list':
        if A is None or A['k'] != cls or A.get('v') != tB:
            return f'Call <- list must not change the target: {show(B)} <- list gave {show(A)}'
        Oa = args_of(O)
        if O['f']['eDel'] and not outranked and not strong_arg:
            if not args_match([[i, v] for i, (_, v, _) in enumerate(Oa)], args_of(A)):
                return f'Call <- list supplies the positional arguments {[v for _, v, _ in Oa]}, got {show(A)}'
        return None
    return None


def stage_trees(docs, style):
    """dumps of 'r' before / in / after every stage i >= 1 (None where a build fails)"""
    out = []
    for i in range(1, len(docs)):
        try:
            before = dump_node(build_root(docs[:i], *style))
            other = dump_node(build_root([docs[i]], *style))
        except Exception:
            break
        try:
            after = dump_node(build_root(docs[:i + 1], *style))
        except Exception as e:
            out.append((child_dump(before), child_dump(other), {'err': classify_error(e)}))
            break
        out.append((child_dump(before), child_dump(other), child_dump(after)))
    return out


class C13(MergeFamProp):
    ID = 'C13'
    WORLD = WORLD
    QUICK_N = 420
    THOROUGH_N = 6000
    RULE = ('(a) single documents with one !call:/!bind: node over 12 recording targets (positional, defaulted, keyword-only, '
            '*args, **kwargs, no parameters, unknown target) x key sets (contiguous 0..n-1 in any order, gaps, beyond the '
            'signature, negative, position+name duplicates, unknown names, float keys) x argument forms (mapping, list, '
            'scalar, empty, `!call name`) with plain, nested, xref and nested-call argument values; (b) a function node '
            'followed by 1-3 stages merging a mapping / list / same- or different-name string / same- or different-target '
            'function node (with and without !merge, !del, priorities), in 4 of 10 histories with !force / !weak on individual '
            'arguments of the first node (each with probability 0.4 / 0.7 / 1) and of the later stages (0.25); distinct by '
            'SHA-1 of the case')
    MODEL_DIVERGENCE = ("`r: !bind:sig.f1 {1.5: 0}` (a float key and no integer key on a bind node): the code returns "
                        "functools.partial(f1, **{1.5: 0}) because partial.__new__ does not check keyword types; "
                        "the model's resolveArgs returns none (evaluation error). Such cases are generated, checked by "
                        "the oracle's other clauses and skipped by the correspondence.")
    MODEL_DIVERGENCE_2 = ("`r: !call:sig.f1 {-1: 5, 1: 6}` (def f1(a=0, b=0)): both keys name parameter b; the code's "
                          "kw_positional_args dict is overwritten silently (f1(b=6)), the model reports a duplicate keyword "
                          "(evaluation error). Skipped by the correspondence; negative positions are outside the property text.")
    ASSUMPTIONS = ['CPython call binding is the reference: the oracle binds with inspect.signature(target).bind',
                   'negative positions are compared with the model only (the property text does not cover them)']

    def corpus(self):
        D = lambda kind, *raws: {'kind': kind, 'mode': 'corpus', 'docs': [{'raw': r} for r in raws], 'style': ['flow', 0, 0]}
        call = lambda f, items, kind='call', kw=None: M(items, tag={'k': kind, 'f': f}, kw=kw)
        return [
            D('bind', M([('v', S(7)), ('r', call('sig.f2', [(1, S(11)), ('k', S(5)), (0, S(10))]))])),
            D('bind', M([('v', S(7)), ('r', call('sig.f1', [(1, S(3))]))])),
            D('bind', M([('v', S(7)), ('r', call('sig.f1', [(0, S(1)), (2, S(3))]))])),
            D('bind', M([('v', S(7)), ('r', Q([S(1), Stext('v', 'xref')], tag={'k': 'bind', 'f': 'sig.p3'}))])),
            D('bind', M([('v', S(7)), ('r', S(4, tag={'k': 'call', 'f': 'sig.va'}))])),
            D('merge', M([('r', call('rec.f', [('a', S(1))]))]), M([('r', S('rec.f'))])),          # D12 witness (repaired)
            D('merge', M([('r', call('rec.f', [('a', S(1))]))]), M([('r', S('rec.g'))])),
            D('merge', M([('r', call('rec.f', [('a', S(1))]))]), M([('r', call('rec.g', [('b', S(2))]))])),
            D('merge', M([('r', call('rec.f', [('a', S(1))]))]), M([('r', call('rec.g', [('b', S(2))], kw={'del': False}))])),
            D('merge', M([('r', call('rec.f', [('a', S(1)), ('b', S(2))]))]), M([('r', call('rec.f', [('c', S(3))], kind='bind'))])),
            D('merge', M([('r', call('rec.f', [('a', S(1))]))]), M([('r', M([('a', S(5)), (0, S(6))]))])),
            D('merge', M([('r', call('rec.f', [('a', S(1))]))]), M([('r', Q([S(5), S(6)]))])),
            D('merge', M([('r', call('rec.f', [('a', S(1))], kw={'prio': 1}))]), M([('r', call('rec.g', [('b', S(2))]))])),
            # a !force argument of the old target does not survive a change of target (seeded S3-C13) ...
            D('merge', M([('r', call('rec.g', [(0, S(0, kw={'prio': 1}))]))]), M([('r', Q([], tag={'k': 'call', 'f': 'sig.d3'}))])),
            D('merge', M([('r', call('rec.f', [('a', S(1, kw={'prio': 1})), ('b', S(2))], kind='bind'))]),
              M([('r', call('rec.g', [('c', S(3))], kind='bind'))])),
            D('merge', M([('r', call('rec.f', [('a', S(1))], kw={'prio': -1}))]), M([('r', call('rec.g', [('b', S(2))], kw={'prio': -1}))])),
            # ... but stays when the target is the same
            D('merge', M([('r', call('rec.f', [('a', S(1, kw={'prio': 1})), ('b', S(2))]))]), M([('r', call('rec.f', [('a', S(5)), ('c', S(3))]))])),
        ] + impname.corpus()

    def gen_cases(self, rng, n, tier):
        out = []
        for i in range(n):
            c = gen_bind_case(rng) if rng.random() < 0.55 else gen_merge_case(rng)
            st = self.STYLES[rng.randrange(len(self.STYLES))] if rng.random() < 0.4 else self.STYLES[0]
            c['style'] = list(st)
            out.append(c)
        r2 = random.Random(rng.random())      # drawn after the others: those stay as they were
        return out + [impname.gen_case(r2) for _ in range(max(1, n // 5))]

    # ---------------------------------------------------------------------------------- family `impname`
    def _impname_io(self, case):
        key = json.dumps(case, sort_keys=True, default=str)
        cache = self.__dict__.setdefault('_impname_cache', {})
        if key not in cache:
            if len(cache) > 5000:
                cache.clear()
            cache[key] = impname.run_case(case)
        return cache[key]

    def model_requests(self, case):
        if case.get('kind') == 'impname':
            return impname.requests(case, self._impname_io(case))
        return super().model_requests(case)

    def model_obs(self, case, answers):
        if case.get('kind') == 'impname':
            return {'impname': answers}
        return super().model_obs(case, answers)

    def render(self, case):
        if case.get('kind') == 'impname':
            return impname.render(case)
        return super().render(case)

    def impl(self, case):
        if case.get('kind') == 'impname':
            self.__dict__.setdefault('_impname_cache', {}).pop(json.dumps(case, sort_keys=True, default=str), None)
            return self._impname_io(case)
        io = super().impl(case)
        if case.get('kind') == 'merge':
            io['stages'] = stage_trees(case['docs'], case.get('style', ['flow', 0, 0]))
        return io

    # ---------------------------------------------------------------------------------- oracle
    def oracle_binding(self, case, io):
        docs = case['docs']
        tree = io['tree']
        if 'ok' not in tree or tree['ok'] is None:
            return None
        root = tree['ok']
        cfg = io['cfg']
        single = len(docs) == 1
        raw_items = {sc_py(k) if not isinstance(k, dict) else None: c for k, c in docs[0]['raw'].get('m', [])} if single else {}
        tops = {k: c for k, c in raw_items.items() if isinstance(k, str) and not c.get('t') and not c.get('kw')}
        fnodes = [(sc_py(k), c) for k, c in root.get('c', []) if c['k'] in ('call', 'bind')]
        expected, any_err, dyn = {}, None, False
        for key, d in fnodes:
            fname, kind = d['v'], d['k']
            try:
                if single and key in raw_items:
                    raw = raw_items[key]
                    t = raw.get('t', {})
                    if t.get('k') in ('callName', 'bindName'):
                        args = []
                    elif 's' in raw:
                        args = [] if 'e' in raw['s'] else [(0, raw['s']['l'])]
                    elif 'q' in raw:
                        args = [(i, raw_value(c, tops)) for i, c in enumerate(raw['q'])]
                    else:
                        args = [(pykey(k), raw_value(c, tops)) for k, c in raw['m']]
                    # the loader must have produced exactly these argument keys
                    tree_keys = [pykey(k) for k, _ in d['c']]
                    if [json.dumps(k) for k, _ in args] != [json.dumps(k) for k in tree_keys]:
                        return f'argument keys of {render_flow(raw)}: expected {[k for k, _ in args]}, the node has {tree_keys}'
                else:
                    args = [(k, v) for k, v, _ in args_of(d)]
                    if any(isinstance(v, tuple) for _, v in args):
                        raise Dynamic()
            except Dynamic:
                dyn = True
                continue
            r = (expected_call if kind == 'call' else expected_bind)(fname, args)
            if r[0] == 'skip':
                dyn = True
            elif r[0] == 'err':
                any_err = (key, r[1])
            else:
                expected[key] = r[1]
        if 'ok' in cfg:
            if any_err:
                return f"the call at '{any_err[0]}' must fail ({any_err[1]}) but the config was built: {json.dumps(strip_ids(cfg['ok']))[:200]}"
            got = {sc_py(k) if not isinstance(k, dict) else None: v for k, v in strip_ids(cfg['ok']).get('d', [])}
            for key, exp in expected.items():
                g = got.get(key)
                if isinstance(g, dict) and 'part' in g:
                    g = dict(g, kw=sorted(g['kw']))
                d = first_diff(g, exp)
                if d:
                    return f"'{key}': the target received {json.dumps(g)[:200]} but the prescribed binding is {json.dumps(exp)[:200]} ({d})"
            return None
        if cfg.get('err') == 'eval' and not any_err and not dyn and len(expected) == len(fnodes) and fnodes:
            others_plain = all(c['k'] in ('call', 'bind') or self._plain(c) for _, c in root.get('c', []))
            if others_plain:
                return f"every call binds ({json.dumps(expected)[:200]}) but the build failed with an evaluation error"
        return None

    @staticmethod
    def _plain(d):
        try:
            dump_value(d)
            return True
        except Dynamic:
            return False

    def oracle_table(self, case, io):
        for i, (B, O, A) in enumerate(io.get('stages', [])):
            if B is None or O is None:
                continue
            if isinstance(A, dict) and 'err' in A and 'k' not in A:
                # an error below the function node (e.g. list <- mapping with a name key) is not a table row;
                # with scalar arguments on both sides no row of the table can fail
                scalar_args = all(not isinstance(v, (dict, tuple)) for _, v, _ in args_of(B) + args_of(O))
                if B['k'] in ('call', 'bind') and scalar_args:
                    return f'stage {i + 1}: merging onto the function node failed: {A["err"]}'
                continue
            d = table_row(B, O, A)
            if d:
                return f'stage {i + 1}: {d}'
        return None

    def oracle(self, case, io, ans):
        if case.get('kind') == 'impname':
            return impname.oracle(case, io)
        d = self.oracle_table(case, io)
        if d:
            return d
        return self.oracle_binding(case, io)

    @staticmethod
    def _float_key_bind(d):
        """a bind node whose keys include a float but no integer (see MODEL_DIVERGENCE)"""
        if not isinstance(d, dict):
            return False
        if d.get('k') == 'bind':
            ks = [sc_py(k) for k, _ in d.get('c', [])]
            if any(isinstance(k, float) for k in ks) and not any(isinstance(k, int) and not isinstance(k, bool) for k in ks):
                return True
        return any(C13._float_key_bind(c) for _, c in d.get('c', []))

    @staticmethod
    def _negative_alias(d):
        """a function node with a negative position and the non-negative position it aliases"""
        if not isinstance(d, dict):
            return False
        if d.get('k') in ('call', 'bind') and d.get('v') in SIGS:
            ks = [sc_py(k) for k, _ in d.get('c', [])]
            ints = [k for k in ks if isinstance(k, int) and not isinstance(k, bool)]
            L = len(names_before_va(SIGS[d['v']]))
            if any(k < 0 and (L + k) in ints for k in ints):
                return True
        return any(C13._negative_alias(c) for _, c in d.get('c', []))

    def compare(self, case, io, mo):
        if case.get('kind') == 'impname':
            return impname.compare(case, io, mo['impname'])
        if 'ok' in io['tree'] and (self._float_key_bind(io['tree']['ok']) or self._negative_alias(io['tree']['ok'])):
            return 'SKIP'      # MODEL_DIVERGENCE (both outside the property text)
        return super().compare(case, {'tree': io['tree'], 'cfg': io['cfg']}, mo)

    def features(self, case, io):
        if case.get('kind') == 'impname':
            return impname.features(case, io)
        f = ['kind:' + case.get('kind', '?')]
        if case.get('kind') == 'bind':
            f.append('keys:' + case.get('mode', '?'))
            for k, c in case['docs'][0]['raw']['m']:
                t = c.get('t', {})
                if t.get('k') in ('call', 'bind', 'callName', 'bindName'):
                    f.append('tag:' + t['k'])
                    f.append('target:' + str(t.get('f') or 'name-form'))
                    f.append('form:' + ('scalar' if 's' in c else 'list' if 'q' in c else 'mapping'))
        else:
            for op in case.get('mode', '').split('+'):
                f.append('op:' + op)
            f.append(f'stages={len(case["docs"])}')
            if any(has_arg_prio(c) for d in case['docs'] for k, c in d['raw'].get('m', []) if sc_py(k) == 'r'):
                f.append('argprio')
        r = io['cfg'].get('err', 'ok') if isinstance(io, dict) and 'cfg' in io else '?'
        return f + ['result:' + str(r)]

    def shrink(self, case):
        if case.get('kind') == 'impname':
            yield from impname.shrink(case)
            return
        for d in shrink_docs(case['docs']):
            yield dict(case, docs=d)

    def nontrivial(self, case, io):
        return True


PROP = C13()
