"""C15 — merge laws: deterministic, idempotent (repeat last), empty-neutral, key-order- and flag-neutral."""
import copy, random as _random
from props.mergefam import *

def walk_nodes(raw, f):
    f(raw)
    if 'q' in raw:
        for c in raw['q']: walk_nodes(c, f)
    elif 'm' in raw:
        for _, c in raw['m']: walk_nodes(c, f)

def has_remove_idiom(raw):
    """explicit !del on a falsy value: intentionally not idempotent"""
    hit = []
    def f(n):
        kw = n.get('kw') or {}
        if kw.get('del') is True:
            if 's' in n:
                s = n['s']
                if 'e' in s or not sc_py(s.get('l')): hit.append(1)
            elif 'q' in n and not n['q']: hit.append(1)
            elif 'm' in n and not n['m']: hit.append(1)
    walk_nodes(raw, f)
    return bool(hit)

def mixed_list_prio(docs):
    """some list has elements (or descendants) with a priority tag: the D18 mechanism"""
    hit = []
    def anyprio(n):
        r = []
        walk_nodes(n, lambda x: r.append((x.get('kw') or {}).get('prio')))
        return any(p is not None for p in r)
    def f(n):
        if 'q' in n and any(anyprio(c) for c in n['q']): hit.append(1)
    for d in docs:
        walk_nodes(d['raw'], f)
    # priorities anywhere combined with lists anywhere can meet at one path after merging
    return bool(hit) or (any(anyprio(d['raw']) for d in docs) and any('"q"' in json.dumps(d['raw']) for d in docs))

def permute(rng, raw):
    n = dict(raw)
    if 'm' in n:
        items = [[k, permute(rng, c)] for k, c in n['m']]
        rng.shuffle(items)
        n['m'] = items
    elif 'q' in n:
        n['q'] = [permute(rng, c) for c in n['q']]
    return n

def mark(rng, raw, kw, which=None):
    nodes = []
    walk_nodes(raw, nodes.append)
    cands = [n for n in nodes if not (n.get('t') and n['t']['k'] != 'plain')]
    # prefer containers that sit below a node with an explicit delete flag and have containers below themselves
    below = []
    def rec(n, under):
        kwn = n.get('kw') or {}
        if under and ('m' in n or 'q' in n) and any(('m' in c or 'q' in c) for c in (n.get('q') or [x for _, x in n.get('m', [])])):
            below.append(n)
        u = under or kwn.get('del') is not None
        for c in n.get('q', []): rec(c, u)
        for _, c in n.get('m', []): rec(c, u)
    rec(raw, False)
    below = [n for n in below if any(n is c for c in cands)]
    if which is not None:
        if which >= len(below):
            return False
        cands = [below[which]]
    elif below and rng.random() < 0.7:
        cands = below
    n = rng.choice(cands)
    n['kw'] = dict(kw, **(n.get('kw') or {}))
    n['t'] = {'k': 'plain'}
    return True

def unordered(v):
    if isinstance(v, dict):
        if 'd' in v: return ('d', sorted((json.dumps(k, sort_keys=True), unordered(x)) for k, x in v['d']))
        if 'l' in v: return ('l', [unordered(x) for x in v['l']])
        return ('o', sorted((k, (sorted((json.dumps(a), json.dumps(unordered(b), sort_keys=True, default=str)) for a, b in x) if k in ('vk', 'kw', 'named') else unordered(x))) for k, x in v.items()))
    if isinstance(v, list): return [unordered(x) for x in v]
    return v

class C15(MergeFamProp):
    ID = 'C15'
    VOCAB = G.Vocab(prio=True, delete=True, meta=True, unsafe=True, new=True)
    NMAX = 4
    RULE = ('merge sequences of 1-4 documents over priority / !del / !merge / metadata tags; each is built twice, with the last '
            'document repeated (when it has no explicit !del), with an empty mapping inserted at a random position, with the keys '
            'of every mapping permuted, and with !unsafe / !new placed on a random node; every related run is also compared with the model; '
            'a targeted family rewrites the same keys with values of changing kind (scalar / list / mapping, empty or falsy ones '
            'included, untagged or with a priority tag); non-trivial = >= 2 stages; distinct by SHA-1')
    ASSUMPTIONS = ['the explicit remove-this-key idiom (and any explicit !del in the repeated document) is excluded from the repeat relation, as the property says',
                   'the repeat relation compares results the way Python compares dicts (key order is not part of the result): under a deleting mapping a key that '
                   'was replaced in place the first time is pruned and re-created at the end the second time (model theorem C15_repeat_last_tagged_reorders, replayed)',
                   'repeat-last failures on sequences combining lists with priority tags are attributed to known finding D18 — only when the model, '
                   'which reproduces the unchanged code, agrees with the implementation on the base run and on every related run']

    def corpus(self):
        D = lambda *raws, **kw: dict({'docs': [{'raw': r} for r in raws], 'style': ['flow', 0, 0], 'vseed': 1}, **kw)
        return [
            D(M({'a': M({'l': Q([M({'p': S(0)}, kw={'prio': 1})])})}), M({'a': M({'l': Q([M({'s': S(5)})])})})),      # D13 witness (mark root !unsafe)
            D(M({'a': Q([S(1), S(2)])}), M({'a': Q([S(1, kw={'prio': 1}), S(2)])}), M({'a': Q([S(8), S(9)])})),
            D(M({'a': Q([S(1), S(2, kw={'prio': 1})])}), M({'a': Q([S(8, kw={'prio': 1}), S(9)])})),      # D18 (repeat)
            D(M({'a': Q([S('x'), S('y')])}), M({'a': M([(0, M({'p': S(1)})), (-2, Q([S(5)]))])})),      # D28 (repeat raises)
            D(M({'a': M({'b': M({'c': M({'l': Q([S(1), S(2), S(3)])})})})}), M({'a': M({'b': M({'c': M({'l': Q([S(9)])})})}, kw={'del': False})}), vseed=7),
            # tagged trees of mappings (C15_Tagged.lean): the documents of the non-vacuity examples ...
            D(M({'a': M({'x': S(1, kw={'prio': 1}), 'y': S(2)}), 'w': S(5, kw={'prio': -1}), 'k': S(0)}),
              M({'a': M({'z': S(3)}, kw={'del': True}), 'w': S(6), 'm': M({'q': S(1), 'r': S(2)}, kw={'del': False})}), vseed=3),
            D(M({'a': M({'x': S(1, kw={'prio': 1}), 'y': S(2)}), 'w': S(5, kw={'prio': -1}), 'k': S(0)}),
              M({'a': M({'x': S(7)}), 'w': S(6), 'm': M({'q': S(1)}, kw={'del': False})}, kw={'del': True}), vseed=5),
            # ... and the witness of C15_repeat_last_tagged_reorders: repeating the last document moves the key `b` to the end
            D(M({'b': M({'p': S(1, kw={'prio': 1})}), 'c': S(2, kw={'prio': 1})}), M({'b': S('')}, kw={'del': True})),
        ]

    def gen_cases(self, rng, n, tier):
        out = super().gen_cases(rng, n, tier)
        # targeted family: later documents change the KIND of what an earlier one wrote at the same key (scalar, list, mapping,
        # each possibly empty or falsy), untagged or with a priority tag - never an explicit !del (that is the excluded idiom)
        def shape():
            r = rng.random()
            kw = rng.choice([{}, {}, {}, {'prio': 1}, {'prio': -1}])
            if r < 0.30: return S(rng.choice([0, 1, 'v', '', False, 2.5]), kw=kw)
            if r < 0.50: return Q([], kw=kw)
            if r < 0.65: return Q([S(rng.randrange(5)) for _ in range(rng.choice([1, 2]))], kw=kw)
            if r < 0.80: return M([], kw=kw)
            return M([(rng.choice(['p', 'q']), S(rng.randrange(5)))], kw=kw)
        for i in range(max(4, n // 10)):
            keys = rng.sample(['a', 'b', 'c', 'k'], rng.choice([1, 2, 3]))
            docs = [{'raw': M([(k, shape()) for k in keys])}]
            for _ in range(rng.choice([1, 1, 2, 3])):
                ks = [k for k in keys if rng.random() < 0.7] or keys[:1]
                inner = M([(k, shape()) for k in ks])
                docs.append({'raw': inner})
            if rng.random() < 0.4:      # the same one level down
                docs = [{'raw': M([('w', d['raw'])])} for d in docs]
            out[(len(out) - 1 - i) % len(out)] = {'docs': docs[:self.NMAX], 'style': ['flow', 0, 0]}
        for c in out:
            c['vseed'] = rng.randrange(1 << 30)
        # a first stage built through the Python API from data in which ONE container object sits below two (or three) keys, then a
        # YAML document writing below one of them: whatever the order of the keys of the API data, the result is the same up to key
        # order (one object - one node is the constructors' contract; seeded change S7-C15: sharing depended on the key order). Oracle only.
        for _ in range(max(3, n // 12)):
            hold = rng.sample(['left', 'right', 'mid'], rng.choice([2, 2, 3]))
            others = [(k, rng.choice([7, 'net', 2.5, True])) for k in rng.sample(['name', 'seed', 'k'], rng.choice([0, 1, 2]))]
            shared = rng.choice([{'lr': 1, 'wd': 5}, [10, 20, 30], {'lr': 1}, [[1], 2]])
            tgt = rng.choice(hold)
            if isinstance(shared, dict):
                body = rng.choice([M([('lr', S(25))]), M([('momentum', S(9))], kw={'del': True}), M([('wd', S(0)), ('n', S(1))])])
            else:
                body = rng.choice([M([(1, S(99))], kw={'del': False}), Q([S(5)]), Q([S(7)], tag='append')])
            deep = rng.random() < 0.7
            out.append({'kind': 'api', 'hold': hold, 'others': others, 'shared': shared, 'deep': deep,
                        'docs': [{'raw': M([(tgt, M([('opts', body)]) if deep else body)])}], 'style': ['flow', 0, 0], 'vseed': rng.randrange(1 << 30)})
        return out

    def variants(self, case):
        rng = _random.Random(case.get('vseed', 0))
        docs = case['docs']
        v = {}
        v['twice'] = docs
        if not has_remove_idiom(docs[-1]['raw']):
            v['repeat'] = docs + [copy.deepcopy(docs[-1])]
        i = rng.randint(0, len(docs))
        v['empty'] = docs[:i] + [{'raw': M([])}] + docs[i:]
        if not any(has_remove_idiom(d['raw']) for d in docs):
            v['perm'] = [dict(d, raw=permute(rng, d['raw'])) for d in docs]
        j = rng.randrange(len(docs))
        md = copy.deepcopy(docs)
        mark(rng, md[j]['raw'], rng.choice([{'safe': False}, {'new': True}]))
        v['flag'] = md
        # every container below an explicit delete flag (up to three per document) marked !unsafe in turn
        for j2 in range(len(docs)):
            for w in range(3):
                m2 = copy.deepcopy(docs)
                if mark(rng, m2[j2]['raw'], {'safe': False}, which=w):
                    v[f'flag{j2}_{w}'] = m2
        mr = copy.deepcopy(docs)
        jr = rng.randrange(len(docs))
        if not mr[jr]['raw'].get('kw'):
            mr[jr]['raw']['kw'] = rng.choice([{'safe': False}, {'new': True}]); mr[jr]['raw']['t'] = {'k': 'plain'}
            v['flagroot'] = mr
        return v

    def impl(self, case):
        if case.get('kind') == 'api':
            return self.impl_api(case)
        io = super().impl(case)
        st = case.get('style', ['flow', 0, 0])
        io['var'] = {}
        for name, docs in self.variants(case).items():
            try:
                io['var'][name] = impl_config(docs, self.WORLD, *st)
            except Exception as e:
                io['var'][name] = {'err': 'render:' + str(e)[:80]}
        return io

    # every related run also goes through the model: a change of the implementation that shows only in a related run
    # (e.g. only when the last document is repeated) breaks the correspondence, and a failure of a law is attributed to
    # a recorded finding only when the faithful model fails the same way (framework: no attribution on a disagreement)
    def impl_api(self, case):
        import itertools
        from common import Builder, render_doc
        from awesomeyaml.config import Config
        from awesomeyaml.nodes.dict import ConfigDict
        text = render_doc(case['docs'][0]['raw'], *case.get('style', ['flow', 0, 0]))
        keys = list(case['hold']) + [k for k, _ in case['others']]
        rng = _random.Random(case.get('vseed', 0))
        orders = list(itertools.permutations(keys))
        rng.shuffle(orders)
        orders = [tuple(keys)] + [o for o in orders if o != tuple(keys)][:7]
        def plain(v):
            if isinstance(v, dict): return {k: plain(x) for k, x in v.items()}
            if isinstance(v, (list, tuple)): return [plain(x) for x in v]
            return v
        res = []
        for o in orders + [tuple(keys)]:
            shared = copy.deepcopy(case['shared'])         # a fresh object for every build, the SAME object below every holder
            items = {k: ({'opts': shared} if case['deep'] else shared) for k in case['hold']}
            items.update({k: ''.join(list(v)) if isinstance(v, str) else v for k, v in case['others']})
            try:
                b = Builder()
                b.stages.append(ConfigDict({k: items[k] for k in o}))
                b.add_source(text, raw_yaml=True)
                res.append([list(o), {'ok': plain(Config(b.build()))}])
            except Exception as e:  # noqa
                res.append([list(o), {'err': type(e).__name__}])
        return {'api': res, 'cfg': res[0][1], 'tree': None}

    def model_requests(self, case):
        if case.get('kind') == 'api':
            return []
        reqs = super().model_requests(case)
        for name, docs in self.variants(case).items():
            reqs.append({'op': 'config', 'docs': docs, 'world': self.WORLD})
        return reqs

    def model_obs(self, case, answers):
        if case.get('kind') == 'api':
            return {'api': True}
        mo = super().model_obs(case, answers)
        mo['var'] = dict(zip(self.variants(case).keys(), answers[2:]))
        return mo

    def compare(self, case, io, mo):
        if case.get('kind') == 'api':
            return 'SKIP'          # node sharing is outside the model's domain: oracle only
        d = super().compare(case, io, mo)
        if d is not None:
            return d
        for name, r in io['var'].items():
            if str(r.get('err', '')).startswith('render:') or name not in mo['var']:
                continue
            d = compare_config(r, mo['var'][name])
            if d in ('SKIP', None) or d.startswith('KNOWN:'):
                continue
            return f'related run {name!r}: evaluated config: ' + d
        return None

    def oracle(self, case, io, ans):
        if case.get('kind') == 'api':
            def norm(x):
                if isinstance(x, dict): return sorted(([repr(k), norm(v)] for k, v in x.items()), key=lambda kv: kv[0])
                if isinstance(x, list): return [norm(v) for v in x]
                return [type(x).__name__, x]
            ref_o, ref = io['api'][0]
            for o, r in io['api'][1:]:
                if ('ok' in r) != ('ok' in ref) or ('ok' in r and norm(r['ok']) != norm(ref['ok'])) or ('err' in r and r['err'] != ref.get('err')):
                    what = 'building the same stages twice' if o == ref_o else f'key order {o} of the API-built first stage'
                    return (f'{what} gives {json.dumps(r, default=str)[:160]} but key order {ref_o} gives {json.dumps(ref, default=str)[:160]} '
                            f'(one container object below the keys {case["hold"]})')
            return None
        base = io['cfg']
        for name, r in io['var'].items():
            if str(r.get('err', '')).startswith('render:'):
                continue
            b = {k: v for k, v in base.items() if k != 'log'}
            x = {k: v for k, v in r.items() if k != 'log'}
            if name == 'perm':
                if ('ok' in b) != ('ok' in x) or ('ok' in b and unordered(strip_ids(b['ok'])) != unordered(strip_ids(x['ok']))):
                    return f'perm: permuting keys changed more than key order: {json.dumps(strip_ids(b))[:120]} vs {json.dumps(strip_ids(x))[:120]}'
                continue
            if name == 'repeat' and 'ok' in b and 'ok' in x and unordered(strip_ids(b['ok'])) == unordered(strip_ids(x['ok'])):
                # equal as Python dicts: repeating a deleting document may re-create a pruned key at the end of its mapping
                # (Lean: C15_repeat_last_tagged_reorders, the proved statement C15_repeat_last_tagged is up to key order)
                continue
            if name.startswith('flag') and 'ok' not in b:
                continue
            if name == 'empty' and b.get('err') == 'merge' and 'notnew' in b:
                continue
            d = first_diff(strip_ids(b), strip_ids(x))
            if d:
                what = {'twice': 'building the same sources twice', 'repeat': 'repeating the last document', 'empty': 'inserting an empty mapping document',
                        'flag': 'marking a node !unsafe / !new', 'flagroot': 'marking a document root !unsafe / !new'}.get(name, 'marking a container below an explicit !del / !merge node !unsafe')
                return f'{name}: {what} changed the result: {d}'
        return None

    @staticmethod
    def has_alias_keys(docs):
        hit = []
        def f(n):
            ks = [sc_py(k) for k, _ in n.get('m', [])]
            ints = [k for k in ks if isinstance(k, int) and not isinstance(k, bool)]
            if any(k < 0 for k in ints) and any(k >= 0 for k in ints):
                hit.append(1)
        for d in docs:
            walk_nodes(d['raw'], f)
        return bool(hit)

    def finding_key(self, case, desc):
        if desc and (desc.startswith('perm:') or desc.startswith('repeat:')) and self.has_alias_keys(case['docs']):
            return 'alias-list-index'
        if desc and desc.startswith('repeat:') and mixed_list_prio(case['docs']):
            return 'repeat-list-index-shift'
        return None

    def nontrivial(self, case, io):
        return len(case['docs']) >= 2 or case.get('kind') == 'api'

PROP = C15()
