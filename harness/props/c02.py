"""C02 — merging plain documents is a right-biased recursive mapping update."""
from props.mergefam import *

class C02(MergeFamProp):
    ID = 'C02'
    VOCAB = G.PLAIN
    NMAX = 5
    DEPTH = 4
    RULE = ('sequences of 1-5 tag-free mapping documents (nesting <= 4, int/str/float keys, empty containers, later stages '
            'derived from earlier ones so that paths collide and change type), rendered in flow or block style; '
            'non-trivial = at least one non-empty document; distinct by SHA-1 of the case')
    ASSUMPTIONS = ['YAML text <-> representation tree is PyYAML (exercised by rendering, not modelled)']

    def corpus(self):
        D = lambda *raws: {'docs': [{'raw': r} for r in raws], 'style': ['flow', 0, 0]}
        return [
            D(M({'a': M({'x': S(1), 'y': S(2)}), 'b': Q([S(1), S(2)])}), M({'a': M({'x': S(5)}), 'b': Q([S(9)])})),
            D(M({'a': Q([S(1), M({'p': S(1), 'q': S(2)})])}), M({'a': M({1: M({'p': S(7)}), -2: S('z')})})),
            D(M({'a': Q([S(1)])}), M({'a': M({3: S(0)})})),
            D(M({'a': Q([S(1), S(2), S(3)])}), M({'a': M({-1: S(9)})}), M({'a': M({-2: Q([S(7)]), 0: M({'z': S(1)})})})),
            D(M({'a': M({'b': M({'c': Q([S(1), S(2)])})})}), M({'a': S(3)}), M({'a': M({'b': Q([])})})),
        ]

    def model_requests(self, case):
        return super().model_requests(case) + [{'op': 'upd', 'docs': case['docs']}]

    def oracle(self, case, io, ans):
        spec = ans[2]
        cfg = io['cfg']
        if 'err' in spec:
            if spec['err'] == 'unsupported':
                return None
            if cfg.get('err') != spec['err']:
                return f"specification (recursive update) fails with {spec['err']} but the build gave {json.dumps(cfg)[:200]}"
            return None
        if 'ok' not in cfg:
            return f"the recursive update succeeds but the build failed: {json.dumps({k: v for k, v in cfg.items() if k != 'log'})[:200]}"
        d = first_diff(strip_ids(cfg['ok']), spec['ok'])
        if d:
            return 'merged data differs from the right-biased recursive update: ' + d
        return None

PROP = C02()
