"""C06 — streams are flattened in order: sources, multi-document files and !include agree.

A case is a document sequence d1..dn (merge-control tags, list-valued keys overridden by a later
document, `!path` probes), a partition of it into files (a file may hold several documents, or none),
the name under which every file is included, where every file physically is (next to the including
file, in the working directory only, in both places with a decoy in the working directory, nowhere),
the directory of the main file, the working directory, the way the main file is named (absolute /
relative), the `safe` flag of the sources and a list of *arrangements* of the same documents:

  sources      every file given as its own source (by the name the lookup rule would find it under)
  rawsep       every document given as its own raw-yaml source carrying the file name
  multidoc     one multi-document file holding all documents, given as the single source
  inclist      main file = `!include [f1..fn]`
  inceach      main file = n documents `!include fi`
  chain        main file = `!include [midd/mid0, midd/mid1]`, the mid files include the real files
  mixed        main file = some documents written inline, the others as top-level includes
  nested       main file = `key: !include [f1..fn]`
  nested_each  main file = n documents `key: !include fi`
  nested_after main file = `key: <copy of the first included document>` --- `key: !include [f1..fn]`; the expectation is computed through
               the API: the files built alone, the resulting tree placed under key as a stage after the first document
  nested_list  main file = `key: [!include [f1..fn], 5]`
  nested_unsafe main file = `key: !unsafe {in: !include [f1..fn]}`
  spread       main file = `!include [d1/inc1, .., dn/incn]` (or n documents `!include di/inci`), the includer di/inci = `!include <name i>`
  nested_spread main file = `key: !include [d1/inc1, .., dn/incn]`, includers as in `spread`

The two `spread` arrangements have a physical layout of their own (`spread_layout`): every file has its own includer, the
includers live in directories chosen per file (`sdirs`, relative to the main directory; two includers may share one, one may
be the working directory), and the placement of a file (next to the including file / working directory only / both with a
decoy / nowhere) is relative to ITS includer.  Most includers (`shared`) write one and the same relative name (`sname`:
plain, with a sub-directory, `./`, `../`, `sub/../`), so that within ONE build the same name as written denotes a
different file for different including files: a file of that name next to each includer, next to one and in the working
directory for another, present for one and missing for another.  A file keeps the shared name only when the lookup rule leads
from its includer to its own content; otherwise it goes by its own name (so the documents of the case stay the same).  The
oracle checks the name every document was found under against the rule (per including file), the outcome for missing
names, agreement with the other arrangements up to file-relative path values, `key: !include` = content under key, and the
locations denoted by file-relative path probes.

Every arrangement is materialised in a fresh temporary directory (the process changes into the chosen
working directory and back), built with `Builder`, and compared with the pure-file-system model
(driver op "c06": stages after preprocessing, merged tree with all flags, evaluated config).  The real
root directory is replaced by a virtual root of the same depth so that observables are stable.
The oracle looks at the implementation alone (see `oracle`).

`!path:parent(n)` is checked against the n-th ancestor DIRECTORY of the file the node was written in, also when the
file was reached under a relative name with `..` components (repo fix D25; before it the lexical `pathlib` parents of
the source name were used, `../m/f.yaml`, parent(2) -> cwd).  Such cases are ordinary violations again."""
import os, sys, json, copy, re, shutil, tempfile, ast, posixpath, random
from common import *          # first: puts the working tree of the implementation on sys.path
from framework import Prop
from evalrun import WorldImpl, conv_val, renumber, compare_config, canon_model_config
from props.mergefam import strip_ids, doc_features, shrink_docs
from awesomeyaml.eval_context import EvalContext
import gen_merge as G
import gen_eval as GE
import srcfam as SRC     # case family `sources`: add_source / add_multiple_sources / Config.build up to the calls of yaml.parse

VBASE = os.path.realpath(tempfile.gettempdir())
VROOT = posixpath.join(VBASE, 'AYC06ROOT')          # virtual root: same depth as the real temp roots

EQUAL_ARRS = ['sources', 'rawsep', 'inclist', 'inceach', 'chain']      # must agree exactly (tree and data)
MASKED_ARRS = ['multidoc', 'mixed', 'spread']                           # agree up to file-relative path values
NESTED_ARRS = ['nested', 'nested_each', 'nested_list', 'nested_unsafe', 'nested_spread', 'nested_after']
SPREAD_ARRS = ['spread', 'nested_spread']                               # own physical layout: one includer per file, each in its own directory
ALL_ARRS = EQUAL_ARRS + MASKED_ARRS + NESTED_ARRS
NEEDS_ALL_FILES = ['sources', 'rawsep', 'multidoc']                     # no include involved: nothing can be "missing"
NO_EMPTY_GROUP = ['inceach', 'nested_each', 'chain', 'mixed', 'spread', 'nested_spread']   # an include contributing no document: assert in Builder.preprocess

# ------------------------------------------------------------------------------------------------
# planning: case x arrangement x root  ->  files, cwd, sources, expectations
# ------------------------------------------------------------------------------------------------

def jn(*a):
    return posixpath.normpath(posixpath.join(*a))

def inc_raw(names):
    if len(names) == 1 and names[0].endswith('1.yaml'):
        return Stext(names[0], 'include')             # short form `!include file`
    return Q([S(n) for n in names], tag='include')

def wrap_keys(raw, keys):
    for k in reversed(keys):
        raw = M([(k, raw)])
    return raw

def arg_of(path_abs, cwd_abs, absolute):
    return path_abs if absolute else posixpath.relpath(path_abs, cwd_abs)

def under(root, path):
    return path == root or path.startswith(root.rstrip('/') + '/')

def spread_params(case):
    n = len(case['groups'])
    sdirs = list(case.get('sdirs') or [])[:n]
    sdirs += ['s%d' % j for j in range(len(sdirs), n)]
    shared = list(case.get('shared') or [])[:n]
    shared += [False] * (n - len(shared))
    return sdirs, shared, case.get('sname') or 'c.yaml'

def spread_layout(case, root, maindir, cwd, main_arg):
    """The `spread` layout: file j is included by its own includer  <maindir>/<sdirs[j]>/inc<j>.yaml = `!include <written j>`
    and lives where its `place` says RELATIVE TO THAT INCLUDER (next to it / in the working directory only / both with a
    decoy in the working directory / nowhere).  `written j` is the name shared by the whole case (`sname`) when
    shared[j], else the file's own name: so the same relative name is written in several files of different directories
    and denotes a different file for each of them.  A shared name is given up for a file (which then goes by its own
    name) when the lookup rule - next to the including file first, then the working directory - would not lead from its
    includer to its own content: two files at one location, a `missing` or `cwd` file shadowed by another one's copy,
    a location outside the root."""
    docs, groups, names, place = case['docs'], case['groups'], case['names'], case['place']
    n = len(groups)
    sdirs, shared, sname = spread_params(case)
    inc_names = [jn(sdirs[j], 'inc%d.yaml' % j) for j in range(n)]            # as written in the main file
    inc_abs = [jn(maindir, inc_names[j]) for j in range(n)]
    inc_arg = [jn(posixpath.dirname(main_arg), inc_names[j]) for j in range(n)]    # name under which the includer is reached
    while True:
        written = [sname if shared[j] else names[j] for j in range(n)]
        files = {inc_abs[j]: [inc_raw([written[j]])] for j in range(n)}
        phys, bad = [], None
        for j in range(n):
            loc_inc, loc_cwd = jn(posixpath.dirname(inc_abs[j]), written[j]), jn(cwd, written[j])
            target = loc_inc if place[j] in ('inc', 'both') else loc_cwd if place[j] == 'cwd' else None
            if not under(root, loc_inc) or not under(root, loc_cwd) or (target is not None and target in files):
                bad = j
                break
            if target is not None:
                files[target] = [docs[i] for i in groups[j]]
            phys.append(target)
        if bad is None:
            for j in range(n):
                loc_cwd = jn(cwd, written[j])
                if place[j] == 'both' and loc_cwd not in files:
                    files[loc_cwd] = [M({'DECOY': S(j)})]
            found = []
            for j in range(n):
                f = None
                for d in [posixpath.dirname(inc_arg[j]), cwd]:
                    cand = jn(d, written[j])
                    if jn(cwd, cand) in files:
                        f = cand
                        break
                found.append(f)
                if (None if f is None else jn(cwd, f)) != phys[j]:
                    bad = j
                    break
        if bad is None:
            return dict(files=files, phys=phys, found=found, written=written, inc_names=inc_names, shared=shared)
        if not shared[bad]:
            raise AssertionError(f'spread layout: file {bad} is not reachable under its own name {names[bad]!r}')
        shared[bad] = False

def plan(case, arr, root):
    """returns dict(files={abs path: [raw docs]}, cwd, sources=[...], found=[str|None per group],
    docfile=[abs path of the file in which document i is written], missing=[names] or None, decoys)"""
    docs, groups, names, place = case['docs'], case['groups'], case['names'], case['place']
    maindir = jn(root, case['maindir']) if case['maindir'] else root
    cwd = jn(root, case['cwd']) if case['cwd'] else root
    main_abs = jn(maindir, 'main.yaml')
    main_arg = arg_of(main_abs, cwd, case['mainabs'])
    incdir = posixpath.dirname(main_arg)
    files, phys = {}, []
    for j, (g, nm, pl) in enumerate(zip(groups, names, place)):
        inc_loc, cwd_loc = jn(maindir, nm), jn(cwd, nm)
        content = [docs[i] for i in g]
        if pl == 'inc' or pl == 'both':
            files[inc_loc] = content
            phys.append(inc_loc)
            if pl == 'both' and cwd_loc != inc_loc:
                files[cwd_loc] = [M({'DECOY': S(j)})]
        elif pl == 'cwd':
            files[cwd_loc] = content
            phys.append(cwd_loc)
        else:
            phys.append(None)
    def lookup(src_arg, nm):
        """the lookup rule as the property states it: next to the including file first, then cwd"""
        for d in [posixpath.dirname(src_arg), cwd]:
            cand = jn(d, nm)
            if jn(cwd, cand) in files:
                return cand
        return None
    found = [lookup(main_arg, nm) for nm in names]
    missing_groups = [j for j in range(len(groups)) if found[j] is None]
    docfile, docsrc = [None] * len(docs), [None] * len(docs)
    for j, g in enumerate(groups):
        for i in g:
            docfile[i] = phys[j]
            docsrc[i] = found[j]
    safe = case.get('safe')
    src = lambda f: dict({'file': f}, **({} if safe is None else {'safe': safe}))
    out = {'cwd': cwd, 'found': found, 'docfile': docfile, 'docsrc': docsrc, 'missing': None, 'main_arg': main_arg, 'key': None}
    if arr == 'sources':
        out['sources'] = [src(found[j]) for j in range(len(groups))]
    elif arr == 'rawsep':
        out['sources'] = [dict({'raw': [docs[i]], 'filename': found[j]}, **({} if safe is None else {'safe': safe}))
                          for j, g in enumerate(groups) for i in g]
    elif arr == 'multidoc':
        all_abs = jn(maindir, 'all.yaml')
        files[all_abs] = list(docs)
        out['sources'] = [src(arg_of(all_abs, cwd, case['mainabs']))]
        out['docfile'] = [all_abs] * len(docs)
        out['docsrc'] = [out['sources'][0]['file']] * len(docs)
    else:
        key = list(case.get('key') or ['k'])
        if arr == 'inclist':
            main = [inc_raw(names)]
            miss = [names[j] for j in missing_groups]
        elif arr == 'inceach':
            main = [inc_raw([nm]) for nm in names]
            miss = [names[j] for j in missing_groups[:1]]
        elif arr == 'nested':
            main = [wrap_keys(inc_raw(names), key)]
            miss = [names[j] for j in missing_groups]
            out['key'] = key
        elif arr == 'nested_after':
            # the key already holds content (a copy of the first included document) when `key: !include [..]` arrives
            base = copy.deepcopy(docs[groups[0][0]]) if groups and groups[0] and found[0] is not None else M({})
            main = [wrap_keys(base, key), wrap_keys(inc_raw(names), key)]
            miss = [names[j] for j in missing_groups]
            out['key'] = key
            out['base'] = base
        elif arr == 'nested_each':
            main = [wrap_keys(inc_raw([nm]), key) for nm in names]
            miss = [names[j] for j in missing_groups[:1]]
            out['key'] = key
        elif arr == 'nested_list':
            main = [wrap_keys(Q([inc_raw(names), S(5)]), key)]
            miss = [names[j] for j in missing_groups]
            out['key'] = key + [0]
        elif arr == 'nested_unsafe':
            main = [wrap_keys(M({'in': inc_raw(names)}, kw={'safe': False}), key)]
            miss = [names[j] for j in missing_groups]
            out['key'] = key + ['in']
        elif arr == 'mixed':
            main, miss = [], []
            inline = case.get('inline') or []
            for j, (g, nm) in enumerate(zip(groups, names)):
                if j in inline and found[j] is not None:
                    main += [docs[i] for i in g]
                    for i in g:
                        out['docfile'][i] = main_abs
                        out['docsrc'][i] = main_arg
                else:
                    main.append(inc_raw([nm]))
                    if found[j] is None and not miss:
                        miss = [nm]
        elif arr in SPREAD_ARRS:
            lay = spread_layout(case, root, maindir, cwd, main_arg)
            files = lay['files']
            out['found'] = lay['found']
            out['written'], out['shared'] = lay['written'], lay['shared']
            for j, g in enumerate(groups):
                for i in g:
                    out['docfile'][i] = lay['phys'][j]
                    out['docsrc'][i] = lay['found'][j]
            if arr == 'nested_spread':
                main = [wrap_keys(inc_raw(lay['inc_names']), key)]
                out['key'] = key
            elif case.get('seach'):
                main = [inc_raw([nm]) for nm in lay['inc_names']]
            else:
                main = [inc_raw(lay['inc_names'])]
            miss = [lay['written'][j] for j in range(len(groups)) if lay['phys'][j] is None][:1]
        elif arr == 'chain':
            middir = jn(maindir, 'midd')
            half = (len(groups) + 1) // 2
            parts = [list(range(0, half)), list(range(half, len(groups)))]
            parts = [p for p in parts if p]
            main = [inc_raw(['midd/mid%d.yaml' % a for a in range(len(parts))])]
            miss = []
            for a, p in enumerate(parts):
                mnames = []
                for j in p:
                    if jn(maindir, names[j]) in files:
                        mnames.append(posixpath.relpath(jn(maindir, names[j]), middir))
                    else:
                        mnames.append(names[j])
                files[jn(middir, 'mid%d.yaml' % a)] = [inc_raw(mnames)]
                if not miss:
                    miss = [mn for j, mn in zip(p, mnames) if found[j] is None]
        else:
            raise ValueError(arr)
        files[main_abs] = main
        out['sources'] = [src(main_arg)]
        out['missing'] = miss or None
    out['files'] = files
    return out

def applicable(case, arr):
    if arr in SPREAD_ARRS and len(set(case['names'])) != len(case['names']):
        return False        # one includer per file, found under its own name: not defined for a file named twice
    has_missing = any(p == 'missing' for p in case['place'])
    has_empty = any(not g for g in case['groups'])
    if has_missing and arr in NEEDS_ALL_FILES:
        return False
    if has_empty and arr in NO_EMPTY_GROUP:
        return False
    return True

# ------------------------------------------------------------------------------------------------
# implementation run
# ------------------------------------------------------------------------------------------------

_MISSING_RE = re.compile(r"\{'missing': \[(.*?)\], 'lookup_dirs': ", re.S)

def classify_c06(e):
    r = classify_error(e)
    if r.get('err') == 'preprocess':
        m = _MISSING_RE.search(str(e))
        names = []
        if m:
            body = m.group(1)
            if '<Object' in body:
                names = re.findall(r">\('((?:[^'\\]|\\.)*)'\)", body)
            elif body.strip():
                try:
                    names = list(ast.literal_eval('[' + body + ']'))
                except Exception:
                    names = re.findall(r"'((?:[^'\\]|\\.)*)'", body)
        r['missing'] = names
    return r

def render_file(docs, style):
    if not docs:
        return ''
    return '---\n'.join(render_doc(d, *style) for d in docs)

def impl_arr(case, arr, world):
    style = case.get('style', ['flow', 0, 0])
    real = os.path.realpath(tempfile.mkdtemp(prefix='ayc06_', dir=VBASE))
    old = os.getcwd()
    res = {}
    try:
        p = plan(case, arr, real)
        for d in {posixpath.dirname(f) for f in p['files']} | {p['cwd']}:
            os.makedirs(d, exist_ok=True)
        for f, docs in p['files'].items():
            with open(f, 'w') as fh:
                fh.write(render_file(docs, style))
        os.chdir(p['cwd'])
        with WorldImpl(world) as w:
            try:
                b = Builder()
                for s in p['sources']:
                    if 'file' in s:
                        b.add_source(s['file'], raw_yaml=False, safe=s.get('safe'))
                    else:
                        b.add_source(render_file(s['raw'], style), raw_yaml=True, filename=s.get('filename'), safe=s.get('safe'))
                if not b.stages:
                    res = {'stages': {'ok': []}, 'tree': {'ok': None}, 'cfg': {'ok': renumber(conv_val({}, w, {})), 'log': []}}
                else:
                    try:
                        b.preprocess()
                        res['stages'] = {'ok': [dump_node(s) for s in b.stages]}
                    except RecursionError:
                        res['stages'] = {'err': 'recursion'}
                    except Exception as e:  # noqa
                        res['stages'] = classify_c06(e)
                    if 'err' in res['stages']:
                        res['tree'] = dict(res['stages'])
                        res['cfg'] = dict(res['stages'], log=[])
                    else:
                        try:
                            b.flatten()
                            root = b.stages[0]
                            res['tree'] = {'ok': dump_node(root)}
                        except RecursionError:
                            res['tree'] = {'err': 'recursion'}
                        except Exception as e:  # noqa
                            res['tree'] = classify_c06(e)
                        if 'err' in res['tree']:
                            res['cfg'] = dict(res['tree'], log=[])
                        else:
                            try:
                                cfg = Config(root, eval_ctx=EvalContext(eval_symbols=w.syms))
                                res['cfg'] = {'ok': renumber(conv_val(cfg, w, {})), 'log': list(w.log)}
                            except RecursionError:
                                res['cfg'] = {'err': 'recursion', 'log': list(w.log)}
                            except Exception as e:  # noqa
                                res['cfg'] = dict(classify_c06(e), log=list(w.log))
            except Exception as e:  # add_source failed (parsing error, top-level file missing)
                c = classify_c06(e)
                res = {'stages': c, 'tree': dict(c), 'cfg': dict(c, log=[])}
        if arr == 'sources' and len(p['sources']) >= 2 and 'ok' in res.get('cfg', {}):
            # the same sources given to ONE builder in two instalments, with a build in between (a builder used incrementally: add,
            # build, add more, build again) - the second build must be the one-shot build (seeded change S9-C15: stages added after a
            # build were never preprocessed)
            with WorldImpl(world) as w3:
                try:
                    b2 = Builder()
                    cut = 1 + (len(json.dumps(case['docs'])) % (len(p['sources']) - 1))
                    for s_ in p['sources'][:cut]:
                        b2.add_source(s_['file'], raw_yaml=False, safe=s_.get('safe')) if 'file' in s_ else \
                            b2.add_source(render_file(s_['raw'], style), raw_yaml=True, filename=s_.get('filename'), safe=s_.get('safe'))
                    b2.build()
                    for j_, s_ in enumerate(p['sources'][cut:], cut):
                        if 'file' in s_ and j_ % 2 == 1 and j_ < len(case['groups']) and case['groups'][j_] and not any(c in case['names'][j_] for c in ' \'"#:{}[],&*!|>%@`'):
                            # every other later instalment is a top-level include of the file instead of the file itself
                            b2.add_source('!include ' + case['names'][j_] + '\n', raw_yaml=True, filename=p['main_arg'], safe=s_.get('safe'))
                        elif 'file' in s_:
                            b2.add_source(s_['file'], raw_yaml=False, safe=s_.get('safe'))
                        else:
                            b2.add_source(render_file(s_['raw'], style), raw_yaml=True, filename=s_.get('filename'), safe=s_.get('safe'))
                    cfg3 = Config(b2.build(), eval_ctx=EvalContext(eval_symbols=w3.syms))
                    res['incremental'] = {'ok': renumber(conv_val(cfg3, w3, {})), 'cut': cut}
                except RecursionError:
                    res['incremental'] = {'err': 'recursion'}
                except Exception as e:  # noqa
                    res['incremental'] = dict(classify_c06(e), cut=cut)
        if arr == 'nested_after' and p.get('missing') is None and all(f is not None for f in p['found']):
            # "`key: !include [..]` equals placing the merged content of those files under key": build the files alone,
            # wrap the resulting tree under key with the node API and merge it as a stage after the first document
            with WorldImpl(world) as w2:
                try:
                    inner = Builder()
                    for f in p['found']:
                        inner.add_source(f, raw_yaml=False, safe=case.get('safe'))
                    node = inner.build() if inner.stages else ConfigDict({})
                    for k in reversed(p['key']):
                        node = ConfigDict({k: node})
                    outer = Builder()
                    outer.add_source(render_file([wrap_keys(p['base'], p['key'])], style), raw_yaml=True, filename=p['main_arg'], safe=case.get('safe'))
                    outer.stages.append(node)
                    cfg2 = Config(outer.build(), eval_ctx=EvalContext(eval_symbols=w2.syms))
                    res['expected'] = {'ok': renumber(conv_val(cfg2, w2, {}))}
                except RecursionError:
                    res['expected'] = {'err': 'recursion'}
                except Exception as e:  # noqa
                    res['expected'] = classify_c06(e)
    finally:
        os.chdir(old)
        shutil.rmtree(real, ignore_errors=True)
    return json.loads(json.dumps(res).replace(real, VROOT))

# ------------------------------------------------------------------------------------------------
# helpers on value JSON
# ------------------------------------------------------------------------------------------------

def val_get(v, keys):
    """value JSON at a key path (None if absent)"""
    for k in keys:
        if isinstance(v, dict) and 'd' in v:
            nxt = [x for kk, x in v['d'] if kk == k]
            if not nxt:
                return None
            v = nxt[0]
        elif isinstance(v, dict) and 'l' in v and isinstance(k, int) and 0 <= k < len(v['l']):
            v = v['l'][k]
        else:
            return None
    return v

def mask_file_paths(v):
    """file-relative !path probes use components starting with F_; hide them"""
    if isinstance(v, list):
        return [mask_file_paths(x) for x in v]
    if isinstance(v, dict):
        if 'path' in v and 'F_' in v['path']:
            return {'path': '*'}
        return {k: mask_file_paths(x) for k, x in v.items()}
    return v

def locate_paths(v, cwd):
    """!path values as the absolute locations they denote (relative values are relative to cwd)"""
    if isinstance(v, list):
        return [locate_paths(x, cwd) for x in v]
    if isinstance(v, dict):
        if 'path' in v and v['path'] != '*':
            return {'path': jn(cwd, v['path'])}
        return {k: locate_paths(x, cwd) for k, x in v.items()}
    return v

def known_keys():
    """keys of the C06 lines of KNOWN_FINDINGS (a listed finding is reported by the oracle, the framework
    then prints KNOWN-FINDING; an unlisted one is left to the correspondence and counted as a feature)"""
    out = set()
    try:
        for line in open(os.path.join(VERIF, 'KNOWN_FINDINGS')):
            m = re.match(r'finding:\s+property=C06\s+id=\S+\s+key=(\S+)', line.strip())
            if m:
                out.add(m.group(1))
    except OSError:
        pass
    return out
KEY_DOTDOT = 'parent-of-dotdot-source'
STRICT_DOTDOT = True      # D25 is repaired in /repo

def strip_src(t):
    """tree dump without source-file attributes"""
    if isinstance(t, list):
        return [strip_src(x) for x in t]
    if isinstance(t, dict):
        return {k: strip_src(x) for k, x in t.items() if k != 'src'}
    return t

def outcome(r):
    """comparable summary of a cfg result"""
    if 'ok' in r:
        return {'ok': strip_ids(r['ok'])}
    return {k: v for k, v in r.items() if k != 'log'}

def ancestor(path_abs, n):
    d = posixpath.dirname(path_abs)
    for _ in range(n):
        d = posixpath.dirname(d)
    return d

# ------------------------------------------------------------------------------------------------
# generation
# ------------------------------------------------------------------------------------------------

VOC = G.MERGECTL
MAINDIRS = ['', 'm', 'm/n']
CWDS = ['', 'w', 'm', 'm/n', 'w/v']
SDIRS = ['', 'p', 'q', 'p/r', 'w']                      # directory of an includer of the spread layout, relative to the main directory
SNAMES = ['c.yaml', 'c.yaml', 'sub/c.yaml', './c.yaml', '../c.yaml', 'sub/../c.yaml']      # the include name several includers share

def gen_probe(rng):
    kind = rng.choice(['file', 'file', 'parent', 'parent', 'parentn', 'parentn', 'cwd', '', 'abs'])
    if kind in ('file', 'parent', 'parentn'):
        comps = rng.choice([[], [], ['..'], ['.'], ['y', '..']]) + [rng.choice(['F_a', 'F_b'])] + rng.choice([[], ['x'], ['.', 'z']])
        ref = {'file': 'file', 'parent': 'parent', 'parentn': 'parent(%d)' % rng.choice([0, 1, 1, 2, 3, 5, 9])}[kind]
    elif kind == 'cwd':
        comps, ref = rng.choice([['c'], ['c', 'd'], ['..', 'c'], []]), 'cwd'
    elif kind == 'abs':
        comps, ref = rng.choice([['z'], ['..', 'z'], []]), 'abs(/x/y)'
    else:
        comps, ref = rng.choice([['c'], ['c', 'd'], ['..', 'c'], ['/q', 'r']]), ''
    if len(comps) == 1 and comps[0] not in ('..', '.') and rng.random() < 0.3:
        return S(comps[0], tag={'k': 'path', 'f': ref})      # short form `!path:ref name`
    return Q([S(c) for c in comps], tag={'k': 'path', 'f': ref})

def gen_case(rng, tier):
    n = rng.choice([1, 2, 2, 3, 3, 4])
    docs = G.gen_sequence(rng, VOC, nmax=n, depth=rng.choice([1, 2, 2, 3]), p_tag=rng.choice([0.0, 0.2, 0.35]))
    n = len(docs)
    # list-valued keys overridden across the boundary between documents (the historical StreamNode defect)
    if rng.random() < 0.7:
        k = rng.choice(['L', 'a', 'b'])
        i = rng.randrange(n)
        long_list = Q([S(x) for x in rng.sample([1, 2, 3, 4, 'p'], rng.choice([2, 3]))], kw=G.gen_kw(rng, VOC, 0.15))
        docs[i] = dict(docs[i], m=[kv for kv in docs[i]['m'] if kv[0] != k] + [[k, long_list]])
        if n > 1 or rng.random() < 0.5:
            if i == n - 1:
                docs.append(M([]))
                n += 1
            j = rng.randrange(i + 1, n)
            short = Q([S(rng.choice([9, 'q']))], kw=G.gen_kw(rng, VOC, 0.15))
            docs[j] = dict(docs[j], m=[kv for kv in docs[j]['m'] if kv[0] != k] + [[k, short]])
    # !path probes under fresh keys
    for i in range(n):
        if rng.random() < 0.6:
            items = [['pp%d' % i, gen_probe(rng)]]
            if rng.random() < 0.3:
                items.append(['pq%d' % i, M({'in': gen_probe(rng), 'l': Q([gen_probe(rng), S(1)])})])
            docs[i] = dict(docs[i], m=docs[i]['m'] + items)
            # a LATER document patches one component of the probe through a mapping with an index key: the path node survives
            # (it is merged, not replaced) and still denotes a location relative to the file in which IT was written, not the
            # file of the patch (seeded change S5-C06: the survivor took over the other node's source file)
            pr = items[0][1]
            cand = [j for j in range(i + 1, n) if not docs[j].get('kw')]      # untagged on both sides: the patch is not outranked
            if 'q' in pr and pr['q'] and not pr.get('kw') and not docs[i].get('kw') and cand and rng.random() < 0.45:
                j = rng.choice(cand)
                ix = rng.randrange(len(pr['q']))
                comp = 'F_p'                  # file-relative probes are recognised (and masked where files move) by the F_ prefix
                docs[j] = dict(docs[j], m=docs[j]['m'] + [['pp%d' % i, M([(ix, S(comp))])]])
    # partition into files
    groups, cur = [], []
    for i in range(n):
        cur.append(i)
        if rng.random() < 0.65:
            groups.append(cur); cur = []
    if cur:
        groups.append(cur)
    if rng.random() < 0.06:
        groups.insert(rng.randrange(len(groups) + 1), [])       # an empty file
    maindir = rng.choice(MAINDIRS)
    cwd = rng.choice(CWDS) if rng.random() < 0.8 else maindir
    names, place = [], []
    can_up = bool(maindir) and bool(cwd)
    for j in range(len(groups)):
        base = 'f%d.yaml' % j
        form = rng.choice(['', '', 'sub/', 'sub/deep/', '../', './', 'sub/../', 'abs'])
        if form == '../' and not can_up:
            form = 'sub/'
        if form == 'abs':
            nm = None
        else:
            nm = form + base
        names.append(nm)
        place.append(rng.choice(['inc', 'inc', 'cwd', 'both', 'both']))
    nmiss = 0
    if rng.random() < 0.25:
        for j in range(len(groups)):
            if rng.random() < 0.5:
                place[j] = 'missing'; nmiss += 1
    # an absolute include name cannot be expressed independently of the root; use a plain name instead
    names = [nm if nm is not None else 'sub/abs%d.yaml' % j for j, nm in enumerate(names)]
    # one file named twice (with other files in between): the stream holds its documents twice, whichever way it is given
    # (seeded change S7-C06: an include list that drops repeated names)
    # (only files without !path probes: a probe key written twice, once inline and once in its file, has no single expectation)
    cand = [j for j in range(len(groups) - 1) if groups[j] and not any(str(k).startswith(('pp', 'pq')) for i in groups[j] for k, _ in docs[i]['m'])]
    if cand and rng.random() < 0.35:
        j = rng.choice(cand)
        groups.append(list(range(len(docs), len(docs) + len(groups[j]))))
        docs.extend(copy.deepcopy(docs[i]) for i in groups[j])
        n = len(docs)
        names.append(names[j]); place.append(place[j])
    # the spread layout: one includer per file, each in a directory of its own choice, most of them writing the same name
    ng = len(groups)
    sdirs = [rng.choice(SDIRS) for _ in range(ng)]
    shared = [rng.random() < 0.7 for _ in range(ng)]
    sname, seach = rng.choice(SNAMES), rng.random() < 0.4
    arrs = list(ALL_ARRS)
    if tier != 'thorough' and rng.random() < 0.5:
        keep = set(rng.sample(ALL_ARRS, 5)) | {'inclist'}
        arrs = [a for a in ALL_ARRS if a in keep]
    case = {
        'docs': docs, 'groups': groups, 'names': names, 'place': place, 'maindir': maindir, 'cwd': cwd,
        'mainabs': rng.random() < 0.5, 'safe': rng.choice([None, None, True, False]),
        'key': rng.choice([['k'], ['k'], ['a'], ['k', 'in'], ['L']]),
        'inline': [j for j in range(len(groups)) if rng.random() < 0.5],
        'sdirs': sdirs, 'shared': shared, 'sname': sname, 'seach': seach,
        'arrs': arrs, 'style': list(rng.choice([('flow', 0, 0), ('flow', 0, 0), ('block', 0, 0), ('flow', 1, 1)])),
    }
    case['arrs'] = [a for a in case['arrs'] if applicable(case, a)]
    return case

def mk_case(docs, groups=None, **kw):
    groups = groups if groups is not None else [[i] for i in range(len(docs))]
    c = {'docs': docs, 'groups': groups, 'names': ['f%d.yaml' % j for j in range(len(groups))],
         'place': ['inc'] * len(groups), 'maindir': '', 'cwd': '', 'mainabs': False, 'safe': None, 'key': ['k'],
         'inline': [0], 'arrs': list(ALL_ARRS), 'style': ['flow', 0, 0]}
    c.update(kw)
    c['arrs'] = [a for a in c['arrs'] if applicable(c, a)]
    return c

# ------------------------------------------------------------------------------------------------
# the property
# ------------------------------------------------------------------------------------------------

class C06(Prop):
    ID = 'C06'
    QUICK_N = 120
    THOROUGH_N = 2500
    WORLD = GE.WORLD
    RULE = ('document sequences over the merge-control vocabulary with a list-valued key overridden by a later document and !path '
            'probes (file, parent(n), cwd, implicit, abs) x partition into (multi-document / empty) files x include names with '
            'sub-directories, ./ and ../ x placement of every file (next to the including file, cwd only, both with a decoy, '
            'missing) x main directory, working directory, absolute/relative main name, source safe flag x (spread layout) one '
            'includer per file in a directory chosen per file, ~70% of them writing one shared relative include name that '
            'denotes a different file (or no file) for each including directory; every case is built in '
            'up to 13 arrangements (separate sources, raw sources, one multi-document file, !include list, one include per '
            'document, includes of includes, inline/included mix, nested under a key in four ways, one includer per file '
            'spread over directories at top level and under a key) in real temporary directories; '
            'non-trivial = at least two documents in at least two arrangements; distinct by SHA-1')
    ASSUMPTIONS = [
        'the file system is a pure map from absolute normalised paths to document lists (no symlinks, permissions, ~ expansion, directories as files)',
        'self-including files are outside the domain (fuel on the model side, RecursionError on the code side)',
        'an error raised while a nested stream is flattened is compared by class up to the PremergeError wrapping (the model reports the inner class)',
        'a top-level include that contributes no document (assert in Builder.preprocess) is outside the domain',
        'the temporary root is replaced by a virtual root of the same depth; !path values are compared as normalised strings',
    ]

    def corpus(self):
        A = lambda xs, **kw: Q([S(x) for x in xs], **kw)
        return [
            # D06 witness: a list overridden across the include boundary
            mk_case([M({'a': A([1, 2, 3])}), M({'a': A([9])})]),
            mk_case([M({'a': A([1, 2, 3]), 'b': M({'c': A([1, 2])})}), M({'b': M({'c': A([7])})}), M({'a': A([4, 5], kw={'del': False})})],
                    groups=[[0], [1, 2]], names=['f0.yaml', 'sub/f1.yaml'], place=['both', 'cwd'], maindir='m', cwd='w'),
            # lookup order, missing names, !path probes reached through different routes
            mk_case([M({'pp0': Q([S('F_a')], tag={'k': 'path', 'f': 'file'}), 'x': S(1)}),
                     M({'pp1': Q([S('F_b'), S('y')], tag={'k': 'path', 'f': 'parent(1)'}), 'x': S(2)})],
                    names=['sub/f0.yaml', '../f1.yaml'], place=['both', 'cwd'], maindir='m/n', cwd='w', mainabs=True),
            mk_case([M({'x': S(1)}), M({'x': S(2)}), M({'y': S(3)})], names=['f0.yaml', 'sub/f1.yaml', 'f2.yaml'],
                    place=['missing', 'inc', 'missing'], maindir='m', cwd=''),
            mk_case([M({'x': S(1, kw={'prio': 1})}), M({'x': S(2)})], groups=[[0], [], [1]], place=['inc', 'cwd', 'inc'], cwd='w'),
            # parent(n) of a file reached under a name with a leading '..' (flagged only when KNOWN_FINDINGS lists the key)
            mk_case([M({'pp0': Q([S('F_a')], tag={'k': 'path', 'f': 'parent(2)'})})], maindir='m', cwd='w', arrs=['sources', 'inclist']),
            # one include name written in two files of different directories denotes a different file for each of them
            # (seeded S3-C06: the place where a name was found first was remembered for the whole build); minimal form first
            mk_case([M([]), M([])], sdirs=['s0', 's1'], shared=[True, True], arrs=['spread']),
            mk_case([M({'name': S('none'), 'depth': S(18)}), M({'name': S('cifar'), 'batch': S(32)}), M({'x': S(1)})],
                    sdirs=['model', 'data', 'data'], shared=[True, True, False], arrs=['inclist', 'spread', 'nested_spread']),
            #   ... next to the first includer, through the working directory for the second, nowhere for the third
            mk_case([M({'x': S(1)}), M({'x': S(2)})], sdirs=['p', 'q'], shared=[True, True], place=['inc', 'cwd'], cwd='w',
                    sname='sub/c.yaml', seach=True, arrs=['inclist', 'spread', 'nested_spread']),
            mk_case([M({'x': S(1)}), M({'x': S(2)}), M({'y': S(3)})], sdirs=['p', 'p/r', ''], shared=[True, True, True],
                    place=['both', 'inc', 'missing'], maindir='m', cwd='m/n', sname='../c.yaml', arrs=['inclist', 'spread', 'nested_spread']),
        ] + SRC.corpus()

    def gen_cases(self, rng, n, tier):
        cases = [gen_case(rng, tier) for _ in range(n)]
        r2 = random.Random(rng.random())      # drawn after the others: those stay as they were
        return cases + [SRC.gen_sources_case(r2) for _ in range(max(1, n // 2))] + [self.gen_ops_case(r2) for _ in range(max(3, n // 25))]

    # ------------------------------------------------------------------ both sides
    @staticmethod
    def gen_ops_case(rng):
        """a ONE-document include under a key that already holds content, the included document holding premerge operators
        (`x: !append [4]`, `!extend`, `!prev`): the file is merged on its own first (an operator without a previous value becomes a
        plain list / fails there), then placed under the key - whatever the key holds already (seeded change S4-C06). Only the
        `nested_after` arrangement, whose expectation is computed through the node API."""
        items = [('x', Q([S(v) for v in rng.sample([1, 2, 3, 7], rng.choice([1, 2, 3]))])), ('y', M([('p', S(1))])), ('z', S(0))]
        opk = rng.choice(['append', 'extend', 'extend'])
        items[0] = ('x', Q([S(rng.choice([4, 8]))], tag=opk))
        if rng.random() < 0.3:
            items.append(('w', Stext('y', 'prev')))
        doc = M(items)
        # the copy of the document that nested_after writes under the key first: there the operator has nothing before it either
        c = mk_case([doc], groups=[[0]], arrs=['nested_after'], key=rng.choice([['k'], ['k', 'in'], ['a']]))
        return c

    def impl(self, case):
        if case.get('kind') == 'sources':
            return SRC.impl(case)
        return {a: impl_arr(case, a, self.WORLD) for a in case['arrs']}

    def model_requests(self, case):
        if case.get('kind') == 'sources':
            return SRC.model_requests(case)
        reqs = []
        for a in case['arrs']:
            p = plan(case, a, VROOT)
            reqs.append({'op': 'c06', 'fs': [[f, d] for f, d in sorted(p['files'].items())], 'cwd': p['cwd'],
                         'sources': p['sources'], 'world': self.WORLD})

        reqs.append(self.path_request(case))
        return reqs

    TRICKY = ['', '/', '//', '///a', 'a/../..', '/..', '//x/../..', './a', 'a//b/', '../m/f0.yaml', 'sub/./../x', '/a/b/../../../c']

    def path_request(self, case):
        p = plan(case, 'inclist', VROOT)
        paths = list(self.TRICKY) + [p['main_arg'], p['cwd']] + [f for f in p['found'] if f] + list(case['names'])
        d = posixpath.dirname(p['main_arg'])
        joins = [[d, nm] for nm in case['names']] + [[p['cwd'], nm] for nm in case['names']] + [['a/', 'b'], ['', 'x/../y'], ['a', '/abs/z']]
        return {'op': 'c06path', 'paths': paths, 'joins': joins}

    @staticmethod
    def check_paths(req, ans):
        import pathlib
        for i, x in enumerate(req['paths']):
            exp = posixpath.normpath(x)
            if ans['norm'][i] != exp:
                return f'normChars({x!r}) = {ans["norm"][i]!r}, os.path.normpath gives {exp!r}'
            if ans['normEval'][i] != exp:
                return f'Eval.normpath({x!r}) = {ans["normEval"][i]!r}, os.path.normpath gives {exp!r}'
            if ans['dirname'][i] != posixpath.dirname(x):
                return f'dirname({x!r}) = {ans["dirname"][i]!r}, os.path.dirname gives {posixpath.dirname(x)!r}'
            exp = [str(q) for q in pathlib.PurePosixPath(x).parents]
            if ans['parents'][i] != exp and not x.startswith('//'):
                return f'pathParents({x!r}) = {ans["parents"][i]}, pathlib gives {exp}'
        for (d, n), got in zip(req['joins'], ans['join']):
            exp = posixpath.normpath(posixpath.join(d, n))
            if got != exp:
                return f'joinNorm({d!r}, {n!r}) = {got!r}, os.path gives {exp!r}'
        return None

    def model_obs(self, case, answers):
        if case.get('kind') == 'sources':
            return SRC.model_obs(case, answers)
        mo = dict(zip(case['arrs'], answers))
        mo['__paths__'] = answers[len(case['arrs'])] if len(answers) > len(case['arrs']) else None
        return mo

    def compare(self, case, io, mo):
        if case.get('kind') == 'sources':
            return SRC.compare(case, io, mo)
        skipped = 0
        if mo.get('__paths__') is not None:
            if 'bad' in mo['__paths__']:
                return 'c06path: driver rejected the request: ' + mo['__paths__']['bad']
            d = self.check_paths(self.path_request(case), mo['__paths__'])
            if d:
                return 'path functions: ' + d
        for a in case['arrs']:
            i, m = io[a], mo[a]
            if 'bad' in m:
                return f'[{a}] driver rejected the request: {m["bad"]}'
            if any(m[k].get('err') == 'unsupported' for k in ('stages', 'tree', 'cfg')):
                skipped += 1
                continue
            d = first_diff(i['stages'], m['stages'])
            if d:
                return f'[{a}] stages after preprocess: ' + d
            nested = a in NESTED_ARRS
            mt = canon_model_answer(m['tree'])
            d = first_diff(i['tree'], mt)
            if d:
                return f'[{a}] merged tree: ' + d
            d = compare_config(i['cfg'], m['cfg'])
            if d == 'SKIP':
                skipped += 1
            elif d and d.startswith('KNOWN:'):
                return d
            elif d:
                return f'[{a}] evaluated config: ' + d
        return 'SKIP' if skipped == len(case['arrs']) and skipped else None

    # ------------------------------------------------------------------ the property on the implementation alone
    def oracle(self, case, io, ans):
        if case.get('kind') == 'sources':
            return SRC.oracle(case, io, ans)
        arrs = case['arrs']
        plans = {a: plan(case, a, VROOT) for a in arrs}
        has_missing = any(p == 'missing' for p in case['place'])
        # (1) a file found nowhere fails the build with an error naming exactly the missing files
        if has_missing:
            for a in arrs:
                exp = plans[a]['missing']
                if exp is None:
                    continue
                got = io[a]['cfg']
                if got.get('err') != 'preprocess' or got.get('missing') != exp:
                    return f'[{a}] files {exp} exist in no lookup directory but the build gives {json.dumps(outcome(got))[:160]}'
            return None
        for a in arrs:
            if io[a]['cfg'].get('err') == 'preprocess' and io[a]['cfg'].get('missing'):
                return f'[{a}] every included file exists but the build reports missing files {io[a]["cfg"]["missing"]}'
        # (2) lookup order: every document carries the name under which the rule finds its file
        #     (in the spread layout: the name is looked up next to the file in which it is written, whatever the same name
        #     denotes for another including file of the same build)
        for a in ('inclist', 'spread'):
            if a not in arrs or 'ok' not in io[a]['stages']:
                continue
            p = plans[a]
            exp = [p['found'][j] for j, g in enumerate(case['groups']) for _ in g]
            got = [s['f']['src'] for s in io[a]['stages']['ok']]
            if got != exp:
                return f'[{a}] documents come from {got}, the lookup rule (including file first, then cwd) gives {exp}'
            for s in io[a]['stages']['ok']:
                if any(k == 'DECOY' for k, _ in s.get('c', [])):
                    return f'[{a}] the copy in the working directory was read although the file exists next to the including file'
        # (3) all arrangements of the same documents build the same config
        ref_a = next((a for a in EQUAL_ARRS if a in arrs), None)
        if ref_a:
            ref = io[ref_a]
            for a in arrs:
                if a == ref_a or a not in EQUAL_ARRS + MASKED_ARRS:
                    continue
                x, y = outcome(ref['cfg']), outcome(io[a]['cfg'])
                if a in MASKED_ARRS:
                    x, y = mask_file_paths(x), mask_file_paths(y)
                x, y = locate_paths(x, plans[ref_a]['cwd']), locate_paths(y, plans[a]['cwd'])
                d = first_diff(x, y)
                if d:
                    return f'arrangements {ref_a} and {a} of the same documents build different configs: ' + d
                if a in EQUAL_ARRS and 'ok' in ref['tree'] and 'ok' in io[a]['tree']:
                    d = first_diff(strip_src(ref['tree']), strip_src(io[a]['tree']))
                    if d:
                        return f'arrangements {ref_a} and {a} of the same documents build different trees: ' + d
        # (4b) the same when the key already holds content: expectation computed through the API (see impl_arr)
        if 'sources' in arrs and 'incremental' in io['sources'] and 'ok' in io['sources']['cfg']:
            inc = io['sources']['incremental']
            if 'ok' not in inc:
                return (f'[sources] the same sources added to one builder in two instalments (build after the first {inc.get("cut")}) fail with '
                        f'{inc.get("err")}, the one-shot build succeeds')
            d = first_diff(strip_ids(io['sources']['cfg']['ok']), strip_ids(inc['ok']))
            if d:
                return f'[sources] the same sources added to one builder in two instalments (build after the first {inc.get("cut")}) give another config: ' + d
        if 'nested_after' in arrs and 'expected' in io['nested_after']:
            exp, got = io['nested_after']['expected'], io['nested_after']['cfg']
            if 'ok' in exp:
                if 'ok' not in got:
                    return (f'[nested_after] placing the merged content of the files under {plans["nested_after"]["key"]} after the first document '
                            f'builds, but `key: !include` fails: {json.dumps(outcome(got))[:160]}')
                d = first_diff(mask_file_paths(strip_ids(exp['ok'])), mask_file_paths(strip_ids(got['ok'])))
                if d:
                    return ('[nested_after] `key: !include [..]` merged onto existing content differs from placing the merged content of '
                            'those files under key: ' + d)
        # (4) `key: !include fs` = the merged content of fs placed under key
        base = io.get('inclist') or (io.get(ref_a) if ref_a else None)
        if base is not None:
            for a in ('nested', 'nested_list', 'nested_spread'):
                if a not in arrs:
                    continue
                key = plans[a]['key']
                got = io[a]['cfg']
                if 'ok' in base['cfg']:
                    if 'ok' not in got:
                        return f'[{a}] the files build alone but `{key}: !include` fails: {json.dumps(outcome(got))[:160]}'
                    inner = val_get(got['ok'], key)
                    if inner is None:
                        return f'[{a}] nothing under {key}: {json.dumps(strip_ids(got["ok"]))[:160]}'
                    x, y = strip_ids(base['cfg']['ok']), strip_ids(inner)
                    if a in SPREAD_ARRS:        # the files are elsewhere: file-relative path values are left to (5)
                        x, y = mask_file_paths(x), mask_file_paths(y)
                    d = first_diff(x, y)
                    if d:
                        return f'[{a}] content under {key} differs from the build of the same files alone: ' + d
                    if a == 'nested_list':
                        outer = val_get(got['ok'], key[:-1])
                        if len(outer.get('l', [])) != 2 or outer['l'][1] != 5:
                            return f'[{a}] the list around the include changed: {json.dumps(strip_ids(outer))[:160]}'
                elif 'ok' in got and base['cfg'].get('err') not in ('required',):
                    return f'[{a}] the files alone fail ({base["cfg"].get("err")}) but `{key}: !include` builds'
        # (5) file-relative !path values denote a location relative to the file in which they were written
        for a in arrs:
            r = io[a]['cfg']
            if 'ok' not in r or a in ('nested_each', 'nested_after'):     # nested_after writes a copy of the first document into the main file: its probes have two homes
                continue
            p = plans[a]
            top = r['ok'] if p['key'] is None else val_get(r['ok'], p['key'])
            if top is None:
                continue
            for i, doc in enumerate(case['docs']):
                for k, raw in doc['m']:
                    if not (isinstance(k, str) and k.startswith('pp')) or k != 'pp%d' % i:
                        continue
                    v = val_get(top, [k])
                    if not (isinstance(v, dict) and 'path' in v):
                        continue
                    patched = raw
                    for doc2 in case['docs'][i + 1:]:        # component patches of later documents (index mappings)
                        for k2, r2 in doc2['m']:
                            if k2 == k and 'm' in r2 and 'q' in patched:
                                q = list(patched['q'])
                                for ix, c2 in r2['m']:
                                    q[sc_py(ix)] = c2
                                patched = dict(patched, q=q)
                    d = self.check_probe(patched, v['path'], p, p['docfile'][i])
                    if d:
                        src_i = p['docsrc'][i] or ''
                        risky = raw['t']['f'].startswith('parent') and (
                            (not src_i.startswith('/') and '..' in src_i.split('/')) or
                            (not case['mainabs'] and p['main_arg'].startswith('..')))
                        if risky and not STRICT_DOTDOT:
                            continue
                        return f'[{a}] {k}: ' + d + (' (source name with leading ..)' if risky else '')
        return None

    @staticmethod
    def check_probe(raw, value, p, file_abs):
        ref = raw['t']['f']
        comps = [sc_py(c['s']['l']) for c in raw['q']] if 'q' in raw else [sc_py(raw['s']['l'])]
        loc = jn(p['cwd'], value)
        if ref == '':
            exp = posixpath.normpath(posixpath.join('.', *comps))
            return None if value == exp else f'!path {comps} evaluates to {value!r}, expected {exp!r}'
        if ref == 'cwd':
            exp = jn(p['cwd'], *comps)
        elif ref.startswith('abs('):
            exp = jn(ref[4:-1], *comps)
        elif file_abs is None:
            return None
        elif ref == 'file':
            exp = jn(file_abs, *comps)
        else:
            n = int(ref[7:-1]) if ref != 'parent' else 0
            exp = jn(ancestor(file_abs, n), *comps)
        return None if loc == exp else f'!path:{ref} {comps} written in {file_abs} denotes {loc}, expected {exp}'

    def finding_key(self, case, desc):
        if case.get('kind') == 'sources':
            return SRC.finding_key(case, desc)
        return None

    # ------------------------------------------------------------------ bookkeeping
    def nontrivial(self, case, io):
        if case.get('kind') == 'sources':
            return SRC.nontrivial(case, io)
        return len(case['docs']) >= 2 and len(case['arrs']) >= 2

    def features(self, case, io):
        if case.get('kind') == 'sources':
            return SRC.features(case, io)
        f = set(doc_features([{'raw': d} for d in case['docs']]))
        f = {x for x in f if not x.startswith('stages=')}
        f.add(f'docs={len(case["docs"])}'); f.add(f'files={len(case["groups"])}')
        if any(len(g) > 1 for g in case['groups']): f.add('file:multidoc')
        if any(not g for g in case['groups']): f.add('file:empty')
        for pl in set(case['place']): f.add('place:' + pl)
        for nm in case['names']:
            f.add('name:' + ('../' if nm.startswith('../') else 'sub/../' if 'sub/../' in nm else './' if nm.startswith('./') else
                             'sub/' if '/' in nm else 'plain'))
        f.add('maindir:' + (case['maindir'] or '.')); f.add('cwd:' + (case['cwd'] or '.'))
        f.add('cwd==maindir' if case['cwd'] == case['maindir'] else 'cwd!=maindir')
        f.add('main:abs' if case['mainabs'] else 'main:rel'); f.add(f'safe:{case.get("safe")}')
        sp = next((a for a in case['arrs'] if a in SPREAD_ARRS), None)
        if sp:
            try:
                lay = plan(case, sp, VROOT)
                k = sum(1 for x in lay['shared'] if x)
                f.add('spread:shared-name-written-in=%s' % (k if k < 3 else '3+'))
                if k >= 2:
                    locs = {lay['docfile'][g[0]] for g, x in zip(case['groups'], lay['shared']) if x and g}
                    f.add('spread:shared-name-denotes=%d-files' % len(locs))
                    if None in locs: f.add('spread:shared-name-missing-for-one')
            except Exception:
                pass
        for a in case['arrs']:
            f.add('arr:' + a)
            if isinstance(io, dict) and a in io:
                f.add(f'result:{a}:' + str(io[a]['cfg'].get('err', 'ok')))
        return sorted(f)

    def shrink(self, case):
        if case.get('kind') == 'sources':
            yield from SRC.shrink(case)
            return
        arrs = case['arrs']
        # fewer arrangements (keep a pair so that agreement oracles still apply)
        if len(arrs) > 2:
            for a in arrs:
                yield dict(case, arrs=[x for x in arrs if x != a])
        elif len(arrs) == 2:
            for a in arrs:
                yield dict(case, arrs=[x for x in arrs if x != a])
        # simpler layout
        for fld, val in (('maindir', ''), ('cwd', ''), ('mainabs', False), ('safe', None), ('key', ['k']), ('style', ['flow', 0, 0])):
            if case.get(fld) != val:
                yield dict(case, **{fld: val})
        if any(a in SPREAD_ARRS for a in arrs):
            sdirs, shared, sname = spread_params(case)
            for j in range(len(shared)):
                if shared[j]:
                    yield dict(case, sdirs=sdirs, sname=sname, shared=shared[:j] + [False] + shared[j + 1:])
            for j in range(len(sdirs)):
                if sdirs[j] != 's%d' % j:
                    yield dict(case, sdirs=sdirs[:j] + ['s%d' % j] + sdirs[j + 1:], sname=sname, shared=shared)
            if sname != 'c.yaml':
                yield dict(case, sname='c.yaml')
            if case.get('seach'):
                yield dict(case, seach=False)
        for j, pl in enumerate(case['place']):
            if pl != 'inc':
                c = dict(case, place=case['place'][:j] + ['inc'] + case['place'][j + 1:])
                c['arrs'] = [a for a in c['arrs'] if applicable(c, a)]
                yield c
            if case['names'][j] != 'f%d.yaml' % j:
                yield dict(case, names=case['names'][:j] + ['f%d.yaml' % j] + case['names'][j + 1:])
        # merge two files into one / drop an empty file
        for j, g in enumerate(case['groups']):
            if not g and len(case['groups']) > 1:
                yield self._drop_group(case, j)
        # fewer / smaller documents
        n = len(case['docs'])
        if n > 1:
            for i in range(n):
                yield self._drop_doc(case, i)
        for cand in shrink_docs([{'raw': d} for d in case['docs']]):
            if len(cand) == n:
                yield dict(case, docs=[c['raw'] for c in cand])

    @staticmethod
    def _drop_group(case, j):
        c = dict(case)
        for fld in ('groups', 'names', 'place'):
            c[fld] = case[fld][:j] + case[fld][j + 1:]
        for fld in ('sdirs', 'shared'):
            if case.get(fld) and len(case[fld]) > j:
                c[fld] = case[fld][:j] + case[fld][j + 1:]
        c['inline'] = [x - (1 if x > j else 0) for x in case.get('inline', []) if x != j]
        c['arrs'] = [a for a in c['arrs'] if applicable(c, a)]
        return c

    @staticmethod
    def _drop_doc(case, i):
        c = dict(case, docs=case['docs'][:i] + case['docs'][i + 1:])
        c['groups'] = [[x - (1 if x > i else 0) for x in g if x != i] for g in case['groups']]
        for j in reversed(range(len(c['groups']))):
            if not c['groups'][j] and case['groups'][j]:
                c = C06._drop_group(c, j)
        c['arrs'] = [a for a in c['arrs'] if applicable(c, a)]
        return c

    def render(self, case):
        if case.get('kind') == 'sources':
            return SRC.render(case)
        style = case.get('style', ['flow', 0, 0])
        out = {'maindir': case['maindir'] or '.', 'cwd': case['cwd'] or '.', 'main': 'absolute' if case['mainabs'] else 'relative',
               'safe': case.get('safe'), 'arrangements': case['arrs'], 'files': []}
        for g, nm, pl in zip(case['groups'], case['names'], case['place']):
            try:
                text = render_file([case['docs'][i] for i in g], style)
            except Exception as e:
                text = f'<unrenderable: {e}>'
            out['files'].append({'include_name': nm, 'place': pl, 'text': text})
        try:
            a = next((x for x in case['arrs'] if x not in NEEDS_ALL_FILES), None)
            if a:
                p = plan(case, a, '/ROOT')
                out['main_file[' + a + ']'] = render_file(p['files'][jn('/ROOT', case['maindir'], 'main.yaml')], style)
        except Exception:
            pass
        try:
            a = next((x for x in case['arrs'] if x in SPREAD_ARRS), None)
            if a:
                p = plan(case, a, '/ROOT')
                out['layout[' + a + ']'] = {f: render_file(d, style) for f, d in sorted(p['files'].items())}
                out['layout[' + a + ']']['(lookup rule finds)'] = p['found']
        except Exception:
            pass
        return out

PROP = C06()
