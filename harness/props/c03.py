"""C03 — priorities: the highest-priority writer wins, the latest among equals; metadata combined alike."""
from props.mergefam import *
import random

KEYS = ['a', 'b', 'c']

def skeleton(r, d=0):
    if d >= 3 or r.random() < 0.35:
        return None
    return {k: skeleton(r, d + 1) for k in r.sample(KEYS, r.randint(1, 3))}

def gen_tagkw(r, p):
    if r.random() >= p:
        return {}
    kw = r.choice([{'prio': 1}, {'prio': -1}, {'prio': 1}, {'prio': -1}, {'md': [['m' + str(r.randrange(3)), r.randrange(9)]]},
                   {'prio': 1, 'md': [['m' + str(r.randrange(3)), r.randrange(9)]]}, {'prio': -1, 'md': [['n', 'w' + str(r.randrange(9))]]}])
    return dict(kw)

P_RESTATE = 0.3

def gen_stage(r, sk, ctr, p_tag, top=True, written=None, path=()):
    """one stage over the skeleton; `written` (path -> values of the earlier stages, shared by the stages of a case) lets a
    leaf restate a value that an earlier stage already wrote there, under its own tags: the later writer of an equal value
    must still become the survivor (priority, metadata) and decide against the stages after it"""
    kw = gen_tagkw(r, p_tag * (0.4 if top else 1))
    if sk is None:
        prev = written.get(path) if written is not None else None
        if prev and r.random() < P_RESTATE:
            v = r.choice(prev)
        else:
            ctr[0] += 1
            v = ctr[0]
        if written is not None:
            written.setdefault(path, []).append(v)
        return S(v, kw=kw)
    ks = [k for k in sk if r.random() < 0.7] or ([r.choice(list(sk))] if top else [])
    return M([(k, gen_stage(r, sk[k], ctr, p_tag, False, written, path + (k,))) for k in ks], kw=kw)

def leaves(n, inherited=None, path=()):
    """(path, effective priority, value, own metadata) of every leaf; the outermost priority tag wins"""
    kw = n.get('kw') or {}
    eff = inherited if inherited is not None else kw.get('prio')
    if 'm' in n:
        for k, c in n['m']:
            yield from leaves(c, eff, path + (sc_py(k),))
    else:
        yield path, (eff or 0), sc_py(n['s']['l']), {k: sc_py(v) for k, v in kw.get('md', [])}

def containers(n, inherited=None, path=()):
    """(path, effective priority, own metadata) of every mapping node"""
    kw = n.get('kw') or {}
    eff = inherited if inherited is not None else kw.get('prio')
    if 'm' in n:
        yield path, (eff or 0), {k: sc_py(v) for k, v in kw.get('md', [])}
        for k, c in n['m']:
            yield from containers(c, eff, path + (sc_py(k),))

def tree_containers(t, path=()):
    if 'c' in t:
        yield path, t
        for k, c in t['c']:
            yield from tree_containers(c, path + (sc_py(k),))

def tree_leaves(t, path=()):
    if 'c' in t:
        for k, c in t['c']:
            yield from tree_leaves(c, path + (sc_py(k),))
    else:
        yield path, t

class C03(MergeFamProp):
    ID = 'C03'
    RULE = ('2-6 shape-compatible mapping documents drawn from a random skeleton (depth <= 3), every node optionally tagged '
            '!force / !weak / metadata (also combined, also on the document root), so that strong, normal and weak writers to one '
            'leaf path interleave in every order; a leaf restates, with probability 0.3, a value that an earlier stage already '
            'wrote to the same path (same type, ==) under its own tags, otherwise it writes a fresh integer -- so the later '
            'writer of an equal value has to take over priority and metadata and has to decide against the stages after it '
            '(weak v / normal v / weak w, normal v / force v / normal w, also with the tag on an enclosing mapping); '
            'non-trivial = some leaf path is written by >= 2 stages with different priorities; distinct by SHA-1')
    ASSUMPTIONS = ['arg-max oracle covers leaf paths of shape-compatible mapping documents; lists and type changes are the domain of C04']

    def corpus(self):
        D = lambda *raws: {'docs': [{'raw': r} for r in raws], 'style': ['flow', 0, 0]}
        return [
            D(M({'a': M({'b': M({'c': S(1)})}, kw={'prio': 1})}), M({'a': M({'b': M({'c': S(2)})})})),             # D03 witness
            D(M({'a': M({'b': S(2)})}), M({'a': M({'b': S(1)})}, kw={'prio': -1})),
            D(M({'a': S(1, kw={'prio': -1, 'md': [['x', 1]]})}), M({'a': S(2, kw={'prio': 1, 'md': [['y', 2]]})}), M({'a': S(3, kw={'md': [['x', 3]]})}),
              M({'a': S(4, kw={'prio': -1})})),
            # a later stage restates the value already there (seeded change S3-C03: "same value, nothing to replace")
            D(M({'c': S(2)}), M({'c': S(2, kw={'prio': 1})})),                                                     # survivor is the !force writer
            D(M({'a': S(1, kw={'prio': -1}), 'b': S(5, kw={'prio': -1})}), M({'a': S(1), 'b': S(7)}),
              M({'a': S(2, kw={'prio': -1}), 'b': S(9, kw={'prio': -1})})),                                        # weak 1 / 1 / weak 2 -> 1
            D(M({'a': S(1)}), M({'a': S(1, kw={'prio': 1})}), M({'a': S(2)})),                                     # 1 / force 1 / 2 -> 1
            D(M({'x': S(3, kw={'md': [['who', 'first']]})}), M({'x': S(3, kw={'md': [['who', 'second'], ['extra', 1]]})})),
            D(M({'a': M({'b': S(1)})}, kw={'prio': -1}), M({'a': M({'b': S(1)})}), M({'a': M({'b': S(2)})}, kw={'prio': -1})),
        ]

    def gen_fn_case(self, rng):
        """(fn) one entry written by 2-5 stages, first as a function node, then as function nodes or as plain strings naming a target
        (the same or another one), each with its own priority tag / metadata: the rule is the same - the target and the priority
        of the highest-priority writer survive, the latest among equals (seeded change S5-C03: a same-name string never handed its
        priority over)"""
        wrap = rng.choice([[], [], ['n']])
        writers = []
        for i in range(rng.randint(2, 5)):
            kw = gen_tagkw(rng, 0.6)
            tgt = rng.choice(['rec.f', 'rec.g'])
            if i == 0 or rng.random() < 0.5:
                node = M([(a, S(rng.randrange(9))) for a in rng.sample(['a', 'b', 'p'], rng.choice([0, 1, 2]))], tag={'k': rng.choice(['call', 'bind']), 'f': tgt}, kw=kw)
            else:
                node = S(tgt, kw=kw)
            writers.append([tgt, kw.get('prio') or 0, {k: sc_py(v) for k, v in kw.get('md', [])}])
            writers[-1].append(node)
        docs = [{'raw': G.nest(wrap + ['r'], w[3])} for w in writers]
        return {'docs': docs, 'style': ['flow', 0, 0], 'kind': 'fn', 'fnpath': wrap + ['r'], 'writers': [w[:3] for w in writers]}

    def oracle_fn(self, case, io):
        if len(case['docs']) != len(case['writers']):
            return None
        tree = io['tree']
        if 'ok' not in tree or tree['ok'] is None:
            return f'function nodes and target names must merge, got {json.dumps(tree)[:160]}'
        n = tree['ok']
        for k in case['fnpath']:
            n = next((c for kk, c in n.get('c', []) if sc_py(kk) == k), None) if n else None
        if n is None:
            return f'nothing at {case["fnpath"]} after merging'
        tgt, pr, md = case['writers'][0]
        md = dict(md)
        for t, p, m in case['writers'][1:]:
            if pr > p:
                md = {**m, **md}
            else:
                tgt, pr, md = t, p, {**md, **m}
        if n.get('k') not in ('call', 'bind') or n.get('v') != tgt:
            return f'entry {case["fnpath"]}: expected the target {tgt!r} of the highest-priority writer (latest among equals), got {n.get("k")} {n.get("v")!r}'
        if n['f']['ePrio'] != pr:
            return f'entry {case["fnpath"]}: surviving priority {n["f"]["ePrio"]} != {pr}'
        gmd = {k: sc_py(x) for k, x in n['f']['md']}
        if gmd != md:
            return f'entry {case["fnpath"]}: metadata {gmd} != {md} (union of keys, winner overrides)'
        return None

    def shrink(self, case):
        if case.get('kind') == 'api':
            sts = case['stages']
            for i in range(1, len(sts)):
                if len(sts) > 2:
                    yield dict(case, stages=sts[:i] + sts[i + 1:])
            return
        if case.get('kind') == 'fn':
            ds, ws = case['docs'], case['writers']
            for i in range(1, len(ds)):
                yield dict(case, docs=ds[:i] + ds[i + 1:], writers=ws[:i] + ws[i + 1:])
            return
        yield from super().shrink(case)

    def gen_cases(self, rng, n, tier):
        out = []
        r2 = random.Random(rng.random())
        for _ in range(n):
            sk = {k: skeleton(rng, 1) for k in rng.sample(KEYS, rng.randint(1, 3))}
            ctr, written = [0], {}
            docs = [{'raw': gen_stage(rng, sk, ctr, 0.3, written=written)} for _ in range(rng.randint(2, 6))]
            st = self.STYLES[rng.randrange(len(self.STYLES))]
            out.append({'docs': docs, 'style': list(st)})
        return out + [self.gen_fn_case(r2) for _ in range(max(4, n // 6))] + [self.gen_api_case(r2) for _ in range(max(3, n // 20))]

    # ---- the node API as the way in: stages built with ConfigDict / ConfigNode, ONE metadata dict object handed to several nodes of a
    # stage, merged with ayns.merge - the result must be the one obtained with a dict per node, and the caller's dict stays as it was
    # (seeded change S9-C03: merged metadata written into the existing dict). Oracle only.
    def gen_api_case(self, rng):
        keys = rng.sample(['p', 'q', 'r', 's'], rng.choice([2, 3]))
        stages = []
        for i in range(rng.choice([2, 2, 3])):
            ks = [k for k in keys if i == 0 or rng.random() < 0.7] or keys[:1]
            stages.append({'keys': ks, 'vals': [10 * i + j for j in range(len(ks))], 'prio': rng.choice([0, 0, 1, -1]),
                           'md': {'src': 'st%d' % i, **({'n%d' % i: i} if rng.random() < 0.6 else {})}, 'cont': rng.random() < 0.4})
        return {'kind': 'api', 'stages': stages, 'docs': [], 'style': ['flow', 0, 0]}

    def run_api(self, case, shared):
        from awesomeyaml.nodes.node import ConfigNode
        from awesomeyaml.nodes.dict import ConfigDict
        prio = {0: None, 1: ConfigNode.FORCE, -1: ConfigNode.WEAK}
        handed = []
        def stage(st):
            one = dict(st['md'])
            handed.append((one, dict(st['md'])))
            mk = (lambda: one) if shared else (lambda: dict(st['md']))
            kw = lambda: {k: v for k, v in (('priority', prio[st['prio']]), ('metadata', mk())) if v is not None}
            if st['cont']:
                return ConfigDict({k: ConfigDict({'v': v}, **kw()) for k, v in zip(st['keys'], st['vals'])})
            return ConfigDict({k: ConfigNode(v, **kw()) for k, v in zip(st['keys'], st['vals'])})
        try:
            r = stage(case['stages'][0])
            for st in case['stages'][1:]:
                r = r.ayns.merge(stage(st))
            out = {'ok': [[str(p), type(n).__name__, sorted((str(a), repr(b)) for a, b in dict(n.ayns.metadata).items()),
                           repr(n.ayns.native_value) if not hasattr(n, 'keys') else None] for p, n in r.ayns.nodes_with_paths()]}
        except Exception as e:  # noqa
            out = {'err': type(e).__name__}
        out['handed_changed'] = [[a, b] for a, b in handed if a != b]
        return out

    def impl(self, case):
        if case.get('kind') == 'api':
            return {'own': self.run_api(case, False), 'shared': self.run_api(case, True), 'tree': None, 'cfg': {}}
        return super().impl(case)

    def model_requests(self, case):
        return [] if case.get('kind') == 'api' else super().model_requests(case)

    def model_obs(self, case, answers):
        return {'api': True} if case.get('kind') == 'api' else super().model_obs(case, answers)

    def compare(self, case, io, mo):
        return 'SKIP' if case.get('kind') == 'api' else super().compare(case, io, mo)

    def expected(self, case):
        best = {}
        for d in case['docs']:
            for p, pr, v, md in leaves(d['raw']):
                if p not in best:
                    best[p] = (pr, v, dict(md))
                else:
                    bpr, bv, bmd = best[p]
                    if bpr > pr:      # the accumulated value has strictly higher priority: it stays, metadata of the loser is added below it
                        best[p] = (bpr, bv, {**md, **bmd})
                    else:
                        best[p] = (pr, v, {**bmd, **md})
        return best

    def oracle(self, case, io, ans):
        if case.get('kind') == 'api':
            a, b = io['own'], io['shared']
            for name, r in (('a dict per node', a), ('one dict for the nodes of a stage', b)):
                if r.get('handed_changed'):
                    return f'node API, {name}: a dict passed as metadata= was modified by the merge: {r["handed_changed"][0]}'
            if {k: v for k, v in a.items() if k != 'handed_changed'} != {k: v for k, v in b.items() if k != 'handed_changed'}:
                return ('node API: stages whose nodes were given ONE metadata dict object merge differently from stages with a dict per node: '
                        + str(first_diff(a.get('ok', a), b.get('ok', b)))[:200])
            return None
        if case.get('kind') == 'fn':
            return self.oracle_fn(case, io)
        tree = io['tree']
        if 'ok' not in tree or tree['ok'] is None:
            return f'shape-compatible mapping documents must merge, got {json.dumps(tree)[:160]}'
        got = dict(tree_leaves(tree['ok']))
        exp = self.expected(case)
        if set(got) != set(exp):
            return f'leaf paths differ: missing {sorted(map(str, set(exp) - set(got)))[:4]}, unexpected {sorted(map(str, set(got) - set(exp)))[:4]}'
        for p, (pr, v, md) in exp.items():
            n = got[p]
            if n.get('v') != sc_json(v):
                return f'leaf {list(p)}: expected the value {v!r} written with priority {pr} (highest priority, latest among equals), got {n.get("v")!r}'
            if n['f']['ePrio'] != pr:
                return f'leaf {list(p)}: surviving priority {n["f"]["ePrio"]} != {pr}'
            gmd = {k: sc_py(x) for k, x in n['f']['md']}
            if gmd != md:
                return f'leaf {list(p)}: metadata {gmd} != {md} (union of keys, winner overrides)'
        # containers: the newer mapping wins unless the accumulated one has strictly higher priority; metadata alike
        cbest = {}
        for d in case['docs']:
            for p, pr, md in containers(d['raw']):
                if p not in cbest:
                    cbest[p] = (pr, dict(md))
                else:
                    bpr, bmd = cbest[p]
                    cbest[p] = (bpr, {**md, **bmd}) if bpr > pr else (pr, {**bmd, **md})
        gotc = dict(tree_containers(tree['ok']))
        for p, (pr, md) in cbest.items():
            n = gotc.get(p)
            if n is None:
                return f'mapping {list(p)} is missing from the merged tree'
            if n['f']['ePrio'] != pr:
                return f'mapping {list(p)}: priority after merging is {n["f"]["ePrio"]}, expected {pr} (the newer mapping wins unless the older one has strictly higher priority)'
            gmd = {k: sc_py(x) for k, x in n['f']['md']}
            if gmd != md:
                return f'mapping {list(p)}: metadata {gmd} != {md}'
        cfg = io['cfg']
        if 'ok' not in cfg:
            return f'merged fine but evaluation failed: {json.dumps({k: v for k, v in cfg.items() if k != "log"})[:160]}'
        return None

    def features(self, case, io):
        f = super().features(case, io)
        hist = {}
        for d in case['docs']:
            for p, pr, v, md in leaves(d['raw']):
                hist.setdefault(p, []).append((pr, v, md))
        for h in hist.values():
            for j in range(1, len(h)):
                for i in range(j):
                    if h[i][1] == h[j][1] and type(h[i][1]) is type(h[j][1]):
                        f.append('leaf:restated')
                        if h[j][0] != h[i][0]: f.append('leaf:restated-other-priority')
                        if h[j][2]: f.append('leaf:restated-with-metadata')
                        if any(h[i][0] <= h[k][0] < h[j][0] and h[k][1] != h[j][1] for k in range(j + 1, len(h))):
                            f.append('leaf:restated-higher-then-lower-writer')
        return sorted(set(f))

    def nontrivial(self, case, io):
        seen = {}
        for d in case['docs']:
            for p, pr, v, md in leaves(d['raw']):
                seen.setdefault(p, set()).add(pr)
        return any(len(s) > 1 for s in seen.values())

PROP = C03()
