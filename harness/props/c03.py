"""C03 — priorities: the highest-priority writer wins, the latest among equals; metadata combined alike."""
from props.mergefam import *

KEYS = ['a', 'b', 'c']

def skeleton(r, d=0):
    if d >= 3 or r.random() < 0.35:
        return None
    return {k: skeleton(r, d + 1) for k in r.sample(KEYS, r.randint(1, 3))}

def gen_tagkw(r, p):
    if r.random() >= p:
        return {}
    kw = r.choice([{'prio': 1}, {'prio': -1}, {'prio': 1}, {'prio': -1}, {'md': [['m' + str(r.randrange(3)), r.randrange(9)]]},
                   {'prio': 1, 'md': [['m' + str(r.randrange(3)), r.randrange(9)]]}, {'prio': -1, 'md': [['n', 'w' + str(r.randrange(9))]]}])
    return dict(kw)

def gen_stage(r, sk, ctr, p_tag, top=True):
    kw = gen_tagkw(r, p_tag * (0.4 if top else 1))
    if sk is None:
        ctr[0] += 1
        return S(ctr[0], kw=kw)
    ks = [k for k in sk if r.random() < 0.7] or ([r.choice(list(sk))] if top else [])
    return M([(k, gen_stage(r, sk[k], ctr, p_tag, False)) for k in ks], kw=kw)

def leaves(n, inherited=None, path=()):
    """(path, effective priority, value, own metadata) of every leaf; the outermost priority tag wins"""
    kw = n.get('kw') or {}
    eff = inherited if inherited is not None else kw.get('prio')
    if 'm' in n:
        for k, c in n['m']:
            yield from leaves(c, eff, path + (sc_py(k),))
    else:
        yield path, (eff or 0), sc_py(n['s']['l']), {k: sc_py(v) for k, v in kw.get('md', [])}

def containers(n, inherited=None, path=()):
    """(path, effective priority, own metadata) of every mapping node"""
    kw = n.get('kw') or {}
    eff = inherited if inherited is not None else kw.get('prio')
    if 'm' in n:
        yield path, (eff or 0), {k: sc_py(v) for k, v in kw.get('md', [])}
        for k, c in n['m']:
            yield from containers(c, eff, path + (sc_py(k),))

def tree_containers(t, path=()):
    if 'c' in t:
        yield path, t
        for k, c in t['c']:
            yield from tree_containers(c, path + (sc_py(k),))

def tree_leaves(t, path=()):
    if 'c' in t:
        for k, c in t['c']:
            yield from tree_leaves(c, path + (sc_py(k),))
    else:
        yield path, t

class C03(MergeFamProp):
    ID = 'C03'
    RULE = ('2-6 shape-compatible mapping documents drawn from a random skeleton (depth <= 3), every node optionally tagged '
            '!force / !weak / metadata (also combined, also on the document root), so that strong, normal and weak writers to one '
            'leaf path interleave in every order; non-trivial = some leaf path is written by >= 2 stages with different '
            'priorities; distinct by SHA-1')
    ASSUMPTIONS = ['arg-max oracle covers leaf paths of shape-compatible mapping documents; lists and type changes are the domain of C04']

    def corpus(self):
        D = lambda *raws: {'docs': [{'raw': r} for r in raws], 'style': ['flow', 0, 0]}
        return [
            D(M({'a': M({'b': M({'c': S(1)})}, kw={'prio': 1})}), M({'a': M({'b': M({'c': S(2)})})})),             # D03 witness
            D(M({'a': M({'b': S(2)})}), M({'a': M({'b': S(1)})}, kw={'prio': -1})),
            D(M({'a': S(1, kw={'prio': -1, 'md': [['x', 1]]})}), M({'a': S(2, kw={'prio': 1, 'md': [['y', 2]]})}), M({'a': S(3, kw={'md': [['x', 3]]})}),
              M({'a': S(4, kw={'prio': -1})})),
        ]

    def gen_cases(self, rng, n, tier):
        out = []
        for _ in range(n):
            sk = {k: skeleton(rng, 1) for k in rng.sample(KEYS, rng.randint(1, 3))}
            ctr = [0]
            docs = [{'raw': gen_stage(rng, sk, ctr, 0.3)} for _ in range(rng.randint(2, 6))]
            st = self.STYLES[rng.randrange(len(self.STYLES))]
            out.append({'docs': docs, 'style': list(st)})
        return out

    def expected(self, case):
        best = {}
        for d in case['docs']:
            for p, pr, v, md in leaves(d['raw']):
                if p not in best:
                    best[p] = (pr, v, dict(md))
                else:
                    bpr, bv, bmd = best[p]
                    if bpr > pr:      # the accumulated value has strictly higher priority: it stays, metadata of the loser is added below it
                        best[p] = (bpr, bv, {**md, **bmd})
                    else:
                        best[p] = (pr, v, {**bmd, **md})
        return best

    def oracle(self, case, io, ans):
        tree = io['tree']
        if 'ok' not in tree or tree['ok'] is None:
            return f'shape-compatible mapping documents must merge, got {json.dumps(tree)[:160]}'
        got = dict(tree_leaves(tree['ok']))
        exp = self.expected(case)
        if set(got) != set(exp):
            return f'leaf paths differ: missing {sorted(map(str, set(exp) - set(got)))[:4]}, unexpected {sorted(map(str, set(got) - set(exp)))[:4]}'
        for p, (pr, v, md) in exp.items():
            n = got[p]
            if n.get('v') != sc_json(v):
                return f'leaf {list(p)}: expected the value {v!r} written with priority {pr} (highest priority, latest among equals), got {n.get("v")!r}'
            if n['f']['ePrio'] != pr:
                return f'leaf {list(p)}: surviving priority {n["f"]["ePrio"]} != {pr}'
            gmd = {k: sc_py(x) for k, x in n['f']['md']}
            if gmd != md:
                return f'leaf {list(p)}: metadata {gmd} != {md} (union of keys, winner overrides)'
        # containers: the newer mapping wins unless the accumulated one has strictly higher priority; metadata alike
        cbest = {}
        for d in case['docs']:
            for p, pr, md in containers(d['raw']):
                if p not in cbest:
                    cbest[p] = (pr, dict(md))
                else:
                    bpr, bmd = cbest[p]
                    cbest[p] = (bpr, {**md, **bmd}) if bpr > pr else (pr, {**bmd, **md})
        gotc = dict(tree_containers(tree['ok']))
        for p, (pr, md) in cbest.items():
            n = gotc.get(p)
            if n is None:
                return f'mapping {list(p)} is missing from the merged tree'
            if n['f']['ePrio'] != pr:
                return f'mapping {list(p)}: priority after merging is {n["f"]["ePrio"]}, expected {pr} (the newer mapping wins unless the older one has strictly higher priority)'
            gmd = {k: sc_py(x) for k, x in n['f']['md']}
            if gmd != md:
                return f'mapping {list(p)}: metadata {gmd} != {md}'
        cfg = io['cfg']
        if 'ok' not in cfg:
            return f'merged fine but evaluation failed: {json.dumps({k: v for k, v in cfg.items() if k != "log"})[:160]}'
        return None

    def nontrivial(self, case, io):
        seen = {}
        for d in case['docs']:
            for p, pr, v, md in leaves(d['raw']):
                seen.setdefault(p, set()).add(pr)
        return any(len(s) > 1 for s in seen.values())

PROP = C03()
