"""Families `errwrap` and `errbuild` of C12: the error wrapping of awesomeyaml/errors.py against AY.Model.ErrWrap (driver op
`errwrap`).

`errwrap` — a case: {'kind': 'errwrap', 'flags': [rethrow, include_original_exception, shorten_traceback], 'calls': [prog...]}
(consecutive top-level calls in ONE fresh thread; what a call raises is caught by the harness OUTSIDE any handler before the
next call) or the same with 'mode': 'threads' and two calls: thread A is inside an api entry while thread B runs its call.
  prog = 'ret' | {'raise': exc} | {'point': class name, 'site': {'node', 'path', 'other'}, 'via': 'ctx'|'deco', 'body': prog}
       | {'api': prog} | {'seq': [prog, prog]} | {'attempt': [prog, prog]}
  exc  = {'cls': [kind, name], 'arg': constructor text (foreign), 'text': str(e), 'pl': {...} (awesomeyaml), 'cause', 'context',
          'suppress'}
Executed on the REAL objects: `errors.rethrow_point` context managers ('ctx'), the `rethrow_as_*_error` decorators of
nodes/node.py ('deco'), `errors.api_entry`-wrapped functions, real exception objects (awesomeyaml classes with real
ConfigNode / PyYAML nodes as payload; ValueError, KeyError, ImportError, ZeroDivisionError, a custom class, KeyboardInterrupt,
SystemExit), raised plainly, `from` another exception, `from None`, and while another exception is being handled
(`__context__`).  The three module switches are set for the case and restored.  Observed per call: the exception that
reaches the caller as a TREE — class, str(), payload (error_msg, node identity, path, extra_node, note), `__cause__`,
`__context__`, `__suppress_context__`, recursively — and `_api_entered.value` of the thread; compared with the model's.
Oracle on the implementation alone (default switches): what leaves a nesting whose outermost rethrow point has class T is a T;
a foreign Exception raised below at least one EvalError point reaches
the caller as EvalError whose `__cause__` chain ends in that very object; an UnsafeError raised below EvalError points and
api entries reaches the caller as UnsafeError with its payload; the guard is False after every call.

`errbuild` — end to end through `Config.build`: an `!eval` that raises at the end of a generated path of nested mappings /
lists, an `!unsafe` `!call`, a `!notnew` violation; the model's prediction is `buildPipeline` with the `evalNest` / merge nest
along the path; compared: class, `__cause__` chain (classes and texts), path, error_msg, guard."""
import json, threading, random
import yaml as pyyaml
import common
from common import ayerrors as errors, ConfigNode, Config, first_diff
from awesomeyaml.nodes import node as aynode_mod

AY = {'Error': errors.Error, 'ParsingError': errors.ParsingError, 'PreprocessError': errors.PreprocessError,
      'PremergeError': errors.PremergeError, 'MergeError': errors.MergeError, 'EvalError': errors.EvalError,
      'UnsafeError': errors.UnsafeError}
DECO = {'PreprocessError': aynode_mod.rethrow_as_preprocess_error, 'PremergeError': aynode_mod.rethrow_as_premerge_error,
        'MergeError': aynode_mod.rethrow_as_merge_error, 'EvalError': aynode_mod.rethrow_as_eval_error}

class CustomBoom(Exception):
    pass

FOREIGN = {'ValueError': ValueError, 'KeyError': KeyError, 'ImportError': ImportError, 'ZeroDivisionError': ZeroDivisionError,
           'CustomBoom': CustomBoom, 'RuntimeError': RuntimeError, 'AttributeError': AttributeError}
BASE = {'KeyboardInterrupt': KeyboardInterrupt, 'SystemExit': SystemExit}


class Nodes:
    """node numbers <-> real node objects (ConfigNode; a PyYAML node where the class is ParsingError)"""
    def __init__(self):
        self.cfg, self.yml = {}, {}
    def get(self, n, parsing=False):
        if n is None:
            return None
        pool = self.yml if parsing else self.cfg
        if n not in pool:
            pool[n] = pyyaml.ScalarNode('tag:yaml.org,2002:str', f'n{n}') if parsing else ConfigNode(n)
        return pool[n]
    def num(self, o):
        if o is None:
            return None
        for pool in (self.cfg, self.yml):
            for n, x in pool.items():
                if x is o:
                    return n
        return -1


def build_exc(spec, nodes):
    kind, name = spec['cls']
    if kind == 'ay':
        pl = spec.get('pl') or {}
        parsing = name == 'ParsingError'
        return AY[name](pl.get('msg'), nodes.get(pl.get('node'), parsing), pl.get('path'), nodes.get(pl.get('extra'), parsing), pl.get('note'))
    cls = FOREIGN[name] if kind == 'foreign' else BASE[name]
    return cls(spec['arg']) if spec.get('arg') is not None else cls()

def build_tree(spec, nodes):
    """an exception object that is never raised (used as `from` argument)"""
    x = build_exc(spec, nodes)
    if spec.get('cause') is not None:
        x.__cause__ = build_tree(spec['cause'], nodes)
    return x

def raise_leaf(spec, nodes):
    exc = build_exc(spec, nodes)
    def do_raise():
        if spec.get('cause') is not None:
            raise exc from build_tree(spec['cause'], nodes)
        if spec.get('suppress'):
            raise exc from None
        raise exc
    if spec.get('context') is None:
        do_raise()
    try:
        raise_leaf(spec['context'], nodes)
    except BaseException:
        do_raise()

def run_prog(p, nodes):
    if p == 'ret':
        return None
    if 'raise' in p:
        raise_leaf(p['raise'], nodes)
    if 'point' in p:
        s = p.get('site') or {}
        parsing = p['point'] == 'ParsingError'
        node, other = nodes.get(s.get('node'), parsing), nodes.get(s.get('other'), parsing)
        if p.get('via') == 'deco':
            return DECO[p['point']](lambda self, path, other=None: run_prog(p['body'], nodes))(node, s.get('path'), other)
        with errors.rethrow_point(AY[p['point']], node, s.get('path'), other):
            return run_prog(p['body'], nodes)
    if 'api' in p:
        return errors.api_entry(lambda: run_prog(p['api'], nodes))()
    if 'seq' in p:
        run_prog(p['seq'][0], nodes)
        return run_prog(p['seq'][1], nodes)
    if 'attempt' in p:
        try:
            run_prog(p['attempt'][0], nodes)
        except BaseException:
            pass
        return run_prog(p['attempt'][1], nodes)
    raise RuntimeError(f'errwrap: unknown program {p!r}')

# ------------------------------------------------------------------------------------------------
# observation
# ------------------------------------------------------------------------------------------------

def cls_of(x):
    t = type(x)
    if t.__module__ == 'awesomeyaml.errors' and t.__name__ in AY:
        return ['ay', t.__name__]
    if not isinstance(x, Exception):
        return ['base', t.__name__]
    return ['foreign', t.__name__]

def canon_msg(x):
    """error_msg; where it is the str() of an awesomeyaml error that was wrapped, the token the model uses for that text"""
    m = x.error_msg
    c = x.__context__
    seen = 0
    while m is not None and c is not None and seen < 20:
        if isinstance(c, errors.Error):
            if m == str(c):
                return f'<{type(c).__name__}>'
            if c.error_msg == m:
                c = c.__context__
                seen += 1
                continue
        break
    return m

def obs_exc(x, nodes, depth=0):
    if x is None:
        return None
    if depth > 12:
        return {'too-deep': True}
    c = cls_of(x)
    out = {'cls': c, 'str': f'<{c[1]}>' if c[0] == 'ay' else str(x), 'pl': None,
           'cause': obs_exc(x.__cause__, nodes, depth + 1), 'context': obs_exc(x.__context__, nodes, depth + 1),
           'suppress': bool(x.__suppress_context__)}
    if c[0] == 'ay':
        out['pl'] = {'msg': canon_msg(x), 'node': nodes.num(x.node), 'path': None if x.path is None else str(x.path),
                     'extra': nodes.num(x.extra_node), 'note': x.note}
    return out

def guard():
    return bool(getattr(errors._api_entered, 'value', False))

class FlagScope:
    def __init__(self, flags):
        self.flags = flags
    def __enter__(self):
        self.old = (errors.rethrow, errors.include_original_exception, errors.shorten_traceback)
        errors.rethrow, errors.include_original_exception, errors.shorten_traceback = [bool(f) for f in self.flags]
    def __exit__(self, *a):
        errors.rethrow, errors.include_original_exception, errors.shorten_traceback = self.old

def in_thread(fn):
    """run fn in a fresh thread (no exception being handled, a fresh thread-local guard); returns its result"""
    box = {}
    def target():
        try:
            box['r'] = fn()
        except BaseException as e:  # noqa
            box['e'] = e
    t = threading.Thread(target=target)
    t.start(); t.join(60)
    if t.is_alive():
        raise RuntimeError('errwrap: thread did not finish')
    if 'e' in box:
        raise box['e']
    return box['r']

def one_call(p, nodes, keep):
    x = None
    try:
        run_prog(p, nodes)
    except BaseException as e:  # noqa
        x = e
    keep.append(x)
    return {'res': 'ok' if x is None else obs_exc(x, nodes), 'guard': guard(), 'checks': oracle_call(p, x, nodes)}

def run_errwrap(case):
    nodes, keep = Nodes(), []
    with FlagScope(case['flags']):
        if case.get('mode') == 'threads':
            pa, pb = case['calls']
            entered, b_done, out = threading.Event(), threading.Event(), {}
            def a_body():
                entered.set()
                b_done.wait(30)
                return run_prog(pa, nodes)
            def thread_a():
                x = None
                try:
                    errors.api_entry(a_body)()
                except BaseException as e:  # noqa
                    x = e
                keep.append(x)
                out['a'] = {'res': 'ok' if x is None else obs_exc(x, nodes), 'guard': guard(), 'checks': []}
            def thread_b():
                entered.wait(30)
                out['b'] = one_call(pb, nodes, keep)
                out['b']['guard_seen_in_b_before'] = None
                b_done.set()
            ta, tb = threading.Thread(target=thread_a), threading.Thread(target=thread_b)
            ta.start(); tb.start(); tb.join(60); b_done.set(); ta.join(60)
            return {'calls': [out.get('a'), out.get('b')]}
        return {'calls': in_thread(lambda: [one_call(p, nodes, keep) for p in case['calls']])}

def requests_errwrap(case):
    strip = lambda p: p      # the driver ignores 'via' and 'arg'
    if case.get('mode') == 'threads':
        return [{'op': 'errwrap', 'flags': case['flags'], 'calls': [{'api': strip(case['calls'][0])}]},
                {'op': 'errwrap', 'flags': case['flags'], 'calls': [strip(case['calls'][1])]}]
    return [{'op': 'errwrap', 'flags': case['flags'], 'calls': [strip(p) for p in case['calls']]}]

def compare_errwrap(case, io, answers):
    bad = [a for a in answers if 'bad' in a]
    if bad:
        return f'driver op errwrap failed: {bad[0]["bad"]}'
    model = [a['calls'][0] for a in answers] if case.get('mode') == 'threads' else answers[0]['calls']
    for i, (r, m) in enumerate(zip(io['calls'], model)):
        if r is None:
            return f'call {i}: the thread produced no result'
        d = first_diff(r['res'], m['res'], f'call[{i}]')
        if d:
            return f'exception reaching the caller differs (implementation vs model): {d}'
        if r['guard'] != m['guard']:
            return f'call {i}: _api_entered.value after the call is {r["guard"]}, model {m["guard"]}'
    return None

# ------------------------------------------------------------------------------------------------
# oracle on the implementation alone (default switches only)
# ------------------------------------------------------------------------------------------------

def shape(p):
    """(point classes outermost first, number of api entries, leaf spec) for a pure nesting around a raise; None otherwise"""
    pts, apis = [], 0
    while isinstance(p, dict) and ('point' in p or 'api' in p):
        if 'point' in p:
            pts.append(p['point']); p = p['body']
        else:
            apis += 1; p = p['api']
    if isinstance(p, dict) and 'raise' in p:
        return pts, apis, p['raise']
    return None

def oracle_call(p, x, nodes):
    out = []
    if (errors.rethrow, errors.include_original_exception, errors.shorten_traceback) != (True, True, True):
        return out
    if guard():
        out.append('_api_entered.value is still True after the call returned to the caller')
    sh = shape(p)
    if sh is None:
        return out
    pts, apis, leaf = sh
    if pts and leaf['cls'][0] != 'base' and not isinstance(x, AY[pts[0]]):
        out.append(f'a {leaf["cls"][1]} raised below rethrow points {pts} (outermost first) reached the caller as {type(x).__name__}, '
                   f'which is not a {pts[0]}')
    if pts and all(t == 'EvalError' for t in pts):
        if leaf['cls'][0] == 'foreign':
            if type(x) is not errors.EvalError:
                out.append(f'a {leaf["cls"][1]} raised below {len(pts)} EvalError point(s) reached the caller as {type(x).__name__}')
            else:
                c, n = x, 0
                while c.__cause__ is not None and n < 50:
                    c, n = c.__cause__, n + 1
                want = leaf
                while want.get('cause') is not None:
                    want = want['cause']
                if type(c).__name__ != want['cls'][1] or (leaf.get('cause') is None and str(c) != leaf['text']):
                    out.append(f'the EvalError for a {leaf["cls"][1]} carries the cause chain ending in {type(c).__name__}: {c}')
        if leaf['cls'] == ['ay', 'UnsafeError']:
            pl = leaf.get('pl') or {}
            if type(x) is not errors.UnsafeError:
                out.append(f'an UnsafeError raised below {len(pts)} EvalError point(s) and {apis} api entries reached the caller as {type(x).__name__}')
            elif (None if x.path is None else str(x.path)) != pl.get('path') or x.error_msg != pl.get('msg') or nodes.num(x.node) != pl.get('node'):
                out.append(f'the UnsafeError lost its payload: path {x.path!r}, error_msg {x.error_msg!r}')
    return out

# ------------------------------------------------------------------------------------------------
# generation
# ------------------------------------------------------------------------------------------------

STAGE = ['ParsingError', 'PreprocessError', 'PremergeError', 'MergeError', 'EvalError']
PATHS = [None, '', 'a', 'a.b', 'a.b[0].c', 'x[2]', 'opt.lr']

def gen_foreign(rng, base=False):
    if base:
        name = rng.choice(sorted(BASE))
        arg = rng.choice([None, 'stop'])
        return {'cls': ['base', name], 'arg': arg, 'text': str(BASE[name](arg)) if arg is not None else str(BASE[name]())}
    name = rng.choice(sorted(FOREIGN))
    arg = rng.choice(['boom', 'k', 'division by zero', '', None, "it's {x}"])
    return {'cls': ['foreign', name], 'arg': arg, 'text': str(FOREIGN[name](arg)) if arg is not None else str(FOREIGN[name]())}

def gen_ay(rng, name=None):
    name = name or rng.choice(STAGE + ['UnsafeError', 'UnsafeError', 'EvalError'])
    parsing = name == 'ParsingError'
    pl = {'msg': rng.choice([None, 'bad thing', 'Note: unsafe']), 'node': rng.choice([None, 1, 2, 3]), 'path': rng.choice(PATHS),
          'extra': None if parsing or rng.random() < 0.7 else rng.choice([4, 5]), 'note': rng.choice([None, None, 'a note'])}
    if parsing and pl['node'] is None and rng.random() < 0.5:
        pl['node'] = 1
    return {'cls': ['ay', name], 'text': '', 'pl': pl}

def gen_leaf(rng, depth=0):
    x = rng.random()
    e = gen_ay(rng) if x < 0.4 else gen_foreign(rng, base=x > 0.93)
    e.update({'cause': None, 'context': None, 'suppress': False})
    if depth < 2:
        y = rng.random()
        if y < 0.25:        # raised while another exception is being handled
            e['context'] = gen_leaf(rng, depth + 1)
            z = rng.random()
            if z < 0.25:
                e['suppress'] = True                               # ... from None
            elif z < 0.5:
                e['cause'] = dict(gen_foreign(rng) if rng.random() < 0.6 else gen_ay(rng), cause=None, context=None, suppress=False)
                e['suppress'] = True
        elif y < 0.35:
            e['cause'] = dict(gen_foreign(rng) if rng.random() < 0.6 else gen_ay(rng), cause=None, context=None, suppress=False)
            e['suppress'] = True
        elif y < 0.40:
            e['suppress'] = True
    return e

def gen_site(rng, cls):
    parsing = cls == 'ParsingError'
    return {'node': rng.choice([None, 1, 2, 3, 6, 7]) if not parsing else rng.choice([1, 2, 3]), 'path': rng.choice(PATHS),
            'other': None if parsing or rng.random() < 0.7 else rng.choice([4, 5])}

def gen_point(rng, body, cls=None):
    cls = cls or rng.choice(STAGE + ['EvalError', 'EvalError', 'MergeError', 'UnsafeError'])
    via = 'deco' if cls in DECO and rng.random() < 0.5 else 'ctx'
    return {'point': cls, 'site': gen_site(rng, cls), 'via': via, 'body': body}

def gen_nest(rng, leaf, depth):
    p = leaf
    mode = rng.choice(['mixed', 'mixed', 'eval', 'same', 'pipeline'])
    same = rng.choice(STAGE)
    for i in range(depth):
        if rng.random() < 0.3:
            p = {'api': p}
        else:
            p = gen_point(rng, p, {'eval': 'EvalError', 'same': same}.get(mode))
            if mode == 'pipeline' or (mode == 'eval' and rng.random() < 0.6):
                p = {'api': p}
    return p

def gen_prog(rng, depth=None):
    depth = rng.choice([0, 1, 2, 3, 4, 6, 9]) if depth is None else depth
    x = rng.random()
    leaf = 'ret' if x < 0.08 else {'raise': gen_leaf(rng)}
    p = gen_nest(rng, leaf, depth)
    y = rng.random()
    if y < 0.08:
        p = {'seq': [gen_nest(rng, 'ret', rng.choice([0, 1, 2])), p]}
    elif y < 0.16:
        p = {'attempt': [gen_prog(rng, rng.choice([0, 1, 2])), p]}
        if rng.random() < 0.5:
            p = {'api': p}
    return p

def gen_errwrap(rng):
    flags = [True, True, True] if rng.random() < 0.4 else [rng.random() < 0.6, rng.random() < 0.6, rng.random() < 0.6]
    if rng.random() < 0.08:
        return {'kind': 'errwrap', 'mode': 'threads', 'flags': flags, 'calls': [gen_prog(rng, rng.choice([0, 1, 2])), gen_prog(rng)]}
    return {'kind': 'errwrap', 'flags': flags, 'calls': [gen_prog(rng) for _ in range(rng.choice([1, 1, 2, 3]))]}

# ------------------------------------------------------------------------------------------------
# end to end: Config.build
# ------------------------------------------------------------------------------------------------

EVAL_CODES = {'ZeroDivisionError': '1/0', 'KeyError': "{}['k']", 'ValueError': "int('x')", 'IndexError': '[][3]', 'TypeError': "1 + 'a'"}
CALL_TEXTS = {'TypeError': '!call:len [1]', 'ImportError': '!call:no_such_module_zz.f []', 'ValueError': "!call:int ['x']"}
USER_CODE_MSG = 'The above exception occurred in the user code.'      # nodes/eval.py wraps what the code raises itself, whatever the switches

def path_str(path):
    return common.NodePath.join_path(list(path))

def nested(path, leaf_text):
    """YAML flow text of nested mappings / lists along `path` ending in `leaf_text`"""
    text = leaf_text
    for k in reversed(path):
        text = '{' + f'{k}: {text}' + '}' if isinstance(k, str) else '[' + ', '.join(['0'] * k + [text]) + ']'
    return text

def gen_errbuild(rng):
    depth = rng.choice([1, 2, 3, 3, 4, 6])
    path = [rng.choice(['a', 'b', 'cfg', 'opt'])]
    for _ in range(depth - 1):
        path.append(rng.choice(['a', 'b', 'c', 'lr', 0, 1, 2]))
    sample = rng.choice(['eval', 'eval', 'call', 'call', 'unsafe', 'notnew'])
    flags = [True, True, True] if rng.random() < 0.5 else [rng.random() < 0.6, rng.random() < 0.6, rng.random() < 0.6]
    c = {'kind': 'errbuild', 'sample': sample, 'flags': flags, 'path': path}
    if sample == 'eval':
        c['exc'] = rng.choice(sorted(EVAL_CODES))
    if sample == 'call':
        c['exc'] = rng.choice(sorted(CALL_TEXTS))
    if sample == 'notnew':
        c['path'] = [k if isinstance(k, str) else 'k%d' % k for k in path]
    return c

def errbuild_sources(case):
    p = case['path']
    if case['sample'] == 'eval':
        return [nested(p, f'!eval "{EVAL_CODES[case["exc"]]}"')]
    if case['sample'] == 'call':
        return [nested(p, CALL_TEXTS[case['exc']])]
    if case['sample'] == 'unsafe':
        return [nested(p[:-1], '!unsafe {' + f'{p[-1]}: !call:os.getcwd []' + '}') if isinstance(p[-1], str) else
                nested(p[:-1], '!unsafe [' + ', '.join(['0'] * p[-1] + ['!call:os.getcwd []']) + ']')]
    return [nested(p, '{x: 1}'), nested(p, '!notnew {y: 2}')]      # `!notnew` constrains what is below the tagged node

def run_errbuild(case):
    def body():
        x = None
        try:
            Config.build(*errbuild_sources(case), raw_yaml=True)
        except BaseException as e:  # noqa
            x = e
        if x is None:
            return {'res': 'ok', 'guard': guard()}
        chain, c = [], x
        while c is not None and len(chain) < 40:
            chain.append([type(c).__name__, str(c) if not isinstance(c, errors.Error) else None])
            c = c.__cause__
        out = {'res': {'cls': type(x).__name__, 'chain': chain, 'path': None if getattr(x, 'path', None) is None else str(x.path),
                       'msg': canon_msg(x) if isinstance(x, errors.Error) else None}, 'guard': guard()}
        # what the oracle needs, from the real objects
        texts, todo, seen = {}, [x], 0          # str() of the foreign exceptions reachable through __cause__ / __context__
        while todo and seen < 200:
            c = todo.pop(0); seen += 1
            if c is None:
                continue
            if not isinstance(c, errors.Error):
                texts.setdefault(type(c).__name__, str(c))
            todo += [c.__cause__, c.__context__]
        out['texts'] = texts
        return out
    with FlagScope(case['flags']):
        return in_thread(body)

def errbuild_leaf(case, io):
    """the exception the user code / the library raises at the end of the path, as the model's leaf"""
    p = case['path']
    if case['sample'] == 'eval':
        try:
            eval(EVAL_CODES[case['exc']], {})
            text = ''
        except Exception as e:  # noqa
            text = str(e)
        user = {'cls': ['foreign', case['exc']], 'text': text, 'cause': None, 'context': None, 'suppress': False}
        return {'cls': ['ay', 'EvalError'], 'text': '', 'pl': {'msg': USER_CODE_MSG, 'node': None, 'path': path_str(p), 'extra': None, 'note': None},
                'cause': user, 'context': user, 'suppress': True}
    if case['sample'] == 'unsafe':
        return {'cls': ['ay', 'UnsafeError'], 'text': '', 'pl': {'msg': None, 'node': None, 'path': path_str(p), 'extra': None, 'note': None},
                'cause': None, 'context': None, 'suppress': False}
    want = case['exc'] if case['sample'] == 'call' else 'ValueError'
    text = (io.get('texts') or {}).get(want, '?')      # the text of the foreign exception is the runtime's
    return {'cls': ['foreign', want], 'text': text, 'cause': None, 'context': None, 'suppress': False}

def requests_errbuild(case, io):
    p = case['path']
    leaf = {'raise': errbuild_leaf(case, io)}
    prefixes = [p[:i] for i in range(len(p) + 1)]
    if case['sample'] in ('eval', 'unsafe', 'call'):
        prog = leaf
        for q in reversed(prefixes):
            prog = {'api': {'point': 'EvalError', 'site': {'node': None, 'path': path_str(q), 'other': None}, 'body': prog}}
        pipeline = {'api': {'seq': [{'api': {'seq': ['ret', {'api': 'ret'}]}}, {'api': prog}]}}
    else:
        prog = leaf
        for q in reversed(prefixes):
            prog = {'point': 'MergeError', 'site': {'node': None, 'path': path_str(q), 'other': None}, 'body': prog}
        pipeline = {'api': {'seq': [{'api': {'seq': ['ret', {'api': prog}]}}, {'api': 'ret'}]}}
    return [{'op': 'errwrap', 'flags': case['flags'], 'calls': [pipeline]}]

def model_chain(e):
    out = []
    while e is not None:
        out.append([e['cls'][1], e['str'] if e['cls'][0] != 'ay' else None])
        e = e['cause']
    return out

def compare_errbuild(case, io, answers):
    a = answers[0]
    if 'bad' in a:
        return f'driver op errwrap failed: {a["bad"]}'
    m = a['calls'][0]
    if m['res'] == 'ok' or io['res'] == 'ok':
        return None if m['res'] == io['res'] else f'implementation {json.dumps(io["res"])[:160]}, model {json.dumps(m["res"])[:160]}'
    want = {'cls': m['res']['cls'][1], 'chain': model_chain(m['res']), 'path': (m['res']['pl'] or {}).get('path'),
            'msg': (m['res']['pl'] or {}).get('msg')}
    d = first_diff(io['res'], want, 'error')
    if d:
        return f'Config.build: the error reaching the caller differs (implementation vs model of the pipeline nesting): {d}'
    if io['guard'] != m['guard']:
        return f'_api_entered.value after Config.build is {io["guard"]}, model {m["guard"]}'
    return None

def oracle_errbuild(case, io):
    if case['flags'] != [True, True, True]:
        return None
    if io['guard']:
        return '_api_entered.value is still True after Config.build returned to the caller'
    r = io['res']
    if r == 'ok':
        return f'Config.build succeeded on a {case["sample"]} sample'
    names = [n for n, _ in r['chain']]
    if case['sample'] in ('eval', 'call'):
        if r['cls'] != 'EvalError' or names[-1] != case['exc'] or r['path'] != path_str(case['path']):
            return f'!{case["sample"]} raising {case["exc"]} at {path_str(case["path"])!r}: got {r["cls"]} with cause chain {names} at path {r["path"]!r}'
    elif case['sample'] == 'unsafe':
        if r['cls'] != 'UnsafeError' or r['path'] != path_str(case['path']):
            return f'!unsafe !call at {path_str(case["path"])!r}: got {r["cls"]} (chain {names}) at path {r["path"]!r}'
    else:
        missing = path_str(case['path'] + ['y'])
        if r['cls'] != 'MergeError' or repr(missing) not in (r['msg'] or ''):
            return f'!notnew violation at {missing!r}: got {r["cls"]} (chain {names}), message {r["msg"]!r}'
    return None

# ------------------------------------------------------------------------------------------------
# `errctx` (oracle only, strict): failing `Config.build` calls made while the CALLER is handling an exception of its own.
# A case: {'kind': 'errctx', 'sample': 'unsafe' | 'eval' | 'merge' | 'required', 'caller': None (outside any handler) | 'KeyError'
# | 'ValueError' | 'CustomBoom' | 'EvalError' (an awesomeyaml error of an earlier failure) | 'same' (the error of the same build:
# a retry inside `except`), 'repeat': 1-4 consecutive calls inside the handler}.  Python sets `__context__` of whatever is raised
# inside the handler to the caller's exception; until repo fix D43 `api_entry` took the reason of the re-created error from
# `e.__context__` (finding D40): an error raised directly (the UnsafeError of an !unsafe node) came out caused by the caller's
# exception, whose traceback was cut by one frame per call, and the second call crashed with AttributeError.
# Oracle on the implementation alone: every call inside the handler raises the class the sample prescribes, with exactly the
# class / `__cause__` chain of the same build made outside any handler; the caller's exception is nowhere on that chain; for
# `unsafe` `__cause__ is None`; the guard is off afterwards.  Model side: Props/C12_ErrWrap.lean
# `C12_directly_raised_error_has_no_foreign_cause`, `C12_api_entry_repeatable`; the leaf contexts of family `errwrap` compare
# the same mechanism with AY.Model.ErrWrap.
# ------------------------------------------------------------------------------------------------

CTX_SOURCES = {'unsafe': ['a: !unsafe {c: !call:os.getcwd []}'], 'eval': ['a: {c: !eval "1/0"}'],
               'merge': ['a: {x: 1}', 'a: !notnew {y: 2}'], 'required': ['a:\n  c: !required\n']}
CTX_EXPECT = {'unsafe': ['UnsafeError'], 'eval': ['EvalError', 'ZeroDivisionError'], 'merge': ['MergeError', 'ValueError'], 'required': ['ValueError']}
CTX_CALLERS = [None, 'KeyError', 'ValueError', 'CustomBoom', 'EvalError', 'same']

def run_errctx(case):
    def attempt():
        try:
            Config.build(*CTX_SOURCES[case['sample']], raw_yaml=True)
            return None
        except BaseException as e:  # noqa
            return e
    def seen(x, caller):
        chain, c = [], x
        while c is not None and len(chain) < 30:
            chain.append(c); c = c.__cause__
        return {'chain': [type(c).__name__ for c in chain], 'caller_on_chain': caller is not None and any(c is caller for c in chain[1:]),
                'path': None if getattr(x, 'path', None) is None else str(x.path)}
    def body():
        out = {'outside': seen(attempt(), None), 'inside': []}
        def calls(caller):
            for _ in range(case.get('repeat', 2)):
                out['inside'].append(seen(attempt(), caller))
        who = case.get('caller')
        if who is None:
            calls(None)
        else:
            try:
                if who == 'same':
                    Config.build(*CTX_SOURCES[case['sample']], raw_yaml=True)
                    raise RuntimeError('errctx: the build did not fail')
                raise (errors.EvalError('an earlier failure', None, 'x.y') if who == 'EvalError' else FOREIGN[who]('what the caller was handling'))
            except Exception as caller:  # noqa
                calls(caller)
        out['guard'] = guard()
        return out
    with FlagScope([True, True, True]):
        return in_thread(body)

def oracle_errctx(case, io):
    src = ' <- '.join(repr(t) for t in CTX_SOURCES[case['sample']])
    where = 'outside any handler' if case.get('caller') is None else f'inside the caller\'s `except` handling {case["caller"]}'
    if io['outside']['chain'] != CTX_EXPECT[case['sample']]:
        return f'Config.build({src}) outside any handler: class / cause chain {io["outside"]["chain"]}, expected {CTX_EXPECT[case["sample"]]}'
    for i, r in enumerate(io['inside']):
        if r['chain'] != io['outside']['chain']:
            return (f'Config.build({src}) raises {io["outside"]["chain"]} (class, then __cause__ chain); call #{i + 1} made {where} '
                    f'raised {r["chain"]}')
        if r['caller_on_chain']:
            return f"Config.build({src}) made {where}: the caller's exception is on the __cause__ chain of the {r['chain'][0]}"
        if r['path'] != io['outside']['path']:
            return f'Config.build({src}) made {where}: path {r["path"]!r}, outside a handler {io["outside"]["path"]!r}'
    return '_api_entered.value is still True' if io['guard'] else None

def gen_errctx(rng):
    return {'kind': 'errctx', 'sample': rng.choice(sorted(CTX_SOURCES)), 'caller': rng.choice(CTX_CALLERS), 'repeat': rng.choice([1, 2, 2, 3, 4])}

# ------------------------------------------------------------------------------------------------
# dispatch used by props/c12.py
# ------------------------------------------------------------------------------------------------

KINDS = ('errwrap', 'errbuild', 'errctx')

def gen_cases(rng, n):
    out = [gen_errwrap(rng) if rng.random() < 0.8 else gen_errbuild(rng) for _ in range(n)]
    r2 = random.Random(rng.random())      # drawn after the others: those stay as they were
    return out + [gen_errctx(r2) for _ in range(max(4, n // 12))]

def impl(case):
    if case['kind'] == 'errctx':
        return run_errctx(case)
    return run_errwrap(case) if case['kind'] == 'errwrap' else run_errbuild(case)

def requests(case, io):
    if case['kind'] == 'errctx':
        return []
    return requests_errwrap(case) if case['kind'] == 'errwrap' else requests_errbuild(case, io)

def compare(case, io, answers):
    if case['kind'] == 'errctx':
        return None
    return compare_errwrap(case, io, answers) if case['kind'] == 'errwrap' else compare_errbuild(case, io, answers)

def oracle(case, io):
    if case['kind'] == 'errctx':
        return oracle_errctx(case, io)
    if case['kind'] == 'errbuild':
        return oracle_errbuild(case, io)
    for c in io['calls']:
        if c and c.get('checks'):
            return c['checks'][0]
    return None

def show_exc(e):
    if e is None:
        return 'None'
    s = e['cls'][1] + '(' + ('' if e.get('arg') is None and e['cls'][0] != 'ay' else repr(e.get('arg')) if e['cls'][0] != 'ay' else
                              ', '.join(f'{k}={v!r}' for k, v in (e.get('pl') or {}).items() if v is not None)) + ')'
    if e.get('cause') is not None:
        s += ' from ' + show_exc(e['cause'])
    elif e.get('suppress'):
        s += ' from None'
    if e.get('context') is not None:
        s += ' [while handling ' + show_exc(e['context']) + ']'
    return s

def show_prog(p):
    if p == 'ret':
        return 'return'
    if 'raise' in p:
        return 'raise ' + show_exc(p['raise'])
    if 'point' in p:
        s = p.get('site') or {}
        head = f'rethrow_as_{p["point"]}' if p.get('via') == 'deco' else f'rethrow_point({p["point"]}'
        return f'{head}, node={s.get("node")}, path={s.get("path")!r}, other={s.get("other")})' + '{ ' + show_prog(p['body']) + ' }'
    if 'api' in p:
        return 'api_entry{ ' + show_prog(p['api']) + ' }'
    k = 'seq' if 'seq' in p else 'attempt'
    return k + '[ ' + show_prog(p[k][0]) + ' ; ' + show_prog(p[k][1]) + ' ]'

def render(case):
    if 'flags' not in case:
        case = dict(case, flags=[True, True, True])
    fl = dict(zip(['rethrow', 'include_original_exception', 'shorten_traceback'], case['flags']))
    if case['kind'] == 'errctx':
        call = 'Config.build(' + ', '.join(repr(t) for t in CTX_SOURCES[case['sample']]) + f', raw_yaml=True)   # {case.get("repeat", 2)} times'
        who = case.get('caller')
        if who is None:
            return [call]
        return ['try: ' + ('<the same Config.build>' if who == 'same' else f'raise {who}(...)'), f'except Exception: {call}']
    if case['kind'] == 'errbuild':
        return [f'errors switches: {fl}'] + ['Config.build source: ' + s for s in errbuild_sources(case)]
    return [f'errors switches: {fl}' + (' (two threads: A inside api_entry while B runs)' if case.get('mode') == 'threads' else '')] + \
           [f'call {i}: ' + show_prog(p) for i, p in enumerate(case['calls'])]

def features(case, io):
    if case['kind'] == 'errctx':
        return ['kind:errctx', 'errctx:' + case['sample'], 'errctx:caller=' + str(case.get('caller')), f'errctx:repeat={case.get("repeat", 2)}']
    f = ['kind:' + case['kind'], 'flags:' + ''.join('RIS'[i] if b else '-' for i, b in enumerate(case['flags']))]
    if case['kind'] == 'errbuild':
        f += ['errbuild:' + case['sample'], f'errbuild:depth={len(case["path"])}']
        if isinstance(io, dict) and isinstance(io.get('res'), dict):
            f.append('errbuild:result=' + io['res']['cls'])
        return f
    if case.get('mode') == 'threads':
        f.append('errwrap:threads')
    for p, c in zip(case['calls'], (io or {}).get('calls', []) if isinstance(io, dict) else []):
        sh = shape(p)
        if sh:
            pts, apis, leaf = sh
            f += [f'errwrap:points={min(len(pts), 6)}', f'errwrap:apis={min(apis, 4)}', 'errwrap:leaf=' + leaf['cls'][0],
                  'errwrap:' + ('homogeneous' if len(set(pts)) <= 1 else 'mixed-classes')]
            if leaf.get('context') is not None: f.append('errwrap:leaf-has-context')
            if leaf.get('cause') is not None: f.append('errwrap:leaf-has-cause')
            f += ['errwrap:via-' + v for v in set(_vias(p))]
        else:
            f.append('errwrap:seq/attempt')
        if c:
            f.append('errwrap:result=' + ('ok' if c['res'] == 'ok' else c['res']['cls'][1] if c['res']['cls'][0] == 'ay' else c['res']['cls'][0]))
    return sorted(set(f))

def _vias(p):
    while isinstance(p, dict) and ('point' in p or 'api' in p):
        if 'point' in p:
            yield p.get('via', 'ctx'); p = p['body']
        else:
            p = p['api']

def shrink(case):
    if case['kind'] == 'errctx':
        if case.get('repeat', 2) > 1:
            yield dict(case, repeat=case.get('repeat', 2) - 1)
        if case.get('caller') not in (None, 'KeyError'):
            yield dict(case, caller='KeyError')
        return
    if case['kind'] == 'errbuild':
        if len(case['path']) > 1:
            yield dict(case, path=case['path'][:-1])
            yield dict(case, path=case['path'][1:] if isinstance(case['path'][1], str) else case['path'][:1])
        return
    calls = case['calls']
    if len(calls) > 1 and case.get('mode') != 'threads':
        for i in range(len(calls)):
            yield dict(case, calls=calls[:i] + calls[i + 1:])
    def subs(p):
        if not isinstance(p, dict):
            return
        if 'point' in p:
            yield p['body']
            for q in subs(p['body']): yield dict(p, body=q)
        elif 'api' in p:
            yield p['api']
            for q in subs(p['api']): yield {'api': q}
        elif 'seq' in p or 'attempt' in p:
            k = 'seq' if 'seq' in p else 'attempt'
            yield p[k][1]
            for q in subs(p[k][1]): yield {k: [p[k][0], q]}
            for q in subs(p[k][0]): yield {k: [q, p[k][1]]}
        elif 'raise' in p:
            e = p['raise']
            if e.get('context') is not None: yield {'raise': dict(e, context=None)}
            if e.get('cause') is not None: yield {'raise': dict(e, cause=None)}
    for i, p in enumerate(calls):
        for q in subs(p):
            yield dict(case, calls=calls[:i] + [q] + calls[i + 1:])

def corpus():
    F = lambda name, arg='boom': {'cls': ['foreign', name], 'arg': arg, 'text': str(FOREIGN[name](arg)), 'cause': None, 'context': None, 'suppress': False}
    U = lambda path='a.b', msg=None, node=2: {'cls': ['ay', 'UnsafeError'], 'text': '', 'pl': {'msg': msg, 'node': node, 'path': path, 'extra': None, 'note': None},
                                               'cause': None, 'context': None, 'suppress': False}
    P = lambda cls, path, body, node=1, via='ctx': {'point': cls, 'site': {'node': node, 'path': path, 'other': None}, 'via': via, 'body': body}
    A = lambda p: {'api': p}
    W = lambda flags, *calls, **kw: dict({'kind': 'errwrap', 'flags': list(flags), 'calls': list(calls)}, **kw)
    ev3 = lambda leaf: A(P('EvalError', '', A(P('EvalError', 'a', A(P('EvalError', 'a.b', {'raise': leaf}, 3, 'deco')), 2, 'deco')), 1, 'deco'))
    out = []
    for fl in [(True, True, True), (True, True, False), (True, False, True), (False, True, True), (True, False, False), (False, False, False)]:
        # the witnesses of Props/C12_ErrWrap.lean under the switch combinations
        out.append(W(fl, ev3(F('ZeroDivisionError', 'division by zero')), ev3(U('a.b', 'Note: unsafe')), ev3(F('ZeroDivisionError', 'division by zero'))))
        out.append(W(fl, A(P('PreprocessError', 'inc', A(P('MergeError', 'x', P('MergeError', 'x.y', {'raise': F('ValueError')}, 5), 4)), 3))))
        out.append(W(fl, A(P('MergeError', 'm', A(P('EvalError', 'e', {'raise': U('e')}, 2)), 1)), A(A({'raise': U('q', 'direct')}))))
    out.append(W((True, True, True), {'attempt': [ev3(F('KeyError', 'k')), ev3(F('KeyError', 'k'))]}))
    out.append(W((True, True, True), 'ret', ev3(F('ValueError')), mode='threads'))
    E = lambda sample, path, **kw: dict({'kind': 'errbuild', 'sample': sample, 'flags': [True, True, True], 'path': path}, **kw)
    out += [E('eval', ['a', 'b', 1, 'c'], exc='ZeroDivisionError'), E('unsafe', ['a', 'b', 0, 'c']), E('notnew', ['a', 'b', 'c']),
            dict(E('eval', ['a', 'b', 'c'], exc='KeyError'), flags=[True, True, False]), dict(E('eval', ['a', 0], exc='ValueError'), flags=[False, True, True]),
            E('call', ['a', 1], exc='TypeError'), E('call', ['a', 'b', 2], exc='ImportError'), dict(E('call', ['a', 1], exc='TypeError'), flags=[False, True, True]),
            dict(E('call', ['a', 'b'], exc='ValueError'), flags=[True, False, False])]
    # D40 (repaired, repo fix D43): inside `except KeyError:` two consecutive builds of an unsafe !call both raise UnsafeError, no cause
    out += [{'kind': 'errctx', 'sample': 'unsafe', 'caller': 'KeyError', 'repeat': 2}, {'kind': 'errctx', 'sample': 'unsafe', 'caller': 'same', 'repeat': 3},
            {'kind': 'errctx', 'sample': 'eval', 'caller': 'KeyError', 'repeat': 3}, {'kind': 'errctx', 'sample': 'merge', 'caller': 'EvalError', 'repeat': 2},
            {'kind': 'errctx', 'sample': 'required', 'caller': 'CustomBoom', 'repeat': 2}, {'kind': 'errctx', 'sample': 'unsafe', 'caller': None, 'repeat': 4}]
    return out
