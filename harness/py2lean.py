#!/venv/bin/python
"""py2lean — a translator from a small, explicit subset of Python to Lean 4.

On every check run it reads the SOURCE (AST) of the small pure decision functions of awesomeyaml from the
working tree the check runs against (`common.REPO`), emits one Lean definition per target into
`lean/AY/Gen/Translated.lean` (rewritten only when the content changes; deterministic) and a machine-readable
`lean/AY/Gen/translated_report.json`. The hand-written theorems `TIE_*` in `lean/AY/Tie/TranslatedEq.lean`
prove, for ALL inputs, that each function of the hand-written model equals the translated one.

Method: symbolic execution / partial evaluation of the function body.

  * expressions become Lean expressions over the universe `AY.Py.PV` of `lean/AY/Tie/PyVal.lean`
    (`pyAnd pyOr pyNot pyIs pyEq pyLt …` mirror Python: and/or return an operand, truthiness of
    None/bool/int/str/dict, `True == 1`, `is` only against the singletons None/True/False);
  * statements are executed path by path: an `if` on a symbolic test forks, an `if` on a test that is
    constant at translation time (a keyword such as `allow_promotions=False`, a class constant) is folded;
    every path ends in a leaf (the returned value / the state of the returned object / the named locals);
  * objects (`self`, `other`, `child`, aliases such as `ret = self`) are references into a symbolic store;
    `o.x = v` updates the store; at a leaf the state is written as `Obj.set … "x" v` in attribute order, so
    re-ordering independent assignments does not change the output;
  * calls: a function used in EXPRESSION position is translated as its own Lean definition (it must be pure);
    a call in STATEMENT position is inlined (it may update its object arguments: `_absorb_flags(self, other)`);
    methods, properties and `self.ayns.<name>` are resolved through the AST of the class and its bases;
    module-level names are resolved by introspection of the imported module (functions → their AST,
    `ConfigNode.WEAK`-style class constants → literals);
  * every value that is evaluated on a path for its effect only (a test that fell through, an assigned value)
    is recorded in the leaf's guard list: if it raised, the leaf raises (`pyGuard`, `pyGuardV`).

The subset (anything else makes the FUNCTION not translatable — never an exception out of this module):

  expressions   None True False, int and str literals; names of parameters and locals; `o._x` and
                `getattr(o, '_x'[, d])` on object parameters; `o.ayns.<property>`; `is` / `is not` against
                None/True/False; == != < > <= >= (also chained); `in` / `not in` over a literal list or tuple;
                and or not; `a if c else b`; + - unary -; abs, min, max, len(<object parameter>) (a parameter
                `len_<name>`), len(<dict>), isinstance(x, int), hasattr(o, '<name>'); `{}` and dict literals
                with constant string keys, `d['k']`, `{**a, **b}`; tuples (only to be unpacked); calls of
                module-level functions, methods and properties whose body is in the subset; class constants
                `Cls.NAME` with an int/bool/None/str value.
  statements    docstrings, pass, return, raise <Name>(…), if/elif/else, assignments to locals, to tuples of
                locals, to `o._x`, to `d['k']`, augmented + and -, expression statements that call a function
                of the subset (inlined), calls listed as `skip` in the target (effects on OTHER objects that
                the model keeps apart, e.g. `_propagate_implicit_values()` on the surviving node), calls listed
                as `effects` (recorded, by their source text, in the order of execution), `continue` in a
                loop-body slice.
  per target    `predicates`: expressions that are taken as Boolean inputs (class relations of
                `_maybe_promote`, `path not in exceptions`), matched by their source text.
                `opreds`: properties of OBJECTS that are Boolean inputs — `isinstance(o, Cls)`, truthiness of `o`
                (`not o`, `if o`), `o is None`, `a is b` — keyed by the object, not by the name of the local.
                `acalls`: calls whose RESULT is an input: the call is recorded and yields a new object (`child =
                self.ayns.get_child(…)`, `merged = child.ayns.on_merge(…)`, `super().ayns.on_merge_impl(…)`) which
                may carry a state (its flags are then a parameter `p_<tag>`) and predicates.
                `effects` with `canonical`: recorded calls are written as `<object>.<method>(<args>)` where an
                argument is the name of the object / loop key / local function it evaluates to, a constant, or `_`
                (anything outside the subset: `path + [key]`, f-strings) — independent of the names of locals.
                `avalues`: the plain value an object stands for where one is needed (`str(other)`, `self._func = other`).
                `havoc`: a `for` loop that is abstracted; the truthiness of the named locals afterwards is an input.
                `nested`: the target is a local function (closure) of the method; `slice='for_body'` with `loop_vars`.
  second batch  `isinstance(x, str)`; `try: x = e / return e  except AttributeError: x = h / return h` (a guarded
                read, `pyCatchAttr`); local `def` (only passed on); `for x in (<constants>)` is unrolled;
                `setattr(o, '<const>', v)`; `'a' + 'b'` on constants; `[]`.
"""
import os, sys, ast, json, hashlib, importlib, inspect, types, traceback, builtins as _builtins

HERE = os.path.dirname(os.path.abspath(__file__))
sys.path.insert(0, HERE)


class NT(Exception):
    """the function is outside the translatable subset"""


# ----------------------------------------------------------------------------------------------------
# symbolic values
# ----------------------------------------------------------------------------------------------------

class K:            # a Python constant known at translation time
    def __init__(self, v): self.v = v
class E:            # a symbolic value of Lean type PV; `total`: evaluating it cannot raise
    def __init__(self, lean, total=False): self.lean, self.total = lean, total
class O:            # reference to an object of the store
    def __init__(self, name): self.name = name
class OO:           # an optional object parameter (`child=None`)
    def __init__(self, name): self.name = name
class T:            # tuple (only to be unpacked)
    def __init__(self, items): self.items = items
class Ref:          # a python object resolved by introspection: function, class, module, builtin
    def __init__(self, obj): self.obj = obj
class NS:           # `o.ayns`
    def __init__(self, recv): self.recv = recv
class Bound:        # bound method
    def __init__(self, recv, fi): self.recv, self.fi = recv, fi
class DictOf:       # `o.__dict__` (appears in recorded effects only)
    def __init__(self, recv): self.recv = recv
class Opaque:       # a parameter the target declares as unused
    def __init__(self, name): self.name = name
class Tok:          # a value that is only passed on (a loop key, a closure): rendered by its name in recorded calls
    def __init__(self, name): self.name = name


def lit(v):
    if v is None: return '.none'
    if v is True: return '(.bool true)'
    if v is False: return '(.bool false)'
    if isinstance(v, int): return f'(.int {v})' if v >= 0 else f'(.int ({v}))'
    if isinstance(v, str): return '(.str ' + json.dumps(v) + ')'
    raise NT(f'constant of type {type(v).__name__} is outside the subset')


def lean_of(v):
    if isinstance(v, K): return lit(v.v)
    if isinstance(v, E): return v.lean
    raise NT(f'a {type(v).__name__} value is used where a plain value is needed')


class ObjState:
    """state of an object: a Lean variable (the state on entry) plus the attributes assigned since"""
    def __init__(self, base, cls, over=None):
        self.base, self.cls, self.over = base, cls, dict(over or {})
    def set(self, attr, val):
        o = dict(self.over); o[attr] = val
        return ObjState(self.base, self.cls, o)
    def lean(self):
        if self.base is None:
            raise NT('the state of an object that is only passed on is used')
        s = self.base
        for a in sorted(self.over):
            s = f'(Obj.set {s} {json.dumps(a)} {lean_of(self.over[a])})'
        return s


class Ctx:
    """one execution path: locals, object store, guard list, recorded effects"""
    def __init__(self, env, store, guards=(), effects=()):
        self.env, self.store, self.guards, self.effects = env, store, tuple(guards), tuple(effects)
    def with_env(self, name, val):
        e = dict(self.env); e[name] = val
        return Ctx(e, self.store, self.guards, self.effects)
    def with_obj(self, name, st):
        s = dict(self.store); s[name] = st
        return Ctx(self.env, s, self.guards, self.effects)
    def with_guard(self, val):
        if isinstance(val, E) and not val.total and val.lean not in self.guards:
            return Ctx(self.env, self.store, self.guards + (val.lean,), self.effects)
        return self
    def with_effect(self, text):
        return Ctx(self.env, self.store, self.guards, self.effects + (text,))
    def new_frame(self, env):
        return Ctx(env, self.store, self.guards, self.effects)


# ----------------------------------------------------------------------------------------------------
# source access: ASTs of the working tree, classes and their members
# ----------------------------------------------------------------------------------------------------

class FuncInfo:
    def __init__(self, mod, node, qual, cls=None, is_property=False):
        self.mod, self.node, self.qual, self.cls, self.is_property = mod, node, qual, cls, is_property
    @property
    def key(self): return f'{self.mod.__name__}:{self.qual}'


class Sources:
    def __init__(self, repo):
        self.repo = os.path.realpath(repo)
        self._trees = {}
        self._members = {}

    def module(self, name):
        m = importlib.import_module(name)
        f = os.path.realpath(getattr(m, '__file__', '') or '')
        if not f.startswith(self.repo + os.sep):
            raise NT(f'module {name} is not part of the working tree under verification')
        return m

    def tree(self, mod):
        if mod.__name__ not in self._trees:
            with open(mod.__file__, 'rb') as fh:
                self._trees[mod.__name__] = ast.parse(fh.read())
        return self._trees[mod.__name__]

    def classdef(self, pycls):
        mod = self.module(pycls.__module__)
        node = self.tree(mod)
        for part in pycls.__qualname__.split('.'):
            nxt = [n for n in node.body if isinstance(n, ast.ClassDef) and n.name == part]
            if len(nxt) != 1:
                raise NT(f'class {pycls.__qualname__} not found in the source of {mod.__name__}')
            node = nxt[0]
        return mod, node

    @staticmethod
    def _decos(fn):
        out = []
        for d in fn.decorator_list:
            out.append(ast.unparse(d))
        return out

    def members(self, pycls, ns):
        """{name: FuncInfo} of the functions defined in the body of `pycls` (ns=None) or in its namespace `ns`
        (`class ayns:` in the class body, or functions decorated with `@namespace('ayns')`)"""
        if (pycls, ns) in self._members:
            return self._members[(pycls, ns)]
        mod, cd = self.classdef(pycls)
        out = {}
        self._members[(pycls, ns)] = out
        def add(fn, qual):
            decos = self._decos(fn)
            if any(d.endswith('.setter') or d.endswith('.deleter') for d in decos):
                return
            out[fn.name] = FuncInfo(mod, fn, qual, pycls, is_property=('property' in decos))
        for n in cd.body:
            if isinstance(n, ast.FunctionDef):
                decos = self._decos(n)
                in_ns = [d for d in decos if d.startswith('namespace(')]
                if ns is None and not in_ns:
                    add(n, f'{pycls.__qualname__}.{n.name}')
                elif ns is not None and any(d == f"namespace('{ns}')" for d in in_ns):
                    add(n, f'{pycls.__qualname__}.{ns}.{n.name}')
            elif isinstance(n, ast.ClassDef) and ns is not None and n.name == ns:
                for m in n.body:
                    if isinstance(m, ast.FunctionDef):
                        add(m, f'{pycls.__qualname__}.{ns}.{m.name}')
        return out

    def lookup_member(self, pycls, ns, name):
        """first definition of `name` along the MRO of pycls; None if it is not a function of the sources"""
        for c in pycls.__mro__:
            if c is object or not getattr(c, '__module__', '').startswith('awesomeyaml'):
                continue
            try:
                ms = self.members(c, ns)
            except NT:
                continue
            if name in ms:
                return ms[name]
        return None

    def function(self, pyfunc):
        """FuncInfo of a module-level python function"""
        mod = self.module(pyfunc.__module__)
        if '.' in pyfunc.__qualname__:
            raise NT(f'{pyfunc.__qualname__}: only module-level functions can be called by name')
        for n in self.tree(mod).body:
            if isinstance(n, ast.FunctionDef) and n.name == pyfunc.__name__:
                return FuncInfo(mod, n, pyfunc.__qualname__)
        raise NT(f'function {pyfunc.__qualname__} not found in the source of {mod.__name__}')


# ----------------------------------------------------------------------------------------------------
# targets
# ----------------------------------------------------------------------------------------------------
# params: (python name, kind) with kind in  'obj:<Class>' | 'optobj:<Class>' | 'pv' | 'ignored' | 'const:<literal>'
# kind of result: 'value' (PV) | 'obj' (Res Obj: the state of the returned object) |
#                 'refobj' (Res RefRes: which object is returned, its state, recorded effects) |
#                 'locals' (Res (Obj × PV × List String): state of one object, one local and the recorded effects at the
#                           end of a loop-body slice)

NODE = 'awesomeyaml.nodes.node'
COMPOSED = 'awesomeyaml.nodes.composed'
TARGETS = [
    dict(name='notnone_or', module='awesomeyaml.utils', func='notnone_or', kind='value',
         params=[('value', 'pv'), ('alt', 'pv')], model='Option.getD / Option.or'),
    dict(name='ayns_priority', module=NODE, cls='ConfigNode', ns='ayns', func='priority', kind='value',
         params=[('self', 'obj:ConfigNode')], model='ePrio'),
    dict(name='ayns_weak', module=NODE, cls='ConfigNode', ns='ayns', func='weak', kind='value',
         params=[('self', 'obj:ConfigNode')], model='ePrio f = Tables.weak'),
    dict(name='ayns_force', module=NODE, cls='ConfigNode', ns='ayns', func='force', kind='value',
         params=[('self', 'obj:ConfigNode')], model='ePrio f = Tables.force'),
    dict(name='ayns_delete', module=NODE, cls='ConfigNode', ns='ayns', func='delete', kind='value',
         params=[('self', 'obj:ConfigNode')], model='eDel'),
    dict(name='ayns_allow_new', module=NODE, cls='ConfigNode', ns='ayns', func='allow_new', kind='value',
         params=[('self', 'obj:ConfigNode')], model='eNew'),
    dict(name='ayns_safe', module=NODE, cls='ConfigNode', ns='ayns', func='safe', kind='value',
         params=[('self', 'obj:ConfigNode')], model='eSafe'),
    dict(name='ayns_has_priority_over', module=NODE, cls='ConfigNode', ns='ayns', func='has_priority_over', kind='value',
         params=[('self', 'obj:ConfigNode'), ('other', 'obj:ConfigNode'), ('if_equal', 'pv')], model='hasPrio'),
    dict(name='replace_self', module=NODE, cls='ConfigNode', ns=None, func='_replace_self', kind='obj',
         params=[('self', 'obj:ConfigNode'), ('other', 'obj:ConfigNode'), ('allow_promotions', 'const:False')],
         skip=['_propagate_implicit_values'], model='replaceSelfFlags'),
    dict(name='replace_other', module=NODE, cls='ConfigNode', ns=None, func='_replace_other', kind='obj',
         params=[('self', 'obj:ConfigNode'), ('other', 'obj:ConfigNode'), ('allow_promotions', 'const:False')],
         skip=['_propagate_implicit_values'], model='replaceOtherFlags (mergeSafe)'),
    dict(name='on_merge_impl', module=NODE, cls='ConfigNode', ns='ayns', func='on_merge_impl', kind='refobj',
         params=[('self', 'obj:ConfigNode'), ('path', 'ignored'), ('other', 'obj:ConfigNode')],
         skip=['_propagate_implicit_values'], model='leafRule'),
    dict(name='get_child_kwargs', module=COMPOSED, cls='ComposedNode', ns=None, func='_get_child_kwargs', kind='value',
         params=[('self', 'obj:ComposedNode'), ('child', 'optobj:ConfigNode')], model='childKw'),
    dict(name='stream_get_child_kwargs', module='awesomeyaml.nodes.stream', cls='StreamNode', ns=None,
         func='_get_child_kwargs', kind='value',
         params=[('self', 'obj:StreamNode'), ('child', 'optobj:ConfigNode')], model='childKw _ .stream'),
    dict(name='propagate_child', module=COMPOSED, cls='ComposedNode', ns=None, func='_propagate_implicit_values',
         kind='locals', slice='for_body', loop_var='child', out_obj='child', out_local='fix',
         params=[('expected', 'pv'), ('child', 'obj:ConfigNode')],
         free=['self'],
         effects=['_propagate_implicit_values'], model='updFlags, flagsChanged, the recursion of applyKw'),
    dict(name='validate_index', module='awesomeyaml.nodes.list', cls='ConfigList', ns=None, func='_validate_index',
         kind='value', lens=['self'],
         params=[('self', 'obj:ConfigList'), ('index', 'pv'), ('strict', 'pv')], model='validateIndex'),
    dict(name='maybe_promote', module=NODE, cls='ConfigNode', ns=None, func='_maybe_promote', kind='refobj',
         params=[('self', 'obj:ConfigNode'), ('other', 'obj:ConfigNode')],
         predicates=[('type(self) is type(other)', 'same_type'),
                     ('self._is_composed()', 'self_composed'), ('other._is_composed()', 'other_composed'),
                     ('issubclass(type(other), type(self))', 'other_sub_self'),
                     ('issubclass(type(self), type(other))', 'self_sub_other'),
                     ('self._is_plain_composed()', 'self_plain'), ('other._is_plain_composed()', 'other_plain'),
                     ('isinstance(other, list)', 'other_is_list')],
         effects=['clear', 'extend', 'update'], model='maybePromote'),
]


FUNC = 'awesomeyaml.nodes.function'
LIST = 'awesomeyaml.nodes.list'
TARGETS += [
    dict(name='ayns_explicit_delete', module=NODE, cls='ConfigNode', ns='ayns', func='explicit_delete', kind='value',
         params=[('self', 'obj:ConfigNode')], model='Flags.del'),
    dict(name='require_all_new_leaf', module=NODE, cls='ConfigNode', ns='ayns', func='_require_all_new', kind='value',
         params=[('self', 'obj:ConfigNode'), ('path', 'ignored'), ('reason', 'ignored'), ('exceptions', 'pv'), ('include_self', 'pv')],
         predicates=[('path not in exceptions', 'not_excepted'), ('path in exceptions', 'excepted')], model='reqNew (leaf)'),
    dict(name='merge_none', module=NODE, cls='ConfigNode', ns='ayns', func='merge', kind='refobj',
         params=[('self', 'obj:ConfigNode'), ('other', 'const:None')], model='the first stage of a fold: eNew of the root'),
    dict(name='func_on_merge_impl', module=FUNC, cls='FunctionNode', ns='ayns', func='on_merge_impl', kind='refobj', state_of='self',
         params=[('self', 'obj:FunctionNode'), ('prefix', 'ignored'), ('other', 'obj:ConfigNode')],
         avalues={'other': 'p_other_str'}, opreds=[(('isinstance', 'other', 'str'), 'other_is_str')],
         acalls=[dict(recv='super', method='on_merge_impl', tag='fallthrough', state=False)],
         effects=['clear'], canonical=True, skip=['_propagate_implicit_values'], model='funcMerge'),
    dict(name='keep_if_exists', module=LIST, cls='ConfigList', ns='ayns', func='on_merge_impl', nested='keep_if_exists', kind='valeff',
         params=[('self', 'objref:ConfigList'), ('path', 'tok'), ('node', 'obj:ConfigNode')], closure=['self'],
         acalls=[dict(recv='self', method='get_first_not_missing_node', tag='current', state=True)], model='keepIfExists'),
    dict(name='maybe_keep', module=COMPOSED, cls='ComposedNode', ns='ayns', func='on_merge_impl', nested='maybe_keep', kind='valeff',
         params=[('other', 'objref:ComposedNode'), ('node_path', 'tok'), ('node', 'obj:ConfigNode')], closure=['other'],
         acalls=[dict(recv='other', method='get_first_not_missing_node', tag='other_node', state=True)], model='maybeKeep'),
    dict(name='list_on_merge_impl', module=LIST, cls='ConfigList', ns='ayns', func='on_merge_impl', kind='refeff',
         params=[('self', 'objref:ConfigList'), ('prefix', 'ignored'), ('other', 'obj:ConfigNode')],
         havoc={'_missing_keys': 'keys_invalid'},
         opreds=[(('isinstance', 'other', 'dict'), 'other_is_dict'), (('isinstance', 'other', 'ComposedNode'), 'other_composed')],
         acalls=[dict(recv='super', method='on_merge_impl', tag='fallthrough', state=False)],
         effects=['filter_nodes'], canonical=True, model='listMerge (validation decision, pre-filter, fall through)'),
    dict(name='key_loop', module=COMPOSED, cls='ComposedNode', ns='ayns', func='on_merge_impl', kind='effects', slice='for_body',
         loop_vars=['key', 'value'],
         params=[('self', 'objref:ComposedNode'), ('key', 'tok'), ('value', 'obj:ConfigNode')], free=['other', 'path'],
         acalls=[dict(recv='self', method='get_child', tag='child', state=False),
                 dict(recv='child', method='on_merge', tag='merged', state=True)],
         opreds=[(('isnone', 'child'), 'child_missing'), (('isinstance', 'child', 'ComposedNode'), 'child_composed'),
                 (('truthy', 'merged'), 'merged_truthy'), (('same', 'child', 'merged'), 'merged_is_child')],
         effects=['set_child', 'remove_child', '_require_all_new'], canonical=True, model='mergeStep'),
]

TIES = {'notnone_or': ['TIE_notnone_or', 'TIE_notnone_or_getD', 'TIE_notnone_or_or'], 'ayns_priority': ['TIE_ePrio'], 'ayns_weak': ['TIE_weak'], 'ayns_force': ['TIE_force'], 'ayns_delete': ['TIE_eDelF', 'TIE_eDel'], 'ayns_allow_new': ['TIE_eNew'], 'ayns_safe': ['TIE_eSafe'], 'ayns_has_priority_over': ['TIE_hasPrio'], 'replace_self': ['TIE_replaceSelfFlags'], 'replace_other': ['TIE_replaceOtherFlags', 'TIE_mergeSafe'], 'on_merge_impl': ['TIE_leafRuleFlags', 'TIE_leafRule'], 'get_child_kwargs': ['TIE_childKwF', 'TIE_childKw', 'TIE_childKw_child'], 'stream_get_child_kwargs': ['TIE_childKw'], 'propagate_child': ['TIE_propagateChild', 'TIE_updFlags', 'TIE_flagsChanged'], 'validate_index': ['TIE_validateIndex'], 'maybe_promote': ['TIE_maybePromote']}
TIES2 = {'ayns_explicit_delete': ['TIE_explicitDelete'], 'require_all_new_leaf': ['TIE_reqNewLeaf'],
         'merge_none': ['TIE_mergeNone'], 'func_on_merge_impl': ['TIE_funcDecision', 'TIE_funcMerge'],
         'keep_if_exists': ['TIE_keepIfExists'], 'maybe_keep': ['TIE_maybeKeep'],
         'list_on_merge_impl': ['TIE_listMerge_decision'], 'key_loop': ['TIE_mergeStep_decision']}
for _t in TARGETS:
    _t['ties'] = TIES.get(_t['name'], []) + TIES2.get(_t['name'], [])


def lean_signature(t):
    """the Lean binder list and result type of a target — fixed by the target, independent of the source"""
    bs = []
    for p, kind in t['params']:
        if kind.startswith('obj:'): bs.append(f'(p_{p} : Obj)')
        elif kind.startswith('optobj:'): bs.append(f'(p_{p} : Option Obj)')
        elif kind == 'pv': bs.append(f'(p_{p} : PV)')
    for p in t.get('lens', []):
        bs.append(f'(len_{p} : Nat)')
    for a in t.get('acalls', []):
        if a.get('state'):
            bs.append(f"(p_{a['tag']} : Obj)")
    for v in t.get('avalues', {}).values():
        bs.append(f'({v} : PV)')
    for _, b in t.get('predicates', []):
        bs.append(f'({b} : Bool)')
    for _, b in t.get('opreds', []):
        bs.append(f'({b} : Bool)')
    for b in t.get('havoc', {}).values():
        bs.append(f'({b} : Bool)')
    ty = {'value': 'PV', 'obj': 'Res Obj', 'refobj': 'Res RefRes', 'locals': 'Res (Obj × PV × List String)',
          'valeff': 'Res (PV × List String)', 'effects': 'Res (List String)', 'refeff': 'Res (String × List String)'}[t['kind']]
    return ' '.join(bs), ty


def arg_names(t):
    out = []
    for p, kind in t['params']:
        if kind.split(':')[0] in ('obj', 'optobj', 'pv'):
            out.append(f'p_{p}')
    out += [f'len_{p}' for p in t.get('lens', [])]
    out += [f"p_{a['tag']}" for a in t.get('acalls', []) if a.get('state')]
    out += list(t.get('avalues', {}).values())
    out += [b for _, b in t.get('predicates', [])]
    out += [b for _, b in t.get('opreds', [])]
    out += list(t.get('havoc', {}).values())
    return out


# ----------------------------------------------------------------------------------------------------
# the translator
# ----------------------------------------------------------------------------------------------------

BUILTIN_NAMES = {'abs', 'len', 'min', 'max', 'isinstance', 'hasattr', 'getattr', 'int', 'list', 'type', 'issubclass',
                 'enumerate', 'bool', 'str', 'dict', 'setattr'}
CMP = {ast.Eq: 'pyEq', ast.NotEq: 'pyNe', ast.Lt: 'pyLt', ast.LtE: 'pyLe', ast.Gt: 'pyGt', ast.GtE: 'pyGe'}
PYCMP = {ast.Eq: lambda a, b: a == b, ast.NotEq: lambda a, b: a != b, ast.Lt: lambda a, b: a < b,
         ast.LtE: lambda a, b: a <= b, ast.Gt: lambda a, b: a > b, ast.GtE: lambda a, b: a >= b}
MAX_LEAVES = 256


class Translator:
    def __init__(self, repo):
        self.src = Sources(repo)
        self.defs = {}        # lean name -> text (in order of completion)
        self.order = []
        self.by_key = {}      # FuncInfo.key + signature -> lean name | NT
        self.target_by_key = {}
        self.in_progress = set()
        for t in TARGETS:
            if t.get('slice') is None:
                self.target_by_key[(t['module'], self._qual(t))] = t

    @staticmethod
    def _qual(t):
        q = t['func']
        if t.get('ns'): q = t['ns'] + '.' + q
        if t.get('cls'): q = t['cls'] + '.' + q
        return q

    # ------------------------------------------------------------------ locating a target
    def funcinfo_of_target(self, t):
        mod = self.src.module(t['module'])
        if t.get('cls'):
            pycls = getattr(mod, t['cls'], None)
            if not isinstance(pycls, type):
                raise NT(f"class {t['cls']} not found in {t['module']}")
            ms = self.src.members(pycls, t.get('ns'))
            if t['func'] not in ms:
                raise NT(f"{self._qual(t)} is not defined in the body of {t['cls']}")
            return ms[t['func']]
        f = getattr(mod, t['func'], None)
        if not isinstance(f, types.FunctionType):
            raise NT(f"{t['func']} is not a function of {t['module']}")
        return self.src.function(f)

    def resolve_class(self, mod, name):
        c = getattr(mod, name, None)
        if isinstance(c, type):
            return c
        for m in ('awesomeyaml.nodes.node', 'awesomeyaml.nodes.composed', 'awesomeyaml.nodes.list',
                  'awesomeyaml.nodes.stream', 'awesomeyaml.nodes.dict'):
            c = getattr(self.src.module(m), name, None)
            if isinstance(c, type):
                return c
        raise NT(f'class {name} cannot be resolved')

    # ------------------------------------------------------------------ translating one definition
    def translate_target(self, t):
        """returns the body text of the Lean definition of target t (raises NT)"""
        fi = self.funcinfo_of_target(t)
        return self.translate_def(fi, t)

    def translate_def(self, fi, t):
        fn = fi.node
        a = fn.args
        if a.vararg or a.kwarg or a.kwonlyargs or a.posonlyargs:
            raise NT('*args / **kwargs / keyword-only parameters are outside the subset')
        env, store = {}, {}
        self.cur = t
        declared = dict(t['params'])
        for name in t.get('free', []):
            declared[name] = 'ignored'
        def bind(name, kind):
            if kind.startswith('obj:'):
                store[name] = ObjState(f'p_{name}', self.resolve_class(fi.mod, kind[4:]))
                env[name] = O(name)
            elif kind.startswith('optobj:'):
                store[name] = ObjState(f'p_{name}', self.resolve_class(fi.mod, kind[7:]))
                env[name] = OO(name)
            elif kind == 'pv':
                env[name] = E(f'p_{name}')
            elif kind == 'ignored':
                env[name] = Opaque(name)
            elif kind == 'tok':
                env[name] = Tok(name)
            elif kind.startswith('objref:'):
                store[name] = ObjState(None, self.resolve_class(fi.mod, kind[7:]))
                env[name] = O(name)
            elif kind.startswith('const:'):
                env[name] = K(ast.literal_eval(kind[6:]))
            else:
                raise NT(f'unknown parameter kind {kind}')
        if t.get('nested'):
            inner = [n for n in ast.walk(fn) if isinstance(n, ast.FunctionDef) and n.name == t['nested'] and n is not fn]
            if len(inner) != 1:
                raise NT(f"nested function `{t['nested']}` not found")
            fn = inner[0]
            a = fn.args
        if t.get('slice') == 'for_body':
            want = t.get('loop_vars') or [t['loop_var']]
            def targets(loop):
                if isinstance(loop.target, ast.Name): return [loop.target.id]
                if isinstance(loop.target, ast.Tuple) and all(isinstance(e, ast.Name) for e in loop.target.elts):
                    return [e.id for e in loop.target.elts]
                return None
            loops = [s for s in fn.body if isinstance(s, ast.For) and targets(s) == want and not s.orelse]
            if len(loops) != 1:
                raise NT(f'expected exactly one top-level for loop over {want}')
            for name, kind in declared.items():
                bind(name, kind)
            body = loops[0].body
        else:
            names = [x.arg for x in a.args]
            own = [p for p, _ in t['params'] if p not in t.get('closure', [])]
            if names != own:
                raise NT(f"parameter list {names} differs from the declared one {own}")
            for name, kind in declared.items():
                bind(name, kind)
            body = fn.body
        ctx = Ctx(env, store)
        self.leaves = 0
        kind = t['kind']
        effs_of = lambda c: '[' + ', '.join(json.dumps(e) for e in c.effects) + ']'
        def leaf_ret(v, c):
            if kind == 'value':
                return self.leaf(c, lean_of(v), kind)
            if kind == 'valeff':
                return self.leaf(c, f'({lean_of(v)}, {effs_of(c)})', kind)
            if kind == 'effects':
                raise NT('return inside the loop body')
            if not isinstance(v, O):
                raise NT('the function does not return one of its object arguments')
            if kind == 'refeff':
                return self.leaf(c, f'({json.dumps(v.name)}, {effs_of(c)})', kind)
            st = c.store[t['state_of']] if t.get('state_of') else c.store[v.name]
            if kind == 'obj':
                return self.leaf(c, st.lean(), kind)
            return self.leaf(c, f'{{ ref := {json.dumps(v.name)}, state := {st.lean()}, effects := {effs_of(c)} }}', kind)
        def leaf_end(c):
            if kind == 'locals':
                if t['out_local'] not in c.env:
                    raise NT(f"local `{t['out_local']}` is not assigned on every path")
                return self.leaf(c, f"({c.store[t['out_obj']].lean()}, {lean_of(c.env[t['out_local']])}, {effs_of(c)})", kind)
            if kind == 'effects':
                return self.leaf(c, effs_of(c), kind)
            return leaf_ret(K(None), c)
        if kind in ('locals', 'effects'):
            def no_return(v, c):
                raise NT('return inside the loop body')
            tree = self.exec_block(fi, body, ctx, no_return, leaf_end, leaf_end)
        else:
            tree = self.exec_block(fi, body, ctx, leaf_ret, leaf_end, None)
        return self.render(tree, kind, 1)

    def leaf(self, ctx, payload, kind):
        self.leaves += 1
        if self.leaves > MAX_LEAVES:
            raise NT(f'more than {MAX_LEAVES} execution paths')
        gs = '[' + ', '.join(ctx.guards) + ']'
        if kind == 'value':
            return ('leaf', payload if not ctx.guards else f'pyGuardV {gs} {payload}')
        return ('leaf', f'pyGuard {gs} {payload}')

    def render(self, tree, kind, ind):
        pad = '  ' * ind
        if tree[0] == 'leaf':
            return pad + tree[1]
        _, c, a, b = tree
        if kind == 'value':
            return f'{pad}pyIte {c}\n' + self._paren(self.render(a, kind, ind + 1)) + '\n' + self._paren(self.render(b, kind, ind + 1))
        return f'{pad}if pyTruthy {c} then\n{self.render(a, kind, ind + 1)}\n{pad}else\n{self.render(b, kind, ind + 1)}'

    @staticmethod
    def _paren(text):
        stripped = text.lstrip(' ')
        pad = text[:len(text) - len(stripped)]
        return f'{pad}({stripped})'

    # ------------------------------------------------------------------ statements
    def exec_block(self, fi, stmts, ctx, k_ret, k_end, k_continue):
        if not stmts:
            return k_end(ctx)
        s, rest = stmts[0], stmts[1:]
        cont = lambda c: self.exec_block(fi, rest, c, k_ret, k_end, k_continue)
        if isinstance(s, ast.Return):
            if s.value is None:
                return k_ret(K(None), ctx)
            return self.eval_effectful(fi, s.value, ctx, k_ret)
        if isinstance(s, ast.Pass):
            return cont(ctx)
        if isinstance(s, ast.Continue):
            if k_continue is None:
                raise NT('continue outside a loop-body slice')
            return k_continue(ctx)
        if isinstance(s, ast.Expr):
            if isinstance(s.value, ast.Constant):
                return cont(ctx)
            if isinstance(s.value, ast.Call):
                return self.call_stmt(fi, s.value, ctx, lambda v, c: cont(c))
            raise NT(f'expression statement `{ast.unparse(s)[:60]}`')
        if isinstance(s, ast.Assign):
            def after(v, c):
                for tg in s.targets:
                    c = self.assign(fi, tg, v, c)
                return cont(c)
            return self.eval_effectful(fi, s.value, ctx, after)
        if isinstance(s, ast.AugAssign):
            if not isinstance(s.target, ast.Name) or not isinstance(s.op, (ast.Add, ast.Sub)):
                raise NT(f'augmented assignment `{ast.unparse(s)[:60]}`')
            v = self.binop(s.op, self.eval(fi, s.target, ctx), self.eval(fi, s.value, ctx))
            return cont(self.assign(fi, s.target, v, ctx))
        if isinstance(s, ast.If):
            c = self.truth(self.eval(fi, s.test, ctx), 'if')
            if isinstance(c, K):
                return self.exec_block(fi, (s.body if c.v else s.orelse) + rest, ctx, k_ret, k_end, k_continue)
            cl = lean_of(c)
            kind = self.cur['kind']
            t_ctx = ctx
            e_ctx = ctx if kind == 'value' else ctx.with_guard(c)
            a = self.exec_block(fi, s.body + rest, t_ctx, k_ret, k_end, k_continue)
            b = self.exec_block(fi, s.orelse + rest, e_ctx, k_ret, k_end, k_continue)
            if kind == 'value' and a == b and a[0] == 'leaf':
                return ('leaf', f'pyGuardV [{cl}] {self._atom(a[1])}')
            return ('ite', cl, a, b)
        if isinstance(s, ast.Raise):
            exc = s.exc
            if isinstance(exc, ast.Call):
                exc = exc.func
            if not isinstance(exc, ast.Name) or s.cause is not None:
                raise NT(f'raise `{ast.unparse(s)[:60]}`')
            self.leaves += 1
            return ('leaf', f'(.exc {json.dumps(exc.id)})')
        if isinstance(s, ast.FunctionDef):          # a local function: only ever passed on (or called where the value does not matter)
            return cont(ctx.with_env(s.name, Tok(s.name)))
        if isinstance(s, ast.Try):
            return self.exec_try(fi, s, ctx, k_ret, cont)
        if isinstance(s, ast.For):
            return self.exec_for(fi, s, rest, ctx, k_ret, k_end, k_continue)
        raise NT(f'statement `{type(s).__name__}` ({ast.unparse(s).splitlines()[0][:60]})')

    def exec_try(self, fi, s, ctx, k_ret, cont):
        """`try: x = e  except AttributeError: x = h` (or `return e` / `return h`): a guarded read"""
        if s.orelse or s.finalbody or len(s.handlers) != 1 or len(s.body) != 1 or len(s.handlers[0].body) != 1:
            raise NT('try statement (only `try: <one statement> except AttributeError: <one statement>`)')
        h = s.handlers[0]
        if not (isinstance(h.type, ast.Name) and h.type.id == 'AttributeError'):
            raise NT('try statement with a handler other than `except AttributeError`')
        b, hb = s.body[0], h.body[0]
        if isinstance(b, ast.Return) and isinstance(hb, ast.Return) and b.value is not None and hb.value is not None:
            v = E(f'(pyCatchAttr {lean_of(self.eval(fi, b.value, ctx))} {lean_of(self.eval(fi, hb.value, ctx))})')
            return k_ret(v, ctx)
        if (isinstance(b, ast.Assign) and isinstance(hb, ast.Assign) and len(b.targets) == 1 and len(hb.targets) == 1
                and isinstance(b.targets[0], ast.Name) and isinstance(hb.targets[0], ast.Name) and b.targets[0].id == hb.targets[0].id):
            v = E(f'(pyCatchAttr {lean_of(self.eval(fi, b.value, ctx))} {lean_of(self.eval(fi, hb.value, ctx))})')
            return cont(self.assign(fi, b.targets[0], v, ctx))
        raise NT('try statement (body and handler must assign the same local or both return)')

    def exec_for(self, fi, s, rest, ctx, k_ret, k_end, k_continue):
        t = self.cur
        after = lambda c: self.exec_block(fi, rest, c, k_ret, k_end, k_continue)
        if s.orelse:
            raise NT('for … else')
        # (a) a loop over a literal tuple/list of constants is unrolled
        if isinstance(s.iter, (ast.Tuple, ast.List)) and isinstance(s.target, ast.Name) and \
                all(isinstance(e, ast.Constant) for e in s.iter.elts) and len(s.iter.elts) <= 8:
            items = [K(e.value) for e in s.iter.elts]
            def run(i, c):
                if i == len(items):
                    return after(c)
                nxt = lambda c2: run(i + 1, c2)
                return self.exec_block(fi, s.body, c.with_env(s.target.id, items[i]), k_ret, nxt, nxt)
            return run(0, ctx)
        # (b) a loop the target declares as abstract: its outcome is an input
        hav = t.get('havoc')
        if hav:
            stored = set()
            for n in ast.walk(s):
                if isinstance(n, ast.Name) and isinstance(n.ctx, ast.Store):
                    stored.add(n.id)
                if isinstance(n, ast.Call) and isinstance(n.func, ast.Attribute) and isinstance(n.func.value, ast.Name) \
                        and n.func.attr in ('append', 'add', 'extend', 'update') and n.func.value.id in ctx.env:
                    stored.add(n.func.value.id)
            def names_used(st):
                if isinstance(st, ast.Raise):
                    return set()
                out = set()
                for ch in ast.iter_child_nodes(st):
                    out |= names_used(ch)
                if isinstance(st, ast.Name):
                    out.add(st.id)
                return out
            later = set().union(*[names_used(st) for st in rest]) if rest else set()
            bad = [x for x in stored if x in later and x not in hav]
            if bad:
                raise NT(f'the abstracted loop also sets {bad}')
            c = ctx
            for name, b in hav.items():
                c = c.with_env(name, E(f'(.bool {b})', total=True))
            return after(c)
        raise NT(f'statement `For` ({ast.unparse(s).splitlines()[0][:60]})')

    @staticmethod
    def _atom(text):
        return text if text.startswith('(') and text.endswith(')') or ' ' not in text else f'({text})'

    def assign(self, fi, target, v, ctx):
        if isinstance(target, ast.Name):
            if isinstance(v, (K, E, O, OO, T, Tok)):
                return ctx.with_env(target.id, v).with_guard(v)
            raise NT(f'assignment of a {type(v).__name__} to a local')
        if isinstance(target, (ast.Tuple, ast.List)):
            if not isinstance(v, T) or len(v.items) != len(target.elts):
                raise NT('tuple assignment from something that is not a tuple of the same length')
            for tg, x in zip(target.elts, v.items):
                ctx = self.assign(fi, tg, x, ctx)
            return ctx
        if isinstance(target, ast.Attribute):
            o = self.eval(fi, target.value, ctx)
            if not isinstance(o, O):
                raise NT(f'assignment to an attribute of something that is not an object parameter: `{ast.unparse(target)}`')
            if isinstance(v, O) and v.name in self.cur.get('avalues', {}):
                v = E(self.cur['avalues'][v.name])
            if not isinstance(v, (K, E)):
                raise NT(f'a {type(v).__name__} is stored in an attribute')
            return ctx.with_obj(o.name, ctx.store[o.name].set(target.attr, v)).with_guard(v)
        if isinstance(target, ast.Subscript):
            d = self.eval(fi, target.value, ctx)
            k = self.eval(fi, target.slice, ctx)
            if not isinstance(target.value, ast.Name) or not isinstance(d, E) or not (isinstance(k, K) and isinstance(k.v, str)):
                raise NT(f'subscript assignment `{ast.unparse(target)}` (only local dicts with constant string keys)')
            return ctx.with_env(target.value.id, E(f'(pyDictSet {d.lean} {json.dumps(k.v)} {lean_of(v)})'))
        raise NT(f'assignment target `{ast.unparse(target)}`')

    # ------------------------------------------------------------------ calls in statement position
    def eval_effectful(self, fi, node, ctx, k):
        """value of an expression on the right of `=` / `return`: a call of a function that updates its object
        arguments is inlined; a conditional expression on a constant test is folded first"""
        if isinstance(node, ast.IfExp):
            c = self.eval(fi, node.test, ctx)
            if isinstance(c, K):
                return self.eval_effectful(fi, node.body if c.v else node.orelse, ctx, k)
        if isinstance(node, ast.Call):
            m = self.match_acall(fi, node, ctx)
            if m:
                v, c = self.do_acall(fi, m[0], m[1], node, ctx)
                return k(v, c)
            try:
                return k(self.eval(fi, node, ctx), ctx)
            except NT as e:
                if not getattr(e, 'impure', False):
                    raise
            return self.call_stmt(fi, node, ctx, k)
        return k(self.eval(fi, node, ctx), ctx)

    # ------------------------------------------------------------------ abstract calls, recorded calls
    def recv_name(self, fi, node, ctx):
        """the object a method is called on: `x.m`, `x.ayns.m`, `super().m`, `super().ayns.m`"""
        if isinstance(node, ast.Attribute) and node.attr == 'ayns':
            node = node.value
        if isinstance(node, ast.Call) and isinstance(node.func, ast.Name) and node.func.id == 'super' and not node.args:
            return 'super'
        try:
            v = self.eval(fi, node, ctx)
        except NT:
            return None
        if isinstance(v, (O, OO)):
            return v.name
        if isinstance(v, DictOf):
            return v.recv.name + '.__dict__'
        return None

    def render_arg(self, fi, node, ctx):
        try:
            v = self.eval(fi, node, ctx)
        except NT:
            return '_'
        if isinstance(v, (O, OO, Tok)):
            return v.name
        if isinstance(v, K):
            return repr(v.v)
        return '_'

    def render_call(self, fi, recv, call, ctx):
        parts = [self.render_arg(fi, a, ctx) for a in call.args]
        parts += [f'{kw.arg}={self.render_arg(fi, kw.value, ctx)}' for kw in call.keywords]
        return f"{recv}.{call.func.attr}({', '.join(parts)})"

    def match_acall(self, fi, call, ctx):
        """a call the target declares as abstract: its result is an input (an object with declared predicates)"""
        t = self.cur
        if not t.get('acalls') or not isinstance(call.func, ast.Attribute):
            return None
        recv = self.recv_name(fi, call.func.value, ctx)
        for a in t['acalls']:
            if a['recv'] == recv and a['method'] == call.func.attr:
                return a, recv
        return None

    def do_acall(self, fi, a, recv, call, ctx):
        c = ctx.with_effect(self.render_call(fi, recv, call, ctx)) if a.get('record', True) else ctx
        if a.get('tag') is None:
            return K(None), c
        cls = self.resolve_class(fi.mod, a.get('cls', 'ConfigNode'))
        c = c.with_obj(a['tag'], ObjState(f"p_{a['tag']}" if a.get('state') else None, cls))
        return O(a['tag']), c

    def opred(self, key):
        for k2, b in self.cur.get('opreds', []):
            if tuple(k2) == tuple(key):
                return E(f'(.bool {b})', total=True)
        return None

    def truth(self, v, what):
        """the value a test sees: an object only when its truthiness is a declared input"""
        if isinstance(v, O):
            r = self.opred(('truthy', v.name))
            if r is None:
                raise NT(f'truthiness of the object `{v.name}` ({what})')
            return r
        return v

    def call_stmt(self, fi, call, ctx, k):
        """a call whose effects matter: skip-listed, recorded effect, or inlined"""
        t = self.cur
        f = call.func
        m = self.match_acall(fi, call, ctx)
        if m:
            v, c = self.do_acall(fi, m[0], m[1], call, ctx)
            return k(v, c)
        if isinstance(f, ast.Attribute):
            recv = None
            try:
                recv = self.eval(fi, f.value, ctx)
            except NT:
                recv = None
            if isinstance(recv, (O, DictOf)) and f.attr in t.get('skip', []) and not call.args and not call.keywords:
                return k(K(None), ctx)
            if t.get('canonical') and f.attr in t.get('effects', []):
                rn = self.recv_name(fi, f.value, ctx)
                if rn is not None:
                    return k(K(None), ctx.with_effect(self.render_call(fi, rn, call, ctx)))
            if isinstance(recv, (O, DictOf)) and f.attr in t.get('effects', []):
                return k(K(None), ctx.with_effect(ast.unparse(call)))
        if isinstance(f, ast.Name) and f.id == 'setattr' and len(call.args) == 3 and not call.keywords and 'setattr' not in ctx.env:
            o, nm, v = (self.eval(fi, x, ctx) for x in call.args)
            if isinstance(o, O) and isinstance(nm, K) and isinstance(nm.v, str) and isinstance(v, (K, E)):
                return k(K(None), ctx.with_obj(o.name, ctx.store[o.name].set(nm.v, v)).with_guard(v))
            raise NT(f'`{ast.unparse(call)[:60]}`')
        callee = self.eval(fi, f, ctx)
        if isinstance(callee, Ref) and isinstance(callee.obj, types.FunctionType):
            cfi, recv = self.src.function(callee.obj), None
        elif isinstance(callee, Bound):
            cfi, recv = callee.fi, callee.recv
        else:
            raise NT(f'call of `{ast.unparse(f)}` in statement position')
        args = [self.eval(fi, a, ctx) for a in call.args]
        kwargs = {}
        for kw in call.keywords:
            if kw.arg is None:
                raise NT('**kwargs in a call')
            kwargs[kw.arg] = self.eval(fi, kw.value, ctx)
        env = self.bind_params(cfi, ([recv] if recv is not None else []) + args, kwargs)
        if cfi.key in self.in_progress:
            raise NT(f'recursive call of {cfi.qual}')
        self.in_progress.add(cfi.key)
        try:
            inner = ctx.new_frame(env)
            back = lambda c: Ctx(ctx.env, c.store, c.guards, c.effects)
            return self.exec_block(cfi, cfi.node.body, inner, lambda v, c: k(v, back(c)), lambda c: k(K(None), back(c)), None)
        finally:
            self.in_progress.discard(cfi.key)

    def bind_params(self, cfi, args, kwargs):
        a = cfi.node.args
        if a.vararg or a.kwarg or a.kwonlyargs or a.posonlyargs:
            raise NT(f'{cfi.qual}: *args / **kwargs / keyword-only parameters')
        names = [x.arg for x in a.args]
        if len(args) > len(names):
            raise NT(f'too many arguments for {cfi.qual}')
        env = dict(zip(names, args))
        for k2, v in kwargs.items():
            if k2 not in names or k2 in env:
                raise NT(f'bad keyword {k2} for {cfi.qual}')
            env[k2] = v
        defaults = dict(zip(names[len(names) - len(a.defaults):], a.defaults))
        for n in names:
            if n not in env:
                if n not in defaults:
                    raise NT(f'missing argument {n} for {cfi.qual}')
                d = defaults[n]
                if not isinstance(d, ast.Constant) and not (isinstance(d, ast.UnaryOp) and isinstance(d.operand, ast.Constant)):
                    raise NT(f'default of {n} is not a constant')
                env[n] = K(ast.literal_eval(d))
        return env

    # ------------------------------------------------------------------ calls in expression position
    def pure_call(self, cfi, args):
        """call of a pure function: translated as its own Lean definition"""
        for v in args:
            if not isinstance(v, (K, E, O)):
                raise NT(f'a {type(v).__name__} is passed to {cfi.qual}')
        tk = (cfi.mod.__name__, cfi.qual)
        names = [x.arg for x in cfi.node.args.args]
        if tk in self.target_by_key:
            t = self.target_by_key[tk]
            kinds = [k2.split(':')[0] for _, k2 in t['params']]
            ok = len(kinds) == len(args) and all((kd == 'obj' and isinstance(v, O)) or (kd == 'pv' and isinstance(v, (K, E)))
                                                 for kd, v in zip(kinds, args)) and t['kind'] == 'value' and not t.get('lens')
            if ok:
                name = t['name']
                if name not in self.status:
                    self.run_target(t)
                if self.status[name]['status'] != 'translated':
                    raise NT(f"callee {cfi.qual} is not translatable ({self.status[name]['reason']})")
                return name
        sig = ''.join('o' if isinstance(v, O) else 'v' for v in args)
        key = (cfi.key, sig)
        if key in self.by_key:
            r = self.by_key[key]
            if isinstance(r, NT):
                raise r
            return r
        if cfi.key in self.in_progress:
            raise NT(f'recursive call of {cfi.qual}')
        lean_name = 'h_' + ''.join(ch if ch.isalnum() else '_' for ch in cfi.qual) + ('' if set(sig) <= {'v'} else '_' + sig)
        t = dict(name=lean_name, kind='value', params=[(n, (f'obj:{self.store_cls(v)}' if isinstance(v, O) else 'pv')) for n, v in zip(names, args)])
        saved = (self.cur, self.leaves)
        self.in_progress.add(cfi.key)
        try:
            body = self.translate_def(cfi, t)
            binders, ty = lean_signature(t)
            self.emit(lean_name, f'/-- helper `{cfi.qual}` ({cfi.mod.__name__}), reached from a target -/\n'
                                 f'@[simp] def {lean_name} {binders} : {ty} :=\n{body}')
            self.by_key[key] = lean_name
            self.helpers[lean_name] = {'python': cfi.key, 'source_hash': src_hash(cfi.node)}
            return lean_name
        except NT as e:
            self.by_key[key] = e
            raise
        finally:
            self.in_progress.discard(cfi.key)
            self.cur, self.leaves = saved

    def store_cls(self, v):
        return self._cls_names.get(v.name, 'ConfigNode')

    def emit(self, name, text):
        if name not in self.defs:
            self.order.append(name)
        self.defs[name] = text

    # ------------------------------------------------------------------ expressions
    def eval(self, fi, node, ctx):
        t = self.cur
        preds = dict(t.get('predicates', []))
        if preds:
            txt = ast.unparse(node)
            if txt in preds:
                return E(f'(.bool {preds[txt]})', total=True)
        if isinstance(node, ast.Constant):
            if node.value is None or isinstance(node.value, (bool, int, str)):
                return K(node.value)
            raise NT(f'constant `{node.value!r}`')
        if isinstance(node, ast.Name):
            if node.id in ctx.env:
                v = ctx.env[node.id]
                if isinstance(v, Opaque):
                    raise NT(f'parameter `{node.id}` is used')
                return v
            return self.resolve_global(fi, node.id)
        if isinstance(node, ast.Attribute):
            return self.attribute(fi, self.eval(fi, node.value, ctx), node.attr, ctx, node)
        if isinstance(node, ast.Call):
            return self.call_expr(fi, node, ctx)
        if isinstance(node, ast.Compare):
            return self.compare(fi, node, ctx)
        if isinstance(node, ast.BoolOp):
            vals = [self.eval(fi, v, ctx) for v in node.values]
            return self.boolop(isinstance(node.op, ast.And), vals)
        if isinstance(node, ast.UnaryOp):
            v = self.eval(fi, node.operand, ctx)
            if isinstance(node.op, ast.Not):
                v = self.truth(v, 'not')
                if isinstance(v, K): return K(not v.v)
                return E(f'(pyNot {lean_of(v)})')
            if isinstance(node.op, ast.USub):
                if isinstance(v, K) and isinstance(v.v, int): return K(-v.v)
                return E(f'(pyNeg {lean_of(v)})')
            raise NT(f'unary operator `{ast.unparse(node)}`')
        if isinstance(node, ast.BinOp):
            return self.binop(node.op, self.eval(fi, node.left, ctx), self.eval(fi, node.right, ctx))
        if isinstance(node, ast.IfExp):
            c = self.eval(fi, node.test, ctx)
            if isinstance(c, K):
                return self.eval(fi, node.body if c.v else node.orelse, ctx)
            a, b = self.eval(fi, node.body, ctx), self.eval(fi, node.orelse, ctx)
            return E(f'(pyIte {lean_of(c)} {lean_of(a)} {lean_of(b)})')
        if isinstance(node, ast.Dict):
            if any(k is None for k in node.keys):
                if all(k is None for k in node.keys) and len(node.values) >= 1:
                    vals = [lean_of(self.eval(fi, v, ctx)) for v in node.values]
                    out = vals[0]
                    if len(vals) == 1:
                        out = f'(pyDictMerge (.dict []) {out})'
                    for x in vals[1:]:
                        out = f'(pyDictMerge {out} {x})'
                    return E(out)
                raise NT('dict literal mixing `**` and keys')
            if not node.keys:
                return E('(.dict [])', total=True)
            out = '(.dict [])'
            for k, v in zip(node.keys, node.values):
                kk = self.eval(fi, k, ctx)
                if not (isinstance(kk, K) and isinstance(kk.v, str)):
                    raise NT('dict literal with a key that is not a constant string')
                out = f'(pyDictSet {out} {json.dumps(kk.v)} {lean_of(self.eval(fi, v, ctx))})'
            return E(out)
        if isinstance(node, ast.Subscript):
            d = self.eval(fi, node.value, ctx)
            k = self.eval(fi, node.slice, ctx)
            if isinstance(d, E) and isinstance(k, K) and isinstance(k.v, str):
                return E(f'(pyGetItem {d.lean} {json.dumps(k.v)})')
            raise NT(f'subscript `{ast.unparse(node)}` (only dicts with constant string keys)')
        if isinstance(node, (ast.Tuple, ast.List)):
            return T([self.eval(fi, e, ctx) for e in node.elts])
        raise NT(f'expression `{type(node).__name__}` ({ast.unparse(node)[:60]})')

    def resolve_global(self, fi, name):
        d = fi.mod.__dict__
        if name in d:
            v = d[name]
            if v is None or isinstance(v, (bool, int, str)):
                return K(v)
            if isinstance(v, (types.FunctionType, type, types.ModuleType)):
                return Ref(v)
            raise NT(f'global `{name}` of type {type(v).__name__}')
        if name in BUILTIN_NAMES and hasattr(_builtins, name):
            return Ref(getattr(_builtins, name))
        raise NT(f'name `{name}` cannot be resolved')

    def attribute(self, fi, recv, attr, ctx, node):
        if isinstance(recv, O):
            st = ctx.store[recv.name]
            if attr == 'ayns':
                return NS(recv)
            if attr == '__dict__':
                return DictOf(recv)
            m = self.src.lookup_member(st.cls, None, attr)
            if m is not None:
                if m.is_property:
                    return E(f'({self.pure_call_in(ctx, m, [recv])} {st.lean()})')
                return Bound(recv, m)
            if attr in st.over:
                return st.over[attr]
            if st.base is None:
                raise NT(f'`{recv.name}.{attr}`: the state of `{recv.name}` is not an input of this target')
            return E(f'({st.base} {json.dumps(attr)})')
        if isinstance(recv, OO):
            return E(f'(optAttr p_{recv.name} {json.dumps(attr)})')
        if isinstance(recv, NS):
            st = ctx.store[recv.recv.name]
            m = self.src.lookup_member(st.cls, 'ayns', attr)
            if m is None:
                raise NT(f'`ayns.{attr}` is not defined in the sources of {st.cls.__name__}')
            if m.is_property:
                return E(f'({self.pure_call_in(ctx, m, [recv.recv])} {st.lean()})')
            return Bound(recv.recv, m)
        if isinstance(recv, Ref) and isinstance(recv.obj, (type, types.ModuleType)):
            if not hasattr(recv.obj, attr):
                raise NT(f'`{ast.unparse(node)}` does not exist')
            v = getattr(recv.obj, attr)
            if v is None or isinstance(v, (bool, int, str)):
                return K(v)
            if isinstance(v, (types.FunctionType, type, types.ModuleType)):
                return Ref(v)
            raise NT(f'`{ast.unparse(node)}` is a {type(v).__name__}')
        raise NT(f'attribute `{ast.unparse(node)}`')

    def pure_call_in(self, ctx, cfi, args):
        self._cls_names = {n: s.cls.__name__ for n, s in ctx.store.items()}
        return self.pure_call(cfi, args)

    def call_expr(self, fi, node, ctx):
        f = self.eval(fi, node.func, ctx)
        if any(kw.arg is None for kw in node.keywords) or any(isinstance(a, ast.Starred) for a in node.args):
            raise NT('* / ** in a call')
        if isinstance(f, Ref) and getattr(_builtins, getattr(f.obj, '__name__', ''), None) is f.obj:
            return self.builtin(fi, f.obj.__name__, node, ctx)
        if isinstance(f, Ref) and isinstance(f.obj, types.FunctionType):
            cfi, recv = self.src.function(f.obj), None
        elif isinstance(f, Bound):
            cfi, recv = f.fi, f.recv
        else:
            raise NT(f'call of `{ast.unparse(node.func)}`')
        args = [self.eval(fi, a, ctx) for a in node.args]
        kwargs = {kw.arg: self.eval(fi, kw.value, ctx) for kw in node.keywords}
        env = self.bind_params(cfi, ([recv] if recv is not None else []) + args, kwargs)
        vals = [env[x.arg] for x in cfi.node.args.args]
        if self.mutates(cfi):
            e = NT(f'{cfi.qual} updates its arguments and is called inside an expression')
            e.impure = True
            raise e
        name = self.pure_call_in(ctx, cfi, vals)
        parts = [ctx.store[v.name].lean() if isinstance(v, O) else lean_of(v) for v in vals]
        return E('(' + ' '.join([name] + parts) + ')')

    def mutates(self, cfi):
        """syntactic: the body assigns an attribute or contains a call in statement position"""
        for n in ast.walk(cfi.node):
            if isinstance(n, (ast.Assign, ast.AugAssign)):
                tg = n.targets if isinstance(n, ast.Assign) else [n.target]
                if any(isinstance(x, ast.Attribute) for x in tg):
                    return True
            if isinstance(n, ast.Expr) and isinstance(n.value, ast.Call):
                return True
        return False

    def builtin(self, fi, name, node, ctx):
        t = self.cur
        if node.keywords:
            raise NT(f'keyword arguments of {name}')
        if name == 'len' and len(node.args) == 1:
            v = self.eval(fi, node.args[0], ctx)
            if isinstance(v, O):
                if v.name not in t.get('lens', []) or ctx.store[v.name].base != f'p_{v.name}':
                    raise NT(f'len({v.name}) is not an input of this target')
                return E(f'(.int (Int.ofNat len_{v.name}))')
            return E(f'(pyLen {lean_of(v)})')
        if name in ('hasattr', 'getattr') and len(node.args) in (2, 3):
            o = self.eval(fi, node.args[0], ctx)
            a = self.eval(fi, node.args[1], ctx)
            if not (isinstance(a, K) and isinstance(a.v, str)):
                raise NT(f'{name} with a name that is not a constant')
            if name == 'hasattr' and len(node.args) == 2 and isinstance(o, O):
                return E(f'(pyHasAttr {ctx.store[o.name].lean()} {json.dumps(a.v)})')
            if name == 'getattr' and len(node.args) == 2 and isinstance(o, (O, OO)):
                return self.attribute(fi, o, a.v, ctx, node)
            if name == 'getattr' and len(node.args) == 3 and isinstance(o, O):
                if self.src.lookup_member(ctx.store[o.name].cls, None, a.v) is not None:
                    raise NT('getattr of a method')
                return E(f'(pyGetAttrD {ctx.store[o.name].lean()} {json.dumps(a.v)} {lean_of(self.eval(fi, node.args[2], ctx))})')
            raise NT(f'`{ast.unparse(node)}`')
        args = [self.eval(fi, a, ctx) for a in node.args]
        if name == 'isinstance' and len(args) == 2 and isinstance(args[0], (O, OO)) and isinstance(args[1], Ref) and isinstance(args[1].obj, type):
            r = self.opred(('isinstance', args[0].name, args[1].obj.__name__))
            if r is None:
                raise NT(f'`{ast.unparse(node)}` is not an input of this target')
            return r
        if name == 'isinstance' and len(args) == 2 and isinstance(args[1], Ref) and args[1].obj is str and isinstance(args[0], (K, E)):
            return E(f'(pyIsStr {lean_of(args[0])})')
        if name == 'str' and len(args) == 1 and isinstance(args[0], O) and args[0].name in t.get('avalues', {}):
            return E(t['avalues'][args[0].name])
        if name == 'abs' and len(args) == 1:
            if isinstance(args[0], K) and isinstance(args[0].v, int): return K(abs(args[0].v))
            return E(f'(pyAbs {lean_of(args[0])})')
        if name in ('min', 'max') and len(args) >= 2:
            fn = 'pyMin' if name == 'min' else 'pyMax'
            out = lean_of(args[0])
            for a in args[1:]:
                out = f'({fn} {out} {lean_of(a)})'
            return E(out)
        if name == 'isinstance' and len(args) == 2 and isinstance(args[1], Ref) and args[1].obj is int:
            return E(f'(pyIsInt {lean_of(args[0])})')
        if name == 'bool' and len(args) == 1:
            return E(f'(pyNot (pyNot {lean_of(args[0])}))')
        raise NT(f'builtin call `{ast.unparse(node)[:60]}`')

    def compare(self, fi, node, ctx):
        left = self.eval(fi, node.left, ctx)
        parts = []
        for op, rn in zip(node.ops, node.comparators):
            if isinstance(op, (ast.In, ast.NotIn)):
                if not isinstance(rn, (ast.List, ast.Tuple)):
                    raise NT('`in` over something that is not a literal list')
                items = [self.eval(fi, e, ctx) for e in rn.elts]
                lst = '[' + ', '.join(lean_of(x) for x in items) + ']'
                parts.append(E(f"({'pyIn' if isinstance(op, ast.In) else 'pyNotIn'} {lean_of(left)} {lst})"))
                left = None
                continue
            right = self.eval(fi, rn, ctx)
            if isinstance(op, (ast.Is, ast.IsNot)):
                neg = isinstance(op, ast.IsNot)
                single = lambda x: isinstance(x, K) and (x.v is None or isinstance(x.v, bool))
                if isinstance(left, OO) and single(right) and right.v is None:
                    r = E(f'(optIsNone p_{left.name})')
                    r = E(f'(pyNot {r.lean})') if neg else r
                elif isinstance(left, O) and single(right) and right.v is None and self.opred(('isnone', left.name)) is not None:
                    r = self.opred(('isnone', left.name))
                    r = E(f'(pyNot {r.lean})', total=True) if neg else r
                elif isinstance(left, O) and isinstance(right, O):
                    r = self.opred(('same',) + tuple(sorted((left.name, right.name))))
                    if r is None:
                        raise NT(f'identity of `{left.name}` and `{right.name}` is not an input of this target')
                    r = E(f'(pyNot {r.lean})', total=True) if neg else r
                elif isinstance(left, O) and single(right):
                    r = K(neg)
                elif single(left) and single(right):
                    r = K((left.v is right.v) != neg)
                elif single(left) or single(right):
                    r = E(f"({'pyIsNot' if neg else 'pyIs'} {lean_of(left)} {lean_of(right)})")
                else:
                    raise NT(f'`{ast.unparse(node)}`: `is` is only supported against None, True, False')
            elif type(op) in CMP:
                if isinstance(left, K) and isinstance(right, K):
                    try:
                        r = K(PYCMP[type(op)](left.v, right.v))
                    except Exception:
                        raise NT(f'`{ast.unparse(node)}` raises')
                else:
                    r = E(f'({CMP[type(op)]} {lean_of(left)} {lean_of(right)})')
            else:
                raise NT(f'comparison `{ast.unparse(node)}`')
            parts.append(r)
            left = right
        return self.boolop(True, parts)

    def boolop(self, is_and, vals):
        """right-nested and/or with constant folding (Python returns an operand)"""
        out = vals[-1]
        for v in reversed(vals[:-1]):
            if isinstance(v, K):
                if bool(v.v) == is_and:
                    continue          # `True and x` is x, `False or x` is x
                out = v               # `False and x` is False, `True or x` is True
            else:
                out = E(f"({'pyAnd' if is_and else 'pyOr'} {lean_of(v)} {lean_of(out)})")
        return out

    def binop(self, op, a, b):
        if not isinstance(op, (ast.Add, ast.Sub)):
            raise NT(f'binary operator {type(op).__name__}')
        if isinstance(a, K) and isinstance(b, K) and all(isinstance(x.v, int) for x in (a, b)):
            return K(a.v + b.v if isinstance(op, ast.Add) else a.v - b.v)
        if isinstance(op, ast.Add) and isinstance(a, K) and isinstance(b, K) and all(isinstance(x.v, str) for x in (a, b)):
            return K(a.v + b.v)
        return E(f"({'pyAdd' if isinstance(op, ast.Add) else 'pySub'} {lean_of(a)} {lean_of(b)})")

    # ------------------------------------------------------------------ driver
    def run_target(self, t):
        name = t['name']
        binders, ty = lean_signature(t)
        rec = {'python': f"{t['module']}:{self._qual(t)}" + (' [loop body]' if t.get('slice') else ''), 'model': t.get('model', ''),
               'ties': t.get('ties', []), 'status': 'fallback', 'reason': '', 'source_hash': None, 'source': None}
        self.status[name] = rec
        saved = (getattr(self, 'cur', None), getattr(self, 'leaves', 0))
        try:
            fi = self.funcinfo_of_target(t)
            rec['source_hash'] = src_hash(fi.node)
            rec['source'] = f"{os.path.relpath(fi.mod.__file__, self.src.repo)}:{fi.node.lineno}"
            self.in_progress.add(fi.key)
            try:
                body = self.translate_def(fi, t)
            finally:
                self.in_progress.discard(fi.key)
            rec['status'], rec['reason'] = 'translated', ''
            rec['paths'] = self.leaves
            text = (f"/-- `{self._qual(t)}` ({t['module']}) — translated from the source -/\n"
                    f"@[simp] def {name} {binders} : {ty} :=\n{body}")
        except NT as e:
            rec['reason'] = str(e)
            text = None
        except RecursionError:
            rec['reason'] = 'internal: recursion limit'
            text = None
        except Exception as e:   # a translator failure must never make a check fail by itself
            rec['reason'] = f'internal: {type(e).__name__}: {e}'
            rec['traceback'] = traceback.format_exc()[-600:]
            text = None
        finally:
            self.cur, self.leaves = saved
        if text is None:
            text = (f"/-- `{self._qual(t)}` ({t['module']}) — NOT TRANSLATED ({rec['reason'][:140]}): the model's own function,\n"
                    f"    covered by the differential correspondence only -/\n"
                    f"@[simp] def {name} {binders} : {ty} :=\n  AY.Tie.Fallback.{name} {' '.join(arg_names(t))}")
        self.emit(name, text)

    def run(self):
        self.status, self.helpers = {}, {}
        self._cls_names = {}
        for t in TARGETS:
            if t['name'] not in self.status:
                self.run_target(t)
        lines = ["/- GENERATED by harness/py2lean.py from the Python sources of the working tree under verification — do not edit.",
                 "   One definition per target function (translated from its AST, or, when the function is outside the",
                 "   translatable subset, the model's own function through AY.Tie.Fallback). -/",
                 "import AY.Tie.PyVal", "import AY.Tie.Fallback", "set_option linter.unusedVariables false",
                 "namespace AY.Translated", "open AY.Py", ""]
        for n in self.order:
            lines += [self.defs[n], ""]
        lines += ["/-- which targets were translated (`true`) and which are the model's own function (`false`) -/",
                  "def status : List (String × Bool) := [" + ', '.join(
                      f'({json.dumps(t["name"])}, {"true" if self.status[t["name"]]["status"] == "translated" else "false"})' for t in TARGETS) + "]",
                  "", "end AY.Translated", ""]
        report = {'generator': 'harness/py2lean.py', 'functions': {t['name']: self.status[t['name']] for t in TARGETS},
                  'helpers': self.helpers}
        return '\n'.join(lines), report


def src_hash(node):
    return hashlib.sha1(ast.dump(node, include_attributes=False).encode()).hexdigest()[:16]


def write_if_changed(path, text):
    old = open(path).read() if os.path.exists(path) else None
    if old != text:
        os.makedirs(os.path.dirname(path), exist_ok=True)
        with open(path, 'w') as f:
            f.write(text)
        return True
    return False


def fallback_everything(reason):
    """the generated file when the translator itself cannot run"""
    tr = Translator.__new__(Translator)
    tr.defs, tr.order, tr.status, tr.helpers = {}, [], {}, {}
    lines = ["/- GENERATED by harness/py2lean.py — the translator could not run; every target is the model's own function. -/",
             "import AY.Tie.PyVal", "import AY.Tie.Fallback", "set_option linter.unusedVariables false",
             "namespace AY.Translated", "open AY.Py", ""]
    for t in TARGETS:
        binders, ty = lean_signature(t)
        lines += [f"@[simp] def {t['name']} {binders} : {ty} :=\n  AY.Tie.Fallback.{t['name']} {' '.join(arg_names(t))}", ""]
        tr.status[t['name']] = {'python': f"{t['module']}:{Translator._qual(t)}", 'model': t.get('model', ''), 'ties': t.get('ties', []),
                                'status': 'fallback',
                                'reason': reason, 'source_hash': None, 'source': None}
    lines += ["def status : List (String × Bool) := [" + ', '.join(f'({json.dumps(t["name"])}, false)' for t in TARGETS) + "]",
              "", "end AY.Translated", ""]
    return '\n'.join(lines), {'generator': 'harness/py2lean.py', 'functions': tr.status, 'helpers': {}}


def main(out_dir=None):
    try:
        from common import REPO, VERIF
    except Exception as e:     # the package does not even import: nothing to translate
        REPO, VERIF = os.environ.get('AY_REPO', '/repo'), os.path.dirname(HERE)
        text, report = fallback_everything(f'the package cannot be imported: {type(e).__name__}: {e}')
    else:
        try:
            text, report = Translator(REPO).run()
        except Exception as e:
            text, report = fallback_everything(f'internal: {type(e).__name__}: {e}')
    out_dir = out_dir or os.path.join(VERIF, 'lean', 'AY', 'Gen')
    ch1 = write_if_changed(os.path.join(out_dir, 'Translated.lean'), text)
    ch2 = write_if_changed(os.path.join(out_dir, 'translated_report.json'), json.dumps(report, indent=1, sort_keys=True) + '\n')
    fb = [n for n, r in report['functions'].items() if r['status'] != 'translated']
    print(f"Translated.lean {'regenerated (changed)' if ch1 else 'unchanged'}: {len(report['functions']) - len(fb)} translated, "
          f"{len(fb)} fallback" + (': ' + ', '.join(f"{n} ({report['functions'][n]['reason'][:60]})" for n in fb) if fb else ''))
    return 0


if __name__ == '__main__':
    try:
        sys.exit(main(sys.argv[1] if len(sys.argv) > 1 else None))
    except Exception:      # never a reason for a check to fail
        traceback.print_exc()
        sys.exit(0)
