"""Check framework: proof obligations (lake build + axiom audit), correspondence, property oracle,
failing-input search, known findings, evidence and the VIOLATION / KNOWN-FINDING protocol."""
import re
import os, sys, json, time, re, subprocess, random, hashlib, importlib, traceback, glob

VERIF = os.path.dirname(os.path.dirname(os.path.abspath(__file__)))
LEAN = os.path.join(VERIF, 'lean')
EVID = os.path.join(VERIF, 'evidence')
if os.environ.get('AY_REPO'):      # a scratch repository (seeded change, refactoring, reverted fix): never touch the committed evidence
    EVID = os.path.join(os.environ['AY_REPO'], '.verif-evidence')
REPLAYS = os.path.join(EVID, 'replays')
ALLOWED_AXIOMS = {'propext', 'Classical.choice', 'Quot.sound'}
FORBIDDEN = re.compile(r'\b(sorry|admit|native_decide|bv_decide|implemented_by|unsafe\s|axiom\s|maxHeartbeats\s+0)\b')
PY = '/venv/bin/python'

TRUSTED_BASE = [
    "Lean 4.33 kernel and elaborator; axioms allowed: propext, Classical.choice, Quot.sound (audited per theorem on every run)",
    "the hand-written Lean model under lean/AY/Model and the statements in lean/AY/Props (specs are part of the trusted base); "
    "NOT trusted any more as hand-written: the model's small decision functions ePrio eDel eNew eSafe hasPrio childKw updFlags flagsChanged "
    "mergeSafe replaceSelfFlags replaceOtherFlags leafRule validateIndex maybePromote, which the TIE_* theorems of "
    "lean/AY/Tie/TranslatedEq.lean prove equal, for all inputs, to the functions translated from the Python source "
    "(a function reported as `fallback` in tie_theorems is still validated by sampling only)",
    "harness/gen_tables.py (regenerates lean/AY/Gen/Tables.lean from /repo on every run)",
    "harness/py2lean.py (translates the target functions from the AST of the working tree into lean/AY/Gen/Translated.lean on every run), "
    "the Python value universe lean/AY/Tie/PyVal.lean (pyAnd pyOr pyIs pyEq pyLt ... must mirror Python) and the encoding of "
    "flags/kinds into it, lean/AY/Tie/Encode.lean",
    "the correspondence harness: generators, canonicalisers, JSON codec on both sides, the compiled driver lean/.lake/build/bin/ayd",
    "modelled, not verified: PyYAML (scanner/composer/resolver/emitter), CPython exec/eval and call binding, os.path/pathlib, threading.local, copy/pickle protocols, object identity",
]

class InfraError(Exception):
    pass

def sh(cmd, cwd=None, timeout=1800, env=None):
    p = subprocess.run(cmd, cwd=cwd, stdout=subprocess.PIPE, stderr=subprocess.STDOUT, timeout=timeout, env=env)
    return p.returncode, p.stdout.decode(errors='replace')

# ------------------------------------------------------------------------------------------------
# build / audit
# ------------------------------------------------------------------------------------------------

def gen_tables():
    rc, out = sh([PY, os.path.join(VERIF, 'harness', 'gen_tables.py')], cwd=VERIF)
    if rc != 0:
        raise InfraError('gen_tables failed:\n' + out[-2000:])
    return out

TIE_MODULE = 'AY.Tie.TranslatedEq'
TIE_FILE = os.path.join(LEAN, 'AY', 'Tie', 'TranslatedEq.lean')
TIE_REPORT = os.path.join(LEAN, 'AY', 'Gen', 'translated_report.json')
# the properties whose model uses the translated decision functions (the merge family)
TIE_PROPS = {'C01', 'C02', 'C03', 'C04', 'C05', 'C07', 'C08', 'C13', 'C15', 'C16', 'C18', 'C19'}

def gen_translated():
    """run the Python -> Lean translator; a translator failure never fails a check: the generated file then holds the
    model's own functions (fallback) and the TIE theorems hold trivially"""
    if os.environ.get('VERIF_NO_TIE'):
        return 'skipped (VERIF_NO_TIE: tooling runs that only look for failing inputs)'
    try:
        rc, out = sh([PY, os.path.join(VERIF, 'harness', 'py2lean.py')], cwd=VERIF, timeout=300)
    except Exception as e:
        rc, out = 1, f'{type(e).__name__}: {e}'
    gen = os.path.join(LEAN, 'AY', 'Gen', 'Translated.lean')
    if rc != 0 or not os.path.exists(gen) or not os.path.exists(TIE_REPORT):
        try:
            sys.path.insert(0, os.path.join(VERIF, 'harness'))
            import py2lean
            text, report = py2lean.fallback_everything('the translator did not run: ' + out[-200:])
            py2lean.write_if_changed(gen, text)
            py2lean.write_if_changed(TIE_REPORT, json.dumps(report, indent=1, sort_keys=True) + '\n')
        except Exception:
            pass
    return out

def lake_build(targets, timeout=3000):
    return sh(['lake', 'build'] + list(targets), cwd=LEAN, timeout=timeout)

def strip_comments(text):
    text = re.sub(r'/-.*?-/', ' ', text, flags=re.S)
    text = re.sub(r'--.*', ' ', text)
    return text

def forbidden_tokens():
    hits = []
    for f in glob.glob(os.path.join(LEAN, 'AY', '**', '*.lean'), recursive=True) + [os.path.join(LEAN, 'Main.lean')]:
        body = strip_comments(open(f).read())
        body = re.sub(r'"(\\.|[^"\\])*"', '""', body)
        for m in FORBIDDEN.finditer(body):
            if m.group(1).startswith('unsafe') and 'unsafeE' in body[m.start():m.start() + 8]:
                continue
            hits.append(f'{os.path.relpath(f, LEAN)}: {m.group(0).strip()}')
    return hits

def prop_modules(prop_id):
    """Lean modules holding the property theorems of a property: Props/Cxx.lean plus any Props/Cxx_*.lean"""
    d = os.path.join(LEAN, 'AY', 'Props')
    files = [os.path.join(d, f'{prop_id}.lean')] + sorted(glob.glob(os.path.join(d, f'{prop_id}_*.lean')))
    return [(f'AY.Props.{os.path.basename(f)[:-5]}', f) for f in files if os.path.exists(f)]

def theorems_of(prop_id):
    """names of the property theorems registered for a property: every `theorem Cxx_*` in its Props modules"""
    names = []
    for _, f in prop_modules(prop_id):
        body = strip_comments(open(f).read())
        names += re.findall(r'^theorem\s+(' + prop_id + r'_\w+)', body, flags=re.M)
    return names

def audit(prop_id, names):
    """#print axioms for every theorem; returns {name: (ok, axioms or error)}"""
    if not names:
        return {}
    d = os.path.join(LEAN, '.lake', 'audit')
    os.makedirs(d, exist_ok=True)
    f = os.path.join(d, f'Audit{prop_id}.lean')
    with open(f, 'w') as fh:
        for m, _ in prop_modules(prop_id):
            fh.write(f'import {m}\n')
        fh.write('open AY\n')
        for n in names:
            fh.write(f'#print axioms {n}\n')
    rc, out = sh(['lake', 'env', 'lean', f], cwd=LEAN, timeout=900)
    if rc != 0 and 'environment already contains' in out:
        # two theorem modules of this property cannot be imported together (their lemma files define helpers
        # of the same name, e.g. Model/Copy.lean and Lemmas/Assoc.lean both define `AY.keysNodup`):
        # audit the modules one by one
        rc, out = 0, ''
        for m, path in prop_modules(prop_id):
            own = re.findall(r'^theorem\s+(' + prop_id + r'_\w+)', strip_comments(open(path).read()), flags=re.M)
            own = [n for n in own if n in names]
            if not own:
                continue
            f1 = os.path.join(d, f'Audit{m.split(".")[-1]}.lean')
            with open(f1, 'w') as fh:
                fh.write(f'import {m}\nopen AY\n' + ''.join(f'#print axioms {n}\n' for n in own))
            rc1, out1 = sh(['lake', 'env', 'lean', f1], cwd=LEAN, timeout=900)
            rc, out = rc or rc1, out + out1
    res = {}
    # output: "'AY.C02_x' depends on axioms: [propext, ...]" or "... does not depend on any axioms"
    chunks = re.split(r"(?m)^'", out)
    for n in names:
        res[n] = (False, 'no audit output')
    for ch in chunks:
        m = re.match(r"([\w.]+)' (depends on axioms: \[(.*?)\]|does not depend on any axioms)", ch, flags=re.S)
        if not m:
            continue
        short = m.group(1).split('.')[-1]
        axs = [a.strip() for a in (m.group(3) or '').replace('\n', ' ').split(',') if a.strip()]
        if short in res:
            bad = [a for a in axs if a not in ALLOWED_AXIOMS]
            res[short] = (not bad, axs)
    if rc != 0 and all(not v[0] for v in res.values()):
        for n in names:
            res[n] = (False, 'audit failed: ' + out[-300:])
    return res

def proof_obligations(prop_id):
    """build the property's theorem module and audit it.
    returns dict(obligations, discharged, failed=[...], detail=...)"""
    names = theorems_of(prop_id)
    info = {'obligations': len(names), 'discharged': 0, 'failed': [], 'theorems': {}, 'build_ok': True}
    if not names:
        info['failed'].append('no theorem registered')
        return info
    rc, out = lake_build([m for m, _ in prop_modules(prop_id)])
    if rc != 0:
        info['build_ok'] = False
        errs = [l for l in out.splitlines() if 'error' in l][:8]
        info['failed'] = [f'lake build AY.Props.{prop_id} failed'] + errs
        info['build_log'] = out[-3000:]
        try:
            add_tie(prop_id, info)
        except InfraError:
            pass
        return info
    toks = forbidden_tokens()
    if toks:
        info['failed'].append('forbidden tokens: ' + '; '.join(toks[:5]))
    aud = audit(prop_id, names)
    for n in names:
        ok, axs = aud.get(n, (False, 'missing'))
        info['theorems'][n] = axs
        if ok and not toks:
            info['discharged'] += 1
        elif not ok:
            info['failed'].append(f'{n}: {axs}')
    add_tie(prop_id, info, toks)
    return info

def add_tie(prop_id, info, toks=()):
    """the TIE_* theorems are proof obligations of every property whose model uses the translated functions"""
    if prop_id not in TIE_PROPS or os.environ.get('VERIF_NO_TIE'):
        return
    tie = tie_obligations()
    info['tie'] = tie
    info['obligations'] += tie['obligations']
    info['discharged'] += 0 if toks else tie['discharged']
    info['failed'] += tie['failed']

def tie_theorems():
    body = strip_comments(open(TIE_FILE).read())
    return re.findall(r'^theorem\s+(TIE_\w+)', body, flags=re.M)

def parse_axioms(out, names):
    res = {n: (False, 'no audit output') for n in names}
    for ch in re.split(r"(?m)^'", out):
        m = re.match(r"([\w.]+)' (depends on axioms: \[(.*?)\]|does not depend on any axioms)", ch, flags=re.S)
        if not m:
            continue
        short = m.group(1).split('.')[-1]
        axs = [a.strip() for a in (m.group(3) or '').replace('\n', ' ').split(',') if a.strip()]
        if short in res:
            res[short] = (not [a for a in axs if a not in ALLOWED_AXIOMS], axs)
    return res

def tie_obligations():
    """build AY.Tie.TranslatedEq (model function = function translated from the Python source, for all inputs) and audit
    every TIE_* theorem. When the module does not build, the file is re-checked with the audit appended, so that
    the theorems that fail are named (an erroneous proof shows up as `sorryAx`) and the others still count."""
    names = tie_theorems()
    try:
        report = json.load(open(TIE_REPORT))
    except Exception:
        report = {'functions': {}}
    funcs = report.get('functions', {})
    by_thm = {}
    for fn, r in funcs.items():
        for tname in r.get('ties', []):
            by_thm.setdefault(tname, []).append(fn)
    info = {'obligations': len(names), 'discharged': 0, 'failed': [], 'theorems': {}, 'build_ok': True,
            'functions': {fn: {'status': r.get('status'), 'reason': r.get('reason', ''), 'python': r.get('python'),
                               'source_hash': r.get('source_hash')} for fn, r in funcs.items()}}
    d = os.path.join(LEAN, '.lake', 'audit')
    os.makedirs(d, exist_ok=True)
    try:
        rc, out = lake_build([TIE_MODULE], timeout=1200)
    except subprocess.TimeoutExpired:      # proofs that do not check in time are failing obligations, not an infrastructure error
        rc, out = 1, 'timeout'
    if rc == 0:
        f = os.path.join(d, 'AuditTIE.lean')
        with open(f, 'w') as fh:
            fh.write(f'import {TIE_MODULE}\nopen AY\n' + ''.join(f'#print axioms {n}\n' for n in names))
        rc2, out2 = sh(['lake', 'env', 'lean', f], cwd=LEAN, timeout=900)
        aud = parse_axioms(out2, names)
        errors = {}
    else:
        info['build_ok'] = False
        rc3, out3 = lake_build(['AY.Gen.Translated', 'AY.Tie.Encode'])
        if rc3 != 0:
            raise InfraError('the prelude of the translated functions does not build:\n' + out3[-2000:])
        f = os.path.join(d, 'AuditTIEInline.lean')
        src = open(TIE_FILE).read()
        with open(f, 'w') as fh:
            fh.write(src + '\nopen AY\n' + ''.join(f'#print axioms {n}\n' for n in names))
        try:
            rc2, out2 = sh(['lake', 'env', 'lean', '-DmaxErrors=100000', f], cwd=LEAN, timeout=1800)
        except subprocess.TimeoutExpired:
            rc2, out2 = 1, ''
        aud = parse_axioms(out2, names)
        # attribute the error messages to theorems by line
        starts = [(m.start(), m.group(1)) for m in re.finditer(r'(?m)^theorem\s+(TIE_\w+)', src)]
        line_of = lambda pos: src.count('\n', 0, pos) + 1
        starts = [(line_of(p), n) for p, n in starts]
        errors = {}
        for m in re.finditer(r'AuditTIEInline\.lean:(\d+):\d+: error:? ?(.*)', out2):
            ln = int(m.group(1))
            owner = None
            for l0, n in starts:
                if l0 - 3 <= ln:
                    owner = n
            if owner:
                errors.setdefault(owner, m.group(2)[:160])
    for n in names:
        ok, axs = aud.get(n, (False, 'missing'))
        fns = by_thm.get(n, [])
        mode = 'fallback' if any(funcs.get(fn, {}).get('status') != 'translated' for fn in fns) else 'translated'
        info['theorems'][n] = {'axioms': axs, 'status': 'discharged' if ok else 'failed', 'functions': fns, 'mode': mode}
        if ok:
            info['discharged'] += 1
        else:
            info['failed'].append(f'{n}: {errors.get(n) or axs}')
    return info

def leanchecker(prop_id):
    """independent re-check of the compiled property module (thorough tier)"""
    mods = [m for m, _ in prop_modules(prop_id)]
    if prop_id in TIE_PROPS and os.path.exists(os.path.join(LEAN, '.lake', 'build', 'lib', 'lean', 'AY', 'Tie', 'TranslatedEq.olean')):
        mods.append(TIE_MODULE)
    rc, out = sh(['lake', 'env', 'leanchecker'] + mods, cwd=LEAN, timeout=1800)
    return rc == 0, out[-500:]

def setup():
    t0 = time.time()
    gen_tables()
    gen_translated()
    rc, out = lake_build(['AY', 'ayd'])
    if rc != 0:
        # the property modules may be broken by a change of the generated tables; the driver must still build
        rc2, out2 = lake_build(['ayd'])
        if rc2 != 0:
            raise InfraError('lake build ayd failed:\n' + out2[-3000:])
    return time.time() - t0

# ------------------------------------------------------------------------------------------------
# known findings
# ------------------------------------------------------------------------------------------------

def load_known():
    f = os.path.join(VERIF, 'KNOWN_FINDINGS')
    out = []
    if os.path.exists(f):
        for line in open(f):
            line = line.strip()
            if line.startswith('finding:'):
                m = re.match(r'finding:\s+property=(\S+)\s+id=(\S+)\s+key=(\S+)\s*(.*)', line)
                if m:
                    out.append({'property': m.group(1), 'id': m.group(2), 'key': m.group(3), 'what': m.group(4)})
    return out

# ------------------------------------------------------------------------------------------------
# the generic check
# ------------------------------------------------------------------------------------------------

class Prop:
    """Interface of a property module (harness/props/cXX.py). Override what applies."""
    ID = None
    RULE = ''
    QUICK_N = 300
    THOROUGH_N = 15000
    def corpus(self): return []
    def gen_cases(self, rng, n, tier): raise NotImplementedError
    def impl(self, case): raise NotImplementedError          # observable of the implementation
    def model_requests(self, case): return []                # driver requests for this case
    def model_obs(self, case, answers): return None          # observable of the model
    def compare(self, case, impl_obs, model_obs): return None   # None | 'SKIP' | text
    def oracle(self, case, impl_obs, model_ans): return None    # None | text (property violated on the implementation)
    def nontrivial(self, case, impl_obs): return True
    def shrink(self, case): return []
    def finding_key(self, case, desc): return None           # key into KNOWN_FINDINGS, or None
    def features(self, case, impl_obs): return []            # coverage features for the histogram
    def render(self, case): return case                      # human readable form for samples/replays

def saved_corpus(pid):
    """shrunk inputs of past failures (kept from the trials of seeded changes and from repaired defects): they run first on every
    run, whatever the seed; on the unchanged tree every one of them is an input on which the property holds"""
    d = os.path.join(VERIF, 'harness', 'corpus', pid)
    out = []
    if os.path.isdir(d):
        for f in sorted(os.listdir(d)):
            if f.endswith('.json'):
                try:
                    kept = json.load(open(os.path.join(d, f)))
                    out.append(kept['case'])
                    if kept.get('unshrunk') is not None and kept['unshrunk'] != kept['case']:
                        out.append(kept['unshrunk'])
                except Exception:
                    pass
    return out

def case_digest(case):
    return hashlib.sha1(json.dumps(case, sort_keys=True, default=str).encode()).hexdigest()[:16]

def evaluate_cases(prop, cases):
    """run implementation, model, comparison and oracle; returns list of result dicts"""
    from common import run_model
    impl_obs = []
    for c in cases:
        try:
            impl_obs.append(prop.impl(c))
        except Exception as e:  # harness failure on one case must not masquerade as a property failure
            impl_obs.append({'harness_error': f'{type(e).__name__}: {e}', 'tb': traceback.format_exc()[-800:]})
    reqs, spans = [], []
    for c in cases:
        r = prop.model_requests(c)
        spans.append((len(reqs), len(reqs) + len(r)))
        reqs += r
    answers = run_model(reqs) if reqs else []
    out = []
    for c, io, (a, b) in zip(cases, impl_obs, spans):
        ans = answers[a:b]
        res = {'case': c, 'impl': io, 'disagree': None, 'violation': None, 'skipped': False}
        if isinstance(io, dict) and 'harness_error' in io:
            res['harness_error'] = io['harness_error'] + '\n' + io.get('tb', '')
            out.append(res)
            continue
        try:
            mo = prop.model_obs(c, ans)
            d = prop.compare(c, io, mo) if mo is not None else None
            if d == 'SKIP':
                res['skipped'] = True
            elif d and d.startswith('KNOWN:'):
                res['known'] = d[6:]
            elif d:
                res['disagree'] = d
            res['violation'] = prop.oracle(c, io, ans)
        except Exception as e:
            res['harness_error'] = f'{type(e).__name__}: {e}\n' + traceback.format_exc()[-800:]
        out.append(res)
    return out

def shrink_case(prop, case, pred, budget=150):
    """greedy shrinking: keep the smallest case for which pred(case) is still true"""
    cur = case
    steps = 0
    improved = True
    while improved and steps < budget:
        improved = False
        for cand in prop.shrink(cur):
            steps += 1
            if steps > budget:
                break
            try:
                if pred(cand):
                    cur = cand
                    improved = True
                    break
            except Exception:
                continue
    return cur

def write_replay(prop_id, seed, kind, payload):
    os.makedirs(REPLAYS, exist_ok=True)
    path = os.path.join(REPLAYS, f'{prop_id}-{seed}-{kind}.json')
    with open(path, 'w') as f:
        json.dump(payload, f, indent=1, default=str)
    return os.path.relpath(path, VERIF)

def run_check(prop, tier, seed, replay=None):
    t0 = time.time()
    pid = prop.ID
    os.makedirs(EVID, exist_ok=True)
    try:
        # the generated Lean files (tables, translated functions) live in the one Lean project: regeneration, build and audit of one
        # run are not interleaved with those of another (checks may run in parallel; trials of seeded changes run against other trees)
        import fcntl
        os.makedirs(os.path.join(LEAN, '.lake'), exist_ok=True)
        with open(os.path.join(LEAN, '.lake', 'gen.lock'), 'w') as lk:
            fcntl.flock(lk, fcntl.LOCK_EX)
            try:
                setup()
                obl = proof_obligations(pid)
            finally:
                fcntl.flock(lk, fcntl.LOCK_UN)
    except InfraError as e:
        print(f'INFRA {pid}: {e}', file=sys.stderr)
        return 2
    if tier == 'thorough' and obl['build_ok'] and obl['obligations']:
        ok, out = leanchecker(pid)
        obl['leanchecker'] = 'ok' if ok else out
        if not ok:
            obl['failed'].append('leanchecker rejected the compiled module: ' + out[-200:])
            obl['discharged'] = 0
    rng = random.Random(f'{pid}-{seed}')
    n = prop.THOROUGH_N if tier == 'thorough' else prop.QUICK_N
    if replay:
        payload = json.load(open(replay))
        cases = [payload['case']] if 'case' in payload else []
    else:
        saved = saved_corpus(pid)
        cases = list(prop.corpus()) + saved + list(prop.gen_cases(rng, n, tier))
    results = evaluate_cases(prop, cases)
    if not replay:
        # a kept input that the harness can no longer run (its family changed shape since it was kept) is dropped, not an error
        old_ids = {id(c) for c in saved}
        results = [r for r in results if not (r.get('harness_error') and id(r['case']) in old_ids)]
    known = [k for k in load_known() if k['property'] == pid]
    harness_errors = [r for r in results if r.get('harness_error')]
    disagreements = [r for r in results if r['disagree']]
    violations = [r for r in results if r['violation']]
    known_hits, new_violations = {}, []

    def oracle_fails(c):
        rr = evaluate_cases(prop, [c])[0]
        return bool(rr['violation'])

    def triage(r):
        """a violating result: shrink it (keeping the same kind of failure), classify as known finding or new violation"""
        # a failure is attributed to a recorded finding only if model and implementation agree on that input: the model
        # reproduces the findings of the unchanged code, so a disagreement means this is something else
        key0 = prop.finding_key(r['case'], r['violation']) if not r.get('disagree') else None
        for k in known:
            if key0 is not None and k['key'] == key0:
                known_hits.setdefault(k['id'], (k, r['case'], r['violation']))   # a listed finding: no need to shrink
                return
        sig = lambda v: re.sub(r'[0-9]+', '#', str(v))[:32]        # the kind of failure: the start of its description, numbers aside
        sig0 = sig(r['violation'])
        def same_failure(c):
            rr = evaluate_cases(prop, [c])[0]
            return bool(rr['violation']) and sig(rr['violation']) == sig0 and \
                (prop.finding_key(c, rr['violation']) if not rr.get('disagree') else None) == key0
        small = shrink_case(prop, r['case'], same_failure) if r['violation'] else r['case']
        rr = evaluate_cases(prop, [small])[0]
        if not rr['violation']:
            small, rr = r['case'], r
        key = prop.finding_key(small, rr['violation']) if not rr.get('disagree') else None
        for k in known:
            if key is not None and k['key'] == key:
                known_hits.setdefault(k['id'], (k, small, rr['violation']))
                return
        rr['unshrunk_case'] = r['case']
        new_violations.append((small, rr))

    for r in violations:      # every failing case is classified; shrinking stops at the first one no recorded finding explains
        triage(r)
        if new_violations:
            break
    for r in results:
        if r.get('known'):
            for k in known:
                if k['id'] == r['known']:
                    known_hits.setdefault(k['id'], (k, r['case'], 'reported by the correspondence'))

    broken = []     # proof obligations / correspondence that no longer check
    if obl['failed'] or obl['discharged'] != obl['obligations'] or obl['obligations'] == 0:
        broken.append({'kind': 'proof-obligation', 'detail': obl['failed']})
    if disagreements:
        d0 = disagreements[0]
        small = shrink_case(prop, d0['case'], lambda c: bool(evaluate_cases(prop, [c])[0]['disagree']))
        broken.append({'kind': 'correspondence', 'detail': evaluate_cases(prop, [small])[0]['disagree'] or d0['disagree'],
                       'case': small, 'count': len(disagreements)})
    searched = 0
    if broken and not new_violations and not replay:
        # search the model and the implementation for a concrete failing input
        cand = [b['case'] for b in broken if 'case' in b] + [r['case'] for r in disagreements[:40]]
        extra = list(prop.gen_cases(random.Random(f'{pid}-{seed}-search'), n * (10 if tier == 'quick' else 3), tier))
        t_search = time.time()
        for chunk_start in range(0, len(cand + extra), 500):
            if time.time() - t_search > (90 if tier == 'quick' else 900):
                break
            chunk = (cand + extra)[chunk_start:chunk_start + 500]
            rs = evaluate_cases(prop, chunk)
            searched += len(chunk)
            vs = [r for r in rs if r['violation']]
            for r in vs[:10]:
                triage(r)
            if new_violations:
                break

    # ------------------------------------------------------------------ reporting
    exit_code = 0
    lines = []
    for kid, (k, c, desc) in known_hits.items():
        lines.append(f"KNOWN-FINDING: property={pid} {kid} {k['what']}")
    if new_violations:
        c, rr = new_violations[0]
        path = write_replay(pid, seed, 'violation', {'property': pid, 'kind': 'property-violation', 'case': c,
                            'rendered': prop.render(c), 'what': rr['violation'], 'impl': rr['impl'], 'broken': broken,
                            'unshrunk_case': rr.get('unshrunk_case')})
        lines.append(f'VIOLATION property={pid} replay={path}')
        exit_code = 1
    elif broken:
        path = write_replay(pid, seed, 'broken', {'property': pid, 'kind': 'no-failing-input-found', 'no_longer_checks': broken,
                            'searched_inputs': searched,
                            'case': next((b['case'] for b in broken if 'case' in b), None),
                            'rendered': next((prop.render(b['case']) for b in broken if 'case' in b), None)})
        lines.append(f'VIOLATION property={pid} replay={path} no-failing-input-found')
        exit_code = 1
    if harness_errors and exit_code == 0:
        print(f'INFRA {pid}: harness error on {len(harness_errors)} case(s): {harness_errors[0]["harness_error"][:1500]}', file=sys.stderr)
        exit_code = 2

    nontriv = set()
    feats = {}
    for r in results:
        if r.get('harness_error'):
            continue
        try:
            if prop.nontrivial(r['case'], r['impl']):
                nontriv.add(case_digest(r['case']))
            for f in prop.features(r['case'], r['impl']):
                feats[f] = feats.get(f, 0) + 1
        except Exception:
            pass
    samples = [prop.render(r['case']) for r in results[:1] + results[len(prop.corpus()):len(prop.corpus()) + 2]]
    ev = {
        'property_id': pid, 'tier': tier, 'seed': seed, 'level': 'proof',
        'coverage': {
            'obligations': obl['obligations'], 'discharged': obl['discharged'],
            'checker_cmd': f'cd lean && lake build AY.Props.{pid} && lake env lean .lake/audit/Audit{pid}.lean   # #print axioms per theorem'
                           + ('; /venv/bin/python ../harness/py2lean.py && lake build AY.Tie.TranslatedEq && lake env lean .lake/audit/AuditTIE.lean' if pid in TIE_PROPS else ''),
            'trusted_base': TRUSTED_BASE,
            'theorems': obl['theorems'],
            'tie_theorems': (obl.get('tie') or {}).get('theorems', {}),
            'tie_functions': (obl.get('tie') or {}).get('functions', {}),
            'leanchecker': obl.get('leanchecker', 'not run in the quick tier'),
            'evaluations': len(results), 'distinct_nontrivial': len(nontriv),
            'rule': prop.RULE,
            'samples': samples,
            'traces_validated_against_impl': sum(1 for r in results if not r['skipped'] and not r.get('harness_error')),
            'model_vs_impl_disagreements': len(disagreements),
            'skipped_outside_model_domain': sum(1 for r in results if r['skipped']),
            'oracle_violations': len(violations),
            'known_findings_seen': sorted(known_hits),
            'search_inputs_after_break': searched,
            'feature_histogram': dict(sorted(feats.items(), key=lambda kv: -kv[1])[:60]),
            'exhaustive': False,
        },
        'assumptions': getattr(prop, 'ASSUMPTIONS', []),
        'wall_s': round(time.time() - t0, 2),
        'violations': len(new_violations) + (1 if broken and not new_violations else 0),
    }
    with open(os.path.join(EVID, f'{pid}.json'), 'w') as f:
        json.dump(ev, f, indent=1, default=str)
    for l in lines:
        print(l)
    print(f'{pid} {tier} seed={seed}: obligations {obl["discharged"]}/{obl["obligations"]}, cases {len(results)}, '
          f'disagreements {len(disagreements)}, oracle violations {len(violations)}, known {sorted(known_hits)}, '
          f'{ev["wall_s"]}s -> exit {exit_code}')
    return exit_code

def main(argv):
    import argparse
    ap = argparse.ArgumentParser()
    ap.add_argument('prop', nargs='?')
    ap.add_argument('--tier', default=os.environ.get('VERIF_TIER', 'quick'))
    ap.add_argument('--setup', action='store_true')
    ap.add_argument('--replay')
    a = ap.parse_args(argv)
    if a.setup:
        try:
            dt = setup()
            rc, out = lake_build(['AY'])
            print(f'setup ok in {dt:.1f}s' + ('' if rc == 0 else ' (some property modules do not build)'))
            return 0
        except InfraError as e:
            print(e, file=sys.stderr)
            return 2
    seed = int(os.environ.get('VERIF_SEED', '0') or 0)
    sys.path.insert(0, os.path.join(VERIF, 'harness'))
    try:
        mod = importlib.import_module(f'props.{a.prop.lower()}')
    except Exception:
        traceback.print_exc()
        return 2
    prop = mod.PROP
    try:
        return run_check(prop, a.tier if a.tier in ('quick', 'thorough') else 'quick', seed, a.replay)
    except subprocess.TimeoutExpired as e:
        print(f'INFRA timeout: {e}', file=sys.stderr)
        return 2
    except Exception:
        traceback.print_exc()
        return 2

if __name__ == '__main__':
    sys.exit(main(sys.argv[1:]))
