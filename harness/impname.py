"""Family `impname` of C13: target resolution `awesomeyaml.utils.import_name` against AY.Model.ImportName (driver op
`importName`).

A case: {'kind': 'impname', 'world': {dotted module name: modspec}, 'names': [symbol...]}.
  modspec = {'pkg': bool, 'attrs': [[name, valspec]...], 'raise': None | 'ImportError' | 'ModuleNotFoundError' | 'RuntimeError',
             'falsy': bool, 'imports': [submodule element...], 'rename': None | str}
  valspec = {'t': 'obj' | 'cls' | 'func' | 'none' | 'zero', 'name': str?, 'attrs': [[name, valspec]...]?}
The world is written as REAL files into a fresh temp directory which is put first on sys.path (packages with `__init__.py`
defining attributes, submodules, a submodule and an attribute of the same name, modules that raise on import, a package
object whose bool() is False, a module that changes its `__name__`, top-level modules named like builtins / like classes
of other modules).  Every symbol is resolved by the real `import_name` from a purged import state.

What the model is given (the tables of the request) is the world AFTER the call, tabulated in two stages:
  A. immediately after the call, BEFORE any other import: for every module of the world that is in sys.modules and every
     object reachable from them through the elements of the symbol: `__name__`, bool(), getattr for every element.
     (`import_name` performs all its imports before its first getattr, so every getattr it made saw exactly this state;
     importing `pkg.sub` has set the attribute `sub` of `pkg` by then.)
  B. then `importlib.import_module` is probed for every absolute name the model can ask for (the first element; `__name__` of
     a known object + an element); modules that only these probes bring to life are tabulated afterwards (the real call never
     saw them; the model only meets them if it already left the path of the real call).
Objects are numbered by identity.  sys.modules / sys.path / the importer caches are restored after every symbol.

Oracle, on the implementation alone, from the world description (no model): (c) a dotted name that the description
determines — a chain of ordinary packages, then attributes defined in the module body — resolves to exactly that object
(`sys.modules[...]`/getattr right after the call), a top-level module named like the attribute notwithstanding; a name with
an element the description does not have is an ImportError naming the symbol; (d) a single name that is a top-level module of
the world is that module (even when a builtin has the name), any other single name is `getattr(builtins, name)` or an
ImportError; invalid names are ValueErrors."""
import os, sys, json, tempfile, shutil, importlib, importlib.util, builtins, random
import common  # noqa: F401  (puts the implementation on sys.path)
import awesomeyaml.utils as ayutils

TOPS = ['aypk', 'aymod', 'len', 'dict', 'Cls', 'f', 'sub', 'obj', 'bad', 'inner']
SUBS = ['sub', 'f', 'Cls', 'obj', 'len', 'x', 'bad', 'inner']
ATTRS = ['f', 'Cls', 'obj', 'make', 'x', 'sub', 'len', 'nothing', 'zero', 'inner']
BUILTIN_SINGLES = ['len', 'dict', 'None', 'abs', 'print', 'nope', 'True', 'Ellipsis', 'str']
BUILTIN_DOTTED = ['dict.fromkeys', 'str.join', 'len.__name__', 'object.__doc__', 'int.real', 'abs.x']
MISSING = 999999

for _t in TOPS:
    if _t not in sys.modules and importlib.util.find_spec(_t) is not None:
        raise RuntimeError(f'impname: the scratch module name {_t!r} exists in this interpreter')


class Objs:
    """identity numbering of Python objects (kept alive, so that ids are not reused)"""
    def __init__(self):
        self.objs = []
    def num(self, o):
        for i, x in enumerate(self.objs):
            if x is o:
                return i
        self.objs.append(o)
        return len(self.objs) - 1
    def val(self, o):
        return None if o is None else self.num(o)


# ------------------------------------------------------------------------------------------------
# the world as files
# ------------------------------------------------------------------------------------------------

PRELUDE = '''import sys as _sys, types as _types
class _Obj:
    def __init__(self, **kw):
        self.__dict__.update(kw)
class _FObj(_Obj):
    def __len__(self):
        return 0
def _func(name):
    def f(*a, **k):
        return (name, a, k)
    f.__name__ = name
    return f
'''

def val_expr(v):
    t = v['t']
    attrs = v.get('attrs') or []
    if t == 'none':
        return 'None'
    if t == 'zero':
        return '0'
    if t == 'func':
        return f'_func({v.get("name", "fn")!r})'
    kw = ', '.join(f'{n!r}: {val_expr(x)}' for n, x in attrs)
    if t == 'cls':
        return f'type({v.get("name", "Cls")!r}, (), {{{kw}}})'
    if t == 'fobj':      # an object that is falsy (an empty registry) and still has attributes: a name may lead THROUGH it
        return f'_FObj(**{{{kw}}})'
    return f'_Obj(**{{{kw}}})'

def module_source(dotted, ms):
    out = [PRELUDE]
    for el in ms.get('imports') or []:
        out.append(f'from . import {el}' if ms.get('pkg') else f'import {el}')
    for n, v in ms.get('attrs') or []:
        out.append(f'{n} = {val_expr(v)}')
    if ms.get('falsy'):
        out.append('class _Falsy(_types.ModuleType):\n    def __bool__(self):\n        return False\n_sys.modules[__name__].__class__ = _Falsy')
    if ms.get('rename'):
        out.append(f'__name__ = {ms["rename"]!r}')
    if ms.get('raise'):
        out.append(f'raise {ms["raise"]}("raised while importing " + {dotted!r})')
    return '\n'.join(out) + '\n'

def write_world(root, world):
    for dotted, ms in world.items():
        parts = dotted.split('.')
        d = os.path.join(root, *parts[:-1])
        if ms.get('pkg'):
            d = os.path.join(d, parts[-1])
            os.makedirs(d, exist_ok=True)
            path = os.path.join(d, '__init__.py')
        else:
            os.makedirs(d, exist_ok=True)
            path = os.path.join(d, parts[-1] + '.py')
        with open(path, 'w') as fh:
            fh.write(module_source(dotted, ms))

def purge():
    for k in list(sys.modules):
        if k.split('.')[0] in TOPS:
            del sys.modules[k]
    importlib.invalidate_caches()


class Scratch:
    """the world of a case on disk and on sys.path"""
    def __init__(self, world):
        self.world = world
    def __enter__(self):
        self.root = tempfile.mkdtemp(prefix='ay_impname_')
        write_world(self.root, self.world)
        self.old_path = list(sys.path)
        self.old_dwb = sys.dont_write_bytecode
        sys.dont_write_bytecode = True
        sys.path.insert(0, self.root)
        purge()
        return self
    def __exit__(self, *a):
        purge()
        sys.path[:] = self.old_path
        sys.dont_write_bytecode = self.old_dwb
        for k in list(sys.path_importer_cache):
            if k.startswith(self.root):
                del sys.path_importer_cache[k]
        shutil.rmtree(self.root, ignore_errors=True)
        importlib.invalidate_caches()


# ------------------------------------------------------------------------------------------------
# one symbol on the implementation, and the world it saw
# ------------------------------------------------------------------------------------------------

_NO = object()

def name_of(o):
    n = getattr(o, '__name__', _NO)
    return n.split('.') if isinstance(n, str) else None

def resolve_real(symbol, world, root):
    """the real import_name on `symbol` from a purged import state: the outcome, the tables for the model, the oracle's checks"""
    purge()
    objs = Objs()
    elements = symbol.split('.')
    try:
        r = ayutils.import_name(symbol)
        res = {'ok': objs.val(r)}
    except ValueError as e:
        res = {'err': 'ValueError'} if str(e).startswith('Invalid target name') else {'err': 'crash', 'cls': 'ValueError'}
    except ImportError as e:
        res = {'err': 'ImportError', 'msg': str(e).split(', see exception(s) below')[0], 'type': type(e).__name__}
    except BaseException as e:  # noqa
        res = {'err': 'crash', 'cls': type(e).__name__}
    checks = oracle_checks(symbol, world, root, res, r if 'ok' in res else None)
    # ---- stage A: the state the call left, before anything else is imported
    els = []
    for el in elements:
        if el not in els:
            els.append(el)
    names, truthy, attrs = {}, {}, {}
    def tabulate(o):
        n = objs.num(o)
        if n in names:
            return []
        names[n] = name_of(o)
        truthy[n] = bool(o)
        new = []
        for el in els:
            try:
                v = getattr(o, el) if el else _NO
            except AttributeError:
                v = _NO
            except Exception:  # noqa
                v = _NO
            attrs[(n, el)] = 'AttributeError' if v is _NO else objs.val(v)
            if v is not _NO and v is not None:
                new.append(v)
        return new
    def close(start):
        todo = list(start)
        while todo and len(names) < 80:
            todo += tabulate(todo.pop(0))
    close([m for k, m in list(sys.modules.items()) if k.split('.')[0] in TOPS and m is not None] + ([r] if 'ok' in res and r is not None else []))
    bi = {}
    for el in els:
        v = getattr(builtins, el, _NO) if el else _NO
        bi[el] = 'AttributeError' if v is _NO else objs.val(v)
    # ---- stage B: what is importable
    imp = {}
    def probe(path):
        path = tuple(path)
        if path in imp or len(imp) > 200:
            return
        try:
            m = importlib.import_module('.'.join(path))
            imp[path] = {'ok': objs.num(m)}
            close([m])
        except ImportError:
            imp[path] = 'ImportError'
        except BaseException as e:  # noqa
            imp[path] = {'raises': type(e).__name__}
    for el in els:          # absolute imports: the first element, and any element after a module whose bool() is False
        if el:
            probe([el])
    for _ in range(len(elements) + 1):
        for n in list(names):
            p = names[n]
            if p is None:
                continue
            probe(p)
            for el in els:
                if el:
                    probe(p + [el])
    last_strs = {n: str(o) for n, o in enumerate(objs.objs)}
    purge()
    return {'res': res, 'checks': checks, 'last_strs': last_strs,
            'tables': {'imp': [[list(p), v] for p, v in imp.items()], 'name': [[n, p] for n, p in names.items()],
                       'truthy': [[n, b] for n, b in truthy.items()], 'attr': [[n, el, v] for (n, el), v in attrs.items()],
                       'builtin': [[el, v] for el, v in bi.items()]}}

def run_case(case):
    with Scratch(case['world']) as sc:
        return {'names': [resolve_real(s, case['world'], sc.root) for s in case['names']]}

# ------------------------------------------------------------------------------------------------
# the oracle: what the world description says the name means
# ------------------------------------------------------------------------------------------------

def ordinary(ms):
    return not (ms.get('falsy') or ms.get('raise') or ms.get('rename') or ms.get('imports'))

def spec_expect(world, symbol):
    """('obj', module name, [attribute...]) | ('fail',) | ('skip', why) — only for names the description determines"""
    elements = symbol.split('.')
    if any(not el for el in elements):
        return ('skip', 'empty element')
    if elements[0] not in world:
        return ('skip', 'first element is not a module of the world')
    mod, i = None, 0
    while i < len(elements):
        cand = '.'.join(elements[:i + 1])
        if cand not in world:
            break
        if not ordinary(world[cand]):
            return ('skip', 'module with special features')
        if mod is not None and elements[i] in [n for n, _ in world[mod].get('attrs') or []]:
            return ('skip', 'submodule and attribute of the same name')
        if mod is not None and not world[mod].get('pkg'):
            break
        mod, i = cand, i + 1
    cur, path = {'attrs': world[mod].get('attrs') or [], 't': 'module'}, []
    for el in elements[i:]:
        if cur['t'] in ('none', 'zero', 'func'):
            return ('skip', 'attribute of a builtin-typed value')
        hit = [v for n, v in cur.get('attrs') or [] if n == el]
        if not hit:
            if el.startswith('__') or (cur['t'] in ('cls', 'obj', 'fobj') and hasattr(object, el)):
                return ('skip', 'inherited attribute')
            return ('fail',)
        cur = hit[-1]
        path.append(el)
    return ('obj', mod, path)

def oracle_checks(symbol, world, root, res, r):
    out = []
    if not symbol or symbol.endswith('.'):
        if res != {'err': 'ValueError'}:
            out.append(f'invalid name {symbol!r}: expected ValueError, got {json.dumps(res)[:120]}')
        return out
    if res.get('err') == 'ImportError' and (repr(symbol) not in res['msg'] or res['type'] != 'ImportError'):
        out.append(f'the ImportError for {symbol!r} does not name the symbol: {res["type"]}: {res["msg"][:120]}')
    elements = symbol.split('.')
    if len(elements) == 1 and elements[0]:
        n = elements[0]
        if n in world and ordinary(world[n]):
            f = getattr(r, '__file__', None) if 'ok' in res else None
            if not (f and os.path.realpath(f).startswith(os.path.realpath(root) + os.sep) and r is sys.modules.get(n)):
                out.append(f'single name {n!r} is a top-level module of the world but import_name gave {json.dumps(res)[:100]} ({r!r})')
        elif n not in world:
            if hasattr(builtins, n):
                if 'ok' not in res or r is not getattr(builtins, n):
                    out.append(f'single name {n!r} is not importable: expected builtins.{n}, got {json.dumps(res)[:100]} ({r!r})')
            elif res.get('err') != 'ImportError':
                out.append(f'single name {n!r} is neither importable nor a builtin: expected ImportError, got {json.dumps(res)[:100]}')
        return out
    exp = spec_expect(world, symbol)
    if exp[0] == 'fail':
        if res.get('err') != 'ImportError':
            out.append(f'{symbol!r} has an element the world does not have: expected ImportError, got {json.dumps(res)[:100]} ({r!r})')
    elif exp[0] == 'obj':
        o = sys.modules.get(exp[1], _NO)
        for a in exp[2]:
            o = getattr(o, a, _NO) if o is not _NO else _NO
        if o is _NO:
            out.append(f'{symbol!r}: the world description says module {exp[1]} then attributes {exp[2]}, which the real modules do not have')
        elif 'ok' not in res or r is not o:
            out.append(f'{symbol!r} must be module {exp[1]} followed by attributes {exp[2]} = {o!r}; import_name gave {json.dumps(res)[:100]} ({r!r})')
    elif elements[0] and elements[0] not in world and len(elements) > 1 and importlib.util.find_spec(elements[0]) is None:
        if res.get('err') != 'ImportError':
            out.append(f'{symbol!r}: the first element is not importable and the name is dotted: expected ImportError, got {json.dumps(res)[:100]} ({r!r})')
    return out

# ------------------------------------------------------------------------------------------------
# model side
# ------------------------------------------------------------------------------------------------

def requests(case, io):
    return [dict({'op': 'importName', 'symbol': s}, **o['tables']) for s, o in zip(case['names'], io['names'])]

def compare(case, io, answers):
    for s, o, a in zip(case['names'], io['names'], answers):
        if 'bad' in a:
            return f'driver op importName failed: {a["bad"]}'
        if str(MISSING) in json.dumps(a['res']) or 'MISSING' in json.dumps(a['res']):
            raise RuntimeError(f'impname: the tables for {s!r} do not answer a question of the model: {json.dumps(a["res"])}')
        if a['elements'] != s.split('.'):
            return f'{s!r}: model elements {a["elements"]} != split {s.split(".")}'
        if a['invalid'] != (not s or s.endswith('.')):
            return f'{s!r}: model invalid={a["invalid"]}'
        real, mod = o['res'], a['res']
        if real.get('err') == 'ImportError':
            if mod.get('err') != 'ImportError':
                return f'{s!r}: implementation ImportError ({real["msg"][:100]}), model {json.dumps(mod)}'
            if mod['symbol'] != s:
                return f'{s!r}: the model names the symbol {mod["symbol"]!r}'
            last = 'None' if mod['last'] is None else o['last_strs'].get(mod['last'], o['last_strs'].get(str(mod['last']), '?'))
            if f'last found element was: {last}' not in real['msg']:
                return f'{s!r}: model says the last found element is {last}, the message says: {real["msg"][:160]}'
            continue
        if real != mod:
            return f'{s!r}: implementation {json.dumps(real)}, model {json.dumps(mod)}'
    return None

def oracle(case, io):
    for s, o in zip(case['names'], io['names']):
        if o['checks']:
            return o['checks'][0]
    return None

# ------------------------------------------------------------------------------------------------
# generation
# ------------------------------------------------------------------------------------------------

def gen_val(rng, depth=0):
    t = rng.choice(['obj', 'obj', 'cls', 'cls', 'func', 'none', 'zero', 'fobj', 'fobj'] if depth < 2 else ['func', 'none', 'obj'])
    v = {'t': t}
    if t == 'cls':
        v['name'] = rng.choice(['Cls', 'f', 'aymod', 'K', 'sub'])
    if t == 'func':
        v['name'] = rng.choice(['make', 'f', 'len'])
    if t in ('obj', 'cls', 'fobj'):
        v['attrs'] = [[n, gen_val(rng, depth + 1)] for n in rng.sample(ATTRS, rng.choice([0, 1, 2, 3]))]
    return v

def gen_mod(rng, pkg, special):
    ms = {'pkg': pkg, 'attrs': [[n, gen_val(rng)] for n in rng.sample(ATTRS, rng.choice([0, 1, 2, 4]))],
          'raise': None, 'falsy': False, 'imports': [], 'rename': None}
    if special:
        x = rng.random()
        if x < 0.3:
            ms['raise'] = rng.choice(['ImportError', 'ImportError', 'ModuleNotFoundError', 'RuntimeError'])
        elif x < 0.5:
            ms['falsy'] = True
        elif x < 0.65:
            ms['rename'] = rng.choice(['aymod', 'Cls', 'aypk', 'renamed'])
    return ms

def gen_world(rng):
    world = {}
    for top in rng.sample(TOPS, rng.choice([1, 2, 3, 4])):
        pkg = rng.random() < 0.7
        world[top] = gen_mod(rng, pkg, rng.random() < 0.2)
        if pkg:
            for s in rng.sample(SUBS, rng.choice([0, 1, 2, 3])):
                sub_pkg = rng.random() < 0.35
                world[f'{top}.{s}'] = gen_mod(rng, sub_pkg, rng.random() < 0.2)
                if rng.random() < 0.3:      # a submodule and an attribute with the same name
                    world[top]['attrs'].append([s, gen_val(rng)])
                if rng.random() < 0.2 and not world[top]['raise']:
                    world[top]['imports'].append(s)
                if sub_pkg:
                    for s2 in rng.sample(SUBS, rng.choice([0, 1, 2])):
                        world[f'{top}.{s}.{s2}'] = gen_mod(rng, False, rng.random() < 0.15)
    return world

def valid_names(world):
    """every name the description spells: module chains, then attribute chains"""
    out = []
    def attrs(prefix, spec, depth):
        for n, v in spec.get('attrs') or []:
            out.append(prefix + [n])
            if depth < 3:
                attrs(prefix + [n], v, depth + 1)
    for dotted, ms in world.items():
        p = dotted.split('.')
        out.append(p)
        attrs(p, ms, 0)
    return out

def gen_names(rng, world, k):
    base = valid_names(world)
    names = []
    for _ in range(k):
        x = rng.random()
        p = list(rng.choice(base)) if base else ['nope']
        if x < 0.45:
            pass
        elif x < 0.60:      # an element that does not exist / exists elsewhere
            i = rng.randrange(len(p) + 1)
            p = p[:i] + [rng.choice(SUBS + ATTRS + ['nope'])] + (p[i + 1:] if rng.random() < 0.5 else p[i:])
        elif x < 0.68:
            p = p + [rng.choice(ATTRS + ['__name__', '__doc__', 'nope'])]
        elif x < 0.74:      # empty elements, leading / trailing / double dots
            i = rng.randrange(len(p) + 1)
            p = p[:i] + [''] + p[i:]
        elif x < 0.84:
            p = [rng.choice(BUILTIN_SINGLES + TOPS)]
        elif x < 0.92:
            p = rng.choice(BUILTIN_DOTTED).split('.')
        elif x < 0.95:
            p = [rng.choice(['', '.', 'a b', 'ü', ' len'])]
        else:
            p = [rng.choice(TOPS)] + [rng.choice(SUBS)] * rng.choice([1, 2])
        names.append('.'.join(p))
    return names

def gen_case(rng):
    world = gen_world(rng)
    return {'kind': 'impname', 'docs': [], 'world': world, 'names': gen_names(rng, world, rng.choice([2, 4, 6]))}

def corpus():
    O = lambda **kw: {'t': 'obj', 'attrs': [[k, v] for k, v in kw.items()]}
    C = lambda name, **kw: {'t': 'cls', 'name': name, 'attrs': [[k, v] for k, v in kw.items()]}
    F = {'t': 'func', 'name': 'make'}
    Mod = lambda pkg=False, attrs=(), **kw: dict({'pkg': pkg, 'attrs': [list(a) for a in attrs], 'raise': None, 'falsy': False,
                                                  'imports': [], 'rename': None}, **kw)
    W = lambda world, *names: {'kind': 'impname', 'docs': [], 'world': world, 'names': list(names)}
    base = {'aypk': Mod(True, [('f', O(x=F)), ('Cls', C('Cls', make=F, x=O())), ('nothing', {'t': 'none'}), ('obj', O(inner=O(x=F)))]),
            'aypk.sub': Mod(False, [('x', F)]), 'f': Mod(False, [('x', F)]), 'len': Mod(False, [('x', F)]),
            'Cls': Mod(True, [('make', {'t': 'zero'})]), 'Cls.x': Mod(False), 'Cls.make': Mod(False)}
    return [
        # the witnesses of Props/C13_ImportName.lean: attribute vs sibling module, single names and builtins, quirks
        W(base, 'aypk.f', 'aypk.sub', 'aypk.sub.x', 'aypk.Cls.make', 'aypk.Cls.x', 'aypk.obj.inner.x', 'aypk.nothing', 'aypk.nothing.x',
          'len', 'dict', 'None', 'nope', 'dict.fromkeys', 'len.x', 'aypk..sub', '.aypk', 'aypk.', '', 'aypk.nope.x', 'aypk.f.nope'),
        # a package object that is falsy: the next element is imported as a top-level module (C13_falsy_module_sibling_confusion)
        W({'aypk': Mod(True, [('f', O())], falsy=True), 'f': Mod(False), 'aypk.sub': Mod(False)}, 'aypk.f', 'aypk.sub', 'aypk'),
        # a submodule and an attribute with the same name; a package that imports its submodule itself
        W({'aypk': Mod(True, [('sub', O(x=F)), ('x', F)], imports=[]), 'aypk.sub': Mod(False, [('x', F)])}, 'aypk.sub', 'aypk.sub.x'),
        W({'aypk': Mod(True, [], imports=['sub']), 'aypk.sub': Mod(False, [('x', F)])}, 'aypk.sub.x', 'aypk.sub.nope'),
        # modules that raise on import; a module that renames itself
        W({'aypk': Mod(True, [('bad', O(x=F))]), 'aypk.bad': Mod(False, **{'raise': 'ImportError'}), 'bad': Mod(False, **{'raise': 'RuntimeError'}),
           'aypk.inner': Mod(False, **{'raise': 'RuntimeError'})}, 'aypk.bad', 'aypk.bad.x', 'bad', 'bad.x', 'aypk.inner', 'aypk.inner.x'),
        W({'aypk': Mod(True, [('x', F)], rename='aymod'), 'aymod': Mod(True), 'aymod.sub': Mod(False), 'aypk.sub': Mod(False)}, 'aypk.sub', 'aypk.x'),
    ]

def features(case, io):
    f = ['kind:impname']
    for ms in case['world'].values():
        for k in ('raise', 'falsy', 'rename'):
            if ms.get(k):
                f.append(f'impname:world-{k}')
        if ms.get('imports'):
            f.append('impname:init-imports-submodule')
    for s, o in zip(case['names'], io.get('names', []) if isinstance(io, dict) else []):
        r = o['res']
        f.append('impname:' + ('object' if 'ok' in r and r['ok'] is not None else 'None' if 'ok' in r else r['err'] + (':' + r['cls'] if 'cls' in r else '')))
        f.append(f'impname:elements={min(len(s.split(".")), 5)}')
        if '' in s.split('.') and s:
            f.append('impname:empty-element')
        e = spec_expect(case['world'], s) if s and not s.endswith('.') and len(s.split('.')) > 1 else ('single',)
        f.append('impname:oracle-' + e[0])
    return sorted(set(f))

def render(case):
    out = []
    for dotted, ms in case['world'].items():
        flags = [k + '=' + str(ms[k]) for k in ('raise', 'falsy', 'rename', 'imports') if ms.get(k)]
        out.append(f'{dotted}{"/" if ms.get("pkg") else ".py"}: ' + ', '.join(f'{n} = {val_expr(v)}' for n, v in ms.get('attrs') or []) +
                   (' [' + ', '.join(flags) + ']' if flags else ''))
    return out + ['import_name of: ' + json.dumps(case['names'], ensure_ascii=False)]

def shrink(case):
    names, world = case['names'], case['world']
    if len(names) > 1:
        for i in range(len(names)):
            yield dict(case, names=names[:i] + names[i + 1:])
    for k in list(world):
        if not any(o.startswith(k + '.') for o in world):
            yield dict(case, world={a: b for a, b in world.items() if a != k})
    for k, ms in world.items():
        for i in range(len(ms.get('attrs') or [])):
            yield dict(case, world=dict(world, **{k: dict(ms, attrs=ms['attrs'][:i] + ms['attrs'][i + 1:])}))
        for flag, off in (('raise', None), ('falsy', False), ('rename', None), ('imports', [])):
            if ms.get(flag):
                yield dict(case, world=dict(world, **{k: dict(ms, **{flag: off})}))
