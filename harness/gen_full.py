"""Documents over the FULL tag vocabulary (C18 / C19): the merge-family generator (gen_merge.FULLMERGE:
priority / !del / !merge / !new / !notnew / !unsafe / metadata / !append / !extend / !call / !bind /
!required / !clear) and the dynamic-node generator (gen_eval: !xref / !call / !bind / !eval / !import),
plus a decoration pass that plants the remaining node kinds (!prev, !fstr, !path[:ref], !include, !null,
`!call name` / `!bind name`, metadata on the node-kind tags that accept it)."""
import random, copy
from common import S, Sempty, Stext, Q, M, sc_py
import gen_merge as G
import gen_eval as GE

REFPOINTS = ['', 'cwd', 'file', 'parent', 'parent(1)', 'abs(/tmp/x)']

def kw_for_kind(rng, p=0.4):
    """metadata for the node-kind tags that have a `:metadata` form"""
    if rng.random() >= p:
        return None
    kw = dict(rng.choice([{'prio': 1}, {'prio': -1}, {'del': True}, {'del': False}, {'new': True}, {'safe': False},
                          {'md': [['m1', 'v']]}, {'prio': 1, 'md': [['m0', 2]]}]))
    return kw

def extra_leaf(rng, allow_premerge=True, allow_include=True):
    """one node of a kind the two base generators do not produce"""
    kinds = ['fstr', 'path', 'pathref', 'null', 'callName', 'bindName', 'xref', 'eval', 'import', 'required', 'extend', 'evalml']
    if allow_premerge:
        kinds += ['prev', 'clear']
    if allow_include:
        kinds += ['include', 'includes']
    k = rng.choice(kinds)
    if k == 'fstr': return Stext(rng.choice(["f'{a}'", "f'v={b}!'", "f'x'"]), 'fstr')
    if k == 'path': return Q([S(rng.choice(['d', 'e'])), S('f.txt')][:rng.choice([1, 2])], tag={'k': 'path', 'f': ''})
    if k == 'pathref':
        r = rng.choice(REFPOINTS[1:])
        if '/' in r:    # the {{...}} metadata syntax does not recognise a tag containing '/'
            return Q([S('d'), S('f.txt')][:rng.choice([0, 1, 2])], tag={'k': 'path', 'f': r})
        if rng.random() < 0.3:
            return S('one', tag={'k': 'path', 'f': r}, kw=kw_for_kind(rng))
        return Q([S('d'), S('f.txt')][:rng.choice([0, 1, 2])], tag={'k': 'path', 'f': r}, kw=kw_for_kind(rng))
    if k == 'null': return Sempty('null', kw=kw_for_kind(rng))
    if k == 'callName': return S('rec.f', tag='callName')
    if k == 'bindName': return S('rec.g', tag='bindName')
    if k == 'xref': return Stext(rng.choice(['a', 'b.c', 'x[0]']), 'xref', kw=kw_for_kind(rng))
    if k == 'eval': return Stext(rng.choice(['T(a)', 'T()', 'T(a, b)']), 'eval', kw=kw_for_kind(rng))
    if k == 'evalml': return Stext('q = 1\nT(q)', 'eval')
    if k == 'import': return Stext(rng.choice(['rec', 'sig']), 'import')
    if k == 'required': return Sempty('required', kw=kw_for_kind(rng))
    if k == 'extend': return Q([S(1), S('p')][:rng.choice([0, 1, 2])], tag='extend', kw=kw_for_kind(rng))
    if k == 'prev': return Stext(rng.choice(['a', 'b']), 'prev')
    if k == 'clear': return Sempty('clear', kw=kw_for_kind(rng))
    if k == 'include': return Stext('inc1.yaml', 'include')
    return Q([S('inc1.yaml'), S('inc2.yaml')], tag='include')

def decorate(rng, raw, p, **opts):
    """replace some untagged scalar leaves below the root by extra node kinds"""
    def go(n, top):
        if 's' in n:
            if not top and not n.get('t') and not n.get('kw') and rng.random() < p:
                return extra_leaf(rng, **opts)
            return n
        if 'q' in n:
            return dict(n, q=[go(c, False) for c in n['q']])
        return dict(n, m=[[k, go(c, False)] for k, c in n['m']])
    return go(raw, True)

def gen_full_sequence(rng, nmax=3, depth=3, p_tag=0.3, p_extra=0.0):
    """a merge sequence (list of {'raw':…, 'safe':?}) over the merge-family + dynamic vocabulary"""
    if rng.random() < 0.65:
        docs = [{'raw': d} for d in G.gen_sequence(rng, G.FULLMERGE, nmax, depth, p_tag)]
        if rng.random() < 0.1:
            docs[rng.randrange(len(docs))]['safe'] = False
    else:
        docs = GE.gen_dyn_case(rng, nmax=nmax, depth=depth)
    if p_extra:
        docs = [dict(d, raw=decorate(rng, d['raw'], p_extra, allow_premerge=False, allow_include=False)) for d in docs]
    return docs

def gen_full_doc(rng, depth=3, p_tag=0.35, p_extra=0.25, **opts):
    """one document over the full vocabulary (for parse-only cases: premerge operators and includes allowed)"""
    if rng.random() < 0.6:
        raw = G.gen_doc(rng, G.FULLMERGE, depth, p_tag)
    else:
        raw = GE.gen_dyn_doc(rng, depth)
    d = {'raw': decorate(rng, raw, p_extra, **opts)}
    if rng.random() < 0.1:
        d['safe'] = False
    if rng.random() < 0.3:
        d['src'] = rng.choice(['/cfg/main.yaml', 'rel/dir/x.yaml'])
    return d
