"""Type-directed generators of merge sequences (documents as Raw trees)."""
import random, copy
from common import S, Sempty, Stext, Q, M, sc_py

STR_KEYS = ['a', 'b', 'c', 'k', 'x', '_u', 'a', 'b', 'c', 'k', 'x', 'stages', 'x.y', 'my-key']
ODD_KEYS = ['x.y', 'my-key', 'k 1', 'a[0]', 'stages', '_u']
P_ODD = 0.0     # extra probability of a key that is not a plain identifier (set by property modules)
INT_KEYS = [0, 1, 2, -1, 3]
FLOAT_KEYS = [1.5, 2.5]
P_FLOATKEY = 0.08     # probability that the keys of one mapping may also be floats (yaml allows them; they used to break pruning, D34)
SCALARS = [0, 1, 2, 7, -3, 'p', 'q', '', 'hello world', True, False, None, 1.5, 0.0, 'p', 'q', 1, "f'{b}'", 'true', '12', 'tail\n']

class Vocab:
    """which tag families a generator may use"""
    def __init__(self, prio=False, delete=False, new=False, unsafe=False, meta=False, notnew=False,
                 ops=False, func=False, required=False, clear=False, floats=True, empty=True, intkeys=True):
        self.__dict__.update(locals()); del self.__dict__['self']

PLAIN = Vocab()
PRIO = Vocab(prio=True, meta=True)
MERGECTL = Vocab(prio=True, delete=True, new=True, unsafe=True, meta=True, clear=True)
FULLMERGE = Vocab(prio=True, delete=True, new=True, unsafe=True, meta=True, notnew=True, ops=True, func=True,
                  required=True, clear=True)

def gen_kw(rng, voc, p_tag):
    """constructor kwargs of a merge-control tag ({} = untagged)"""
    if rng.random() >= p_tag:
        return {}
    choices = []
    if voc.prio: choices += [{'prio': 1}, {'prio': -1}, {'prio': 1}, {'prio': -1}]
    if voc.delete: choices += [{'del': True}, {'del': False}, {'del': True}]
    if voc.new: choices += [{'new': True}]
    if voc.notnew: choices += [{'new': False}]
    if voc.unsafe: choices += [{'safe': False}, {'safe': False}, {'safe': True}]
    if voc.meta: choices += [{'md': [['m' + str(rng.randrange(3)), rng.choice([1, 'v', None, True])]]}]
    if not choices:
        return {}
    kw = dict(rng.choice(choices))
    if voc.meta and rng.random() < 0.25:
        extra = rng.choice(choices)
        for k, v in extra.items():
            kw.setdefault(k, v)
        if rng.random() < 0.5:
            kw.setdefault('md', [['m' + str(rng.randrange(3)), rng.choice([2, 'w'])]])
    return kw

# size amplification: a share of the generated sequences is BIG - lists of 10-13 elements (two-digit positions, also counted from
# the end), mappings of 8-10 keys (among them keys that sort differently as text and as numbers), one or two stages more, a level
# deeper; small inputs stay the majority (seeded round 8: changes that show only beyond a size)
BIG = False
P_BIG = 0.08
BIG_KEYS = ['k%d' % i for i in range(12)] + ['10', '9', '2', 'z10', 'z9']

def gen_scalar(rng, voc):
    v = rng.choice(SCALARS)
    if isinstance(v, float) and not voc.floats:
        v = 3
    return v

def gen_value(rng, voc, depth, p_tag, in_list=False):
    r = rng.random()
    kw = gen_kw(rng, voc, p_tag)
    if depth <= 0 or r < 0.45:
        if voc.required and rng.random() < 0.04:
            return Sempty('required')
        if voc.clear and rng.random() < 0.03 and not in_list:
            return Sempty('clear')
        if voc.empty and not in_list and rng.random() < 0.05:
            return Sempty(kw=kw) if kw else Sempty()
        return S(gen_scalar(rng, voc), kw=kw)
    if r < 0.70:
        n = rng.choice([0, 1, 2, 2, 3])
        if BIG and rng.random() < 0.5:
            n = rng.choice([10, 11, 12, 13])
            items = [gen_value(rng, voc, min(depth - 1, 1) if rng.random() < 0.15 else 0, p_tag, in_list=True) for _ in range(n)]
        else:
            items = [gen_value(rng, voc, depth - 1, p_tag, in_list=True) for _ in range(n)]
        if voc.ops and rng.random() < 0.12:
            return Q(items, tag=rng.choice(['append', 'extend']))
        return Q(items, kw=kw)
    items = gen_items(rng, voc, depth - 1, p_tag)
    if voc.func and rng.random() < 0.12:
        return M(items, tag={'k': rng.choice(['call', 'bind']), 'f': rng.choice(['rec.f', 'rec.g'])}, kw=kw)
    return M(items, kw=kw)

def gen_items(rng, voc, depth, p_tag, nmax=3):
    n = rng.choice([0, 1, 2, 2, 3][:nmax + 2])
    keys = []
    pool = STR_KEYS + (INT_KEYS if voc.intkeys and rng.random() < 0.15 else [])
    if BIG and rng.random() < 0.3:
        n = rng.choice([8, 9, 10])
        pool = pool + BIG_KEYS + BIG_KEYS
        depth = min(depth, 1)
    if rng.random() < P_FLOATKEY:
        pool = pool + FLOAT_KEYS + FLOAT_KEYS
    while len(keys) < n:
        k = rng.choice(ODD_KEYS) if rng.random() < P_ODD else rng.choice(pool)
        if k not in keys:
            keys.append(k)
    return [(k, gen_value(rng, voc, depth, p_tag)) for k in keys]

def gen_doc(rng, voc, depth=3, p_tag=0.25):
    kw = gen_kw(rng, voc, p_tag * 0.3)
    return M(gen_items(rng, voc, depth, p_tag), kw=kw)

def paths_of(raw, pre=()):
    out = [(pre, raw)]
    if 'm' in raw:
        for k, c in raw['m']:
            out += paths_of(c, pre + (sc_py(k) if not isinstance(k, dict) else k['f'],))
    elif 'q' in raw:
        for i, c in enumerate(raw['q']):
            out += paths_of(c, pre + (i,))
    return out

def nest(path, leaf):
    """mapping document that writes `leaf` at `path` (list indices become int keys)"""
    for k in reversed(path):
        leaf = M([(k, leaf)])
    return leaf

# values that compare equal in python but are different YAML scalars (bool / int / float): a stage that restates an entry
# with such a twin must still win (seeded change S4-C02: "equal, nothing to do" shortcuts)
EQ_TWINS = {(int, 0): [False, 0.0], (int, 1): [True, 1.0], (bool, False): [0, 0.0], (bool, True): [1, 1.0],
            (float, 0.0): [0, False], (float, 1.0): [1, True], (int, 2): [2.0], (int, 7): [7.0], (int, -3): [-3.0]}
P_RESTATE = 0.15    # probability that one entry of an override restates a whole subtree of the base

def restate(rng, raw, keep_tags):
    """copy of a subtree in which scalars are now and then replaced by an ==-equal value of another type"""
    n = {k: v for k, v in raw.items() if keep_tags or k not in ('t', 'kw', 'txt')}
    if 't' in n and n['t'].get('k') not in (None, 'plain') :
        return copy.deepcopy(raw)                      # operator / function / dynamic nodes: verbatim
    if 's' in n:
        if 'l' in n['s'] and rng.random() < 0.5:
            v = sc_py(n['s']['l'])
            tw = EQ_TWINS.get((type(v), v))
            if tw:
                n = dict(n, s={'l': S(rng.choice(tw))['s']['l']})
        return n
    if 'q' in n:
        return dict(n, q=[restate(rng, c, keep_tags) for c in n['q']])
    return dict(n, m=[[k, restate(rng, c, keep_tags)] for k, c in n['m']])

def gen_override(rng, voc, base, depth=3, p_tag=0.3):
    """a later stage derived from `base`: overrides a few of its paths, adds some new content"""
    ps = [p for p, _ in paths_of(base) if p]
    subs = {p: n for p, n in paths_of(base) if p}
    items = {}
    def put(path, val):
        cur = items
        for k in path[:-1]:
            nxt = cur.get(k)
            if not isinstance(nxt, dict) or '__leaf__' in nxt:
                nxt = {}
                cur[k] = nxt
            cur = nxt
        cur[path[-1]] = {'__leaf__': val}
    lens = {p: len(n['q']) for p, n in paths_of(base) if 'q' in n}
    for _ in range(rng.choice([1, 1, 2, 3])):
        if ps and rng.random() < 0.8:
            p = rng.choice(ps)
            # address list elements by the negative spelling of the same index now and then
            p = tuple((k - lens[p[:i]]) if (isinstance(k, int) and p[:i] in lens and rng.random() < 0.3) else k for i, k in enumerate(p))
            if rng.random() < 0.2:
                p = p + (rng.choice(STR_KEYS + [0, 5]),)
            if lens and rng.random() < 0.1:
                # a position just outside a list that exists: past the end, or counted from the end beyond the start (S6-C02, S8-C02)
                lp = rng.choice(sorted(lens, key=str))
                if lp:
                    p = lp + (rng.choice([-lens[lp] - 1, -lens[lp] - 2, lens[lp], lens[lp] + 1]),)
        else:
            p = (rng.choice(STR_KEYS),)
        if p in subs and rng.random() < P_RESTATE:
            put(p, restate(rng, subs[p], rng.random() < 0.5))
        else:
            put(p, gen_value(rng, voc, rng.randrange(0, depth), p_tag))
    def build(d):
        out = []
        for k, v in d.items():
            if '__leaf__' in v:
                out.append((k, v['__leaf__']))
            else:
                kw = gen_kw(rng, voc, p_tag * 0.6)
                out.append((k, M(build(v), kw=kw)))
        return out
    return M(build(items), kw=gen_kw(rng, voc, p_tag * 0.2))

def gen_sequence(rng, voc, nmax=4, depth=3, p_tag=0.25):
    global BIG
    big = rng.random() < P_BIG
    n = rng.choice([1, 2, 2, 2, 3, 3, 4][:max(1, nmax + 3)])
    n = min(n, nmax)
    if big:
        n = max(n, min(nmax, rng.choice([3, 4, 5])))
        depth = depth + 1
    BIG = big
    try:
        docs = [gen_doc(rng, voc, depth, p_tag)]
        for _ in range(n - 1):
            if rng.random() < 0.7:
                docs.append(gen_override(rng, voc, rng.choice(docs), depth, p_tag))
            else:
                docs.append(gen_doc(rng, voc, depth, p_tag))
    finally:
        BIG = False
    return docs


def share_node(rng, raw, name='sh1', need=None):
    """a copy of the document in which one node below the root is anchored and aliased once more: as the next element of the
    same list, or under a new key of the same / the top-level mapping - ONE node object at two paths (YAML anchor / alias).
    `need(node)` restricts the choice. Returns None when nothing fits. Node sharing is outside the Lean model (trees without
    aliasing): the families that use this compare with the model on nothing (SKIP) and check the property on the implementation."""
    raw = copy.deepcopy(raw)
    cands = []
    def walk(n, parent):
        for c in ([c for _, c in n['m']] if 'm' in n else n.get('q', [])):
            if 'alias' not in c and 'anchor' not in c and (need is None or need(c)):
                cands.append((n, c))
            walk(c, n)
    walk(raw, None)
    if not cands:
        return None
    inlist = [c for c in cands if 'q' in c[0]]
    parent, node = rng.choice(inlist if inlist and rng.random() < 0.6 else cands)
    node['anchor'] = name
    al = {'alias': name}
    if 'q' in parent and rng.random() < 0.8:
        i = next(j for j, c in enumerate(parent['q']) if c is node)
        parent['q'].insert(rng.randrange(i + 1, len(parent['q']) + 1), al)
    elif 'm' in parent and rng.random() < 0.5:
        parent['m'].append([name + '_again', al])
    else:
        if rng.random() < 0.45:
            raw['m'].append(['shared', al])
        else:
            # the alias inside a mapping of its own, half of the time a TAGGED one (a tagged node is constructed deeply; the
            # anchored container, when untagged, is still waiting to be filled at that moment - repo fix D53)
            wrap = {'m': [['first', al], ['n', {'s': {'l': 2}}]]}
            if rng.random() < 0.6:
                wrap['kw'] = rng.choice([{'prio': 1}, {'prio': -1}, {'safe': False}, {'del': False}, {'new': True}, {'del': True}])
                wrap['t'] = {'k': 'plain'}
            raw['m'].append(['shared', wrap])
    return raw
