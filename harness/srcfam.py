"""C06, case family `sources` (dispatch from props/c06.py on case['kind'] == 'sources').

What the USER passes to `Builder.add_source`, `Builder.add_multiple_sources`, `Config.build`, `Config.build_from_cmdline`
versus what `awesomeyaml.yaml.parse` is handed: the exact text, the file name in force (`builder.get_current_file()` and
`ConfigNode._default_filename`) and the default-safe flag in force (`ConfigNode._default_safe`).  Model: AY.Model.Sources,
driver op "sources" (lean/AY/Driver/OpsSources.lean), theorems lean/AY/Props/C06_Sources.lean.

A case: {'kind': 'sources', 'files': [[name, content]..], 'dirs': [..], 'bins': [..] (files that are not UTF-8),
'loops': [..] (symlinks to themselves: ELOOP, a plain OSError), 'unread': [..] (chmod 0; readable when running as root),
'bdef': Builder._default_safe_flag, 'outer': ConfigNode._default_safe around every call, 'steps': [step..]}.
Every name is relative to a fresh temporary directory, which is the working directory; HOME is <tmp>/home; `$ROOT` in a
source string / file name / option stands for the temporary directory.
  step = {'api': 'add_source', 'src': SRC, 'raw': None|bool, 'filename': None|str, 'safe': None|bool}     one Builder for all the
       | {'api': 'add_multiple', 'sources': [SRC..], 'raw': BARG, 'filename': BARG, 'safe': BARG}          steps of these two kinds
       | {'api': 'config_build', 'sources': [SRC..], 'raw': BARG, 'filename': BARG}        Config.build(*sources, raw_yaml=, filename=)
       | {'api': 'cmdline', 'options': [str..]}                                             Config.build_from_cmdline(*options)
       | {'api': 'ways', 'sources': [SRC..], 'raw': None|bool, 'filename': None|str}        n x add_source | add_multiple_sources | Config.build
  SRC  = ['str', s] | ['path', x] (pathlib.Path(x)) | ['fobj', content] (io.StringIO) | ['fopen', name] (an open file)
  BARG = {'scalar': v} | {'seq': [v..], 'tuple': bool}
`awesomeyaml.yaml.parse` is replaced (in this process only, for the duration of a step) by a recorder that for the builder
steps delegates to the real parser (documents are appended, ParsingError is raised) and for the Config steps yields nothing
(so that `Config(...)` has nothing to evaluate).  `awesomeyaml.builder.Builder` is replaced by a subclass that remembers its
instances (the builder inside `Config.build` is not reachable otherwise).  Nothing in /repo is touched.

The file system description handed to the model is what `open(os.path.expanduser(name))` + `read()` does for every name
that occurs as a source (probed by the harness itself, classified by the exception type exactly as the model's `OpenRes`);
the parser table is the real parser run on every candidate text on its own.

The oracle uses the PLAN only (which names the harness created as what), not the probes and not the model:
  (a) raw_yaml None/False + a name of a created file      -> the parser gets that file's content, the name given is recorded
  (b) raw_yaml None + a string that names nothing         -> the parser gets the string itself, character for character; no
      (no such file, or a name too long for the OS)          file name unless `filename` is given
  (c) raw_yaml True -> the string itself, the file system is irrelevant; raw_yaml False + no such file -> FileNotFoundError
      naming the file, no parser call; raw_yaml True + not a str -> ValueError
  (d) a directory / a path through a file / a symlink loop / an unreadable file: the OS error propagates (raw_yaml None
      or False), subclasses of OSError included (a directory given with raw_yaml=None is NOT parsed as YAML; repo fix D48)
  (e) `filename` is the recorded name whenever it is given
  (f) add_multiple_sources / Config.build = the sources one by one, scalars broadcast (a str is a scalar); a length mismatch is
      a ValueError naming the argument, with no parser call and no file opened
  (g) after every call the builder's current file is None, also after a file that cannot be decoded (repo fix D47): the next
      source without a name records no file name
  (h) the three ways of giving the same sources hand the same (text, name, safe) sequence to the parser
plus: the safe flag in force is `(safe if safe is not None else builder default) and builder default and outer`, and
`builder.get_current_file()` equals `ConfigNode._default_filename` inside every parser call."""
import os, sys, io, re, json, shutil, tempfile, posixpath, pathlib, copy
from common import *          # first: puts the working tree of the implementation on sys.path
import awesomeyaml.yaml as ayyaml
import awesomeyaml.builder as aybuilder

VBASE_S = os.path.realpath(tempfile.gettempdir())
VROOT_S = posixpath.join(VBASE_S, 'AYC06SRCROOT')


# ------------------------------------------------------------------------------------------------
# pools
# ------------------------------------------------------------------------------------------------
LONG1 = 'L' * 300                              # one component > 255 bytes: ENAMETOOLONG (36), a plain OSError
LONG2 = 'ü' * 200 + '.yaml'                    # 200 characters, 405 bytes
LONG3 = 'sub/' + 'M' * 256
LONGP = 'D' * 120 + '/' + 'E' * 120 + '/' + 'F' * 30 + '.yaml'     # an existing file whose NAME is longer than 255 characters, every component shorter (round 8)
KEEP = 'k: |+\n  keep\n\n\n'
FILES = [['f0.yaml', 'a: 1\n'], ['f1.yaml', 'b: 2\n---\nc: 3\n'], ['a b.yaml', 'sp: 1\n'], ['ü ñ.yaml', 'uni: "ü"\n'],
         ['a: b', 'z: 1\n'], ['{x: 1}', 'brace: 1\n'], ['k=v', 'kv: 1\n'], ['sub/g.yaml', 'g: |+\n  keep\n\n\n'],
         ['empty.yaml', ''], ['nonl.yaml', 'a: 1'], ['crlf.yaml', 'a: 1\r\nb: 2\r\n'], ['ws.yaml', 'ws: 0\n'], ['ws.yaml ', 'ws: 1\n'],
         ['home/h.yaml', 'h: 1\n'], ['~lit.yaml', 'tilde: 1\n'], ['~/h.yaml', 'lit: 1\n'], ['blk.yaml', 'k: |\n  x\n\n\n'],
         ['bad.yaml', 'a: b: c\n'], ['two.yaml', 'a: 1\n---\n{bad\n'], [LONGP, 'lp: 1\n']]
DIRS = ['adir', 'd: 1', 'home/hd']
BINS = ['bin.yaml']
LOOPS = ['loop']
UNREAD = ['noperm.yaml']
NAMES = [f for f, _ in FILES] + ['$ROOT/f0.yaml', './f0.yaml', 'sub/../f0.yaml', '~/h.yaml', '~/hd', '~', '~nosuchuserzz/x.yaml',
         'nofile.yaml', 'sub/nofile.yaml', 'nodir/x.yaml', 'f0.yaml ', ' f0.yaml', 'f0.yaml\n', 'F0.YAML', 'f0.yaml\t', 'adir', 'd: 1',
         'f0.yaml/x', 'loop', 'bin.yaml', 'noperm.yaml', LONG1, LONG2, LONG3, '$ROOT/' + LONG1, LONGP, LONGP, '$ROOT/' + LONGP]
TEXTS = ['a: 1\n', 'a: 1', KEEP, 'k: |\n  clip\n\n\n', 'k: |-\n  strip\n\n', 'k: >+\n  fold\n  ed\n\n', '--- |+\n text\n\n', '\n\na: 1\n',
         'a: 1\n\n\n', '  a: 1  ', 'a: 1 \n \n', ' \n a: 1\n', 'a: 1\n---\nb: 2\n', 'a: 1\n...\n', '', ' ', '\n', 'main.yaml', 'conf/a.yaml',
         'x.yaml ', 'a: b: c', '{a: 1', 'x: !unsafe 1\n', "a: 'ü'\n", 'k: ' + 'v' * 300, 'k: |+\n  ' + 'v' * 300 + '\n\n\n', 'k: ' + 'w' * 5000 + '\n \n',
         'a/b: 1', 'a: "\x00"', '- 1\n- 2\n', '# only a comment\n', 'a: 1\t\n']
PATHS = ['f0.yaml', 'sub/g.yaml', '', './f0.yaml', 'sub//g.yaml', 'sub/', '~/h.yaml', 'nofile.yaml', 'a: b', 'ws.yaml ', 'adir', LONG1, '$ROOT/f1.yaml']
FNAMES = [None, None, None, 'given.yaml', '<stdin>', '', 'f0.yaml', 'ab', 'abc', '$ROOT/shown.yaml']
OPTIONS = ['f0.yaml', ' f0.yaml ', 'nofile.yaml', 'a b.yaml', 'sub/g.yaml', '~/h.yaml', 'adir', 'a=1', 'a.b=2', ' a.b[0] = x ', '{a: 1}', ' {a: 1} ',
           '{x: 1}', 'a: 1\nb: 2', KEEP, 'f0.yaml\n', 'k=v', '=5', 'a[x]=1', 'ü ñ.yaml', LONG1, 'bin.yaml', 'loop', 'ws.yaml ', ' f1.yaml ',
           'a: b', '$ROOT/f0.yaml', '!del x=1', 'k: |+\n  keep\n\n\n ']

def base_case(steps, **kw):
    c = {'kind': 'sources', 'files': copy.deepcopy(FILES), 'dirs': list(DIRS), 'bins': list(BINS), 'loops': list(LOOPS), 'unread': list(UNREAD),
         'bdef': True, 'outer': True, 'steps': steps}
    c.update(kw)
    return c

def A(src, raw=None, filename=None, safe=None):
    return {'api': 'add_source', 'src': src if isinstance(src, list) else ['str', src], 'raw': raw, 'filename': filename, 'safe': safe}

def SC(v): return {'scalar': v}
def SQ(l, tup=False): return {'seq': list(l), 'tuple': tup}

def srcs(xs):
    return [x if isinstance(x, list) else ['str', x] for x in xs]

# ------------------------------------------------------------------------------------------------
# generation
# ------------------------------------------------------------------------------------------------
def gen_src(rng):
    r = rng.random()
    if r < 0.42: return ['str', rng.choice(NAMES)]
    if r < 0.78: return ['str', rng.choice(TEXTS)]
    if r < 0.90: return ['path', rng.choice(PATHS)]
    if r < 0.96: return ['fobj', rng.choice(TEXTS + [c for _, c in FILES])]
    return ['fopen', rng.choice(['f0.yaml', 'f1.yaml', 'sub/g.yaml', 'crlf.yaml', 'empty.yaml'])]

def gen_barg(rng, n, pool):
    r = rng.random()
    if r < 0.5:
        return SC(rng.choice(pool))
    m = n if r < 0.9 else rng.choice([k for k in (0, 1, 2, 3, 4) if k != n])
    return SQ([rng.choice(pool) for _ in range(m)], rng.random() < 0.4)

def gen_step(rng):
    api = rng.choice(['add_source'] * 6 + ['add_multiple'] * 3 + ['config_build', 'cmdline', 'ways', 'ways'])
    if api == 'add_source':
        return A(gen_src(rng), rng.choice([None, None, None, False, True]), rng.choice(FNAMES), rng.choice([None, None, True, False]))
    if api == 'cmdline':
        if rng.random() < 0.3:
            return {'api': 'cmdline', 'options': [rng.choice(['g.yaml', 'g.yaml', ' g.yaml ', 'nofile.yaml', '{a: 1}', 'a=1', KEEP]) for _ in range(rng.choice([1, 1, 2, 3]))],
                    'lookup': rng.choice(['sub/', 'sub/', './sub/', '$ROOT/sub/'])}
        return {'api': 'cmdline', 'options': [rng.choice(OPTIONS) for _ in range(rng.choice([0, 1, 1, 2, 3]))]}
    n = rng.choice([0, 1, 2, 2, 3])
    ss = [gen_src(rng) for _ in range(n)]
    if api == 'ways':
        return {'api': 'ways', 'sources': ss, 'raw': rng.choice([None, None, False, True]), 'filename': rng.choice(FNAMES)}
    st = {'api': api, 'sources': ss, 'raw': gen_barg(rng, n, [None, None, False, True]), 'filename': gen_barg(rng, n, FNAMES)}
    if api == 'add_multiple':
        st['safe'] = gen_barg(rng, n, [None, None, True, False])
    return st

def gen_sources_case(rng):
    c = base_case([gen_step(rng) for _ in range(rng.choice([1, 1, 2, 3, 5]))],
                  bdef=rng.random() < 0.85, outer=rng.random() < 0.85)
    if rng.random() < 0.4:      # some of the files do not exist this time (a name that elsewhere is a file is YAML text here)
        c['files'] = [f for f in c['files'] if rng.random() < 0.7]
    return c

def corpus():
    out = []
    reps = ['f0.yaml', LONGP, 'a: b', 'nofile.yaml', KEEP, 'ws.yaml ', 'x.yaml ', '~/h.yaml', '$ROOT/f1.yaml', LONG1, LONG2, 'k: |\n  clip\n\n\n',
            '\n\na: 1\n\n\n', 'loop', 'crlf.yaml', 'two.yaml', '', 'a: "\x00"']
    for s in reps:      # the full product mode x filename, each on a builder of its own
        for raw in (None, False, True):
            out.append(base_case([A(s, raw, None), A(s, raw, 'given.yaml', False)]))
    out.append(base_case([A(['path', p], raw, fn) for p in ('f0.yaml', '', 'sub//g.yaml', 'nofile.yaml', '~/h.yaml') for raw in (None, False, True) for fn in (None, 'p.yaml')]))
    out.append(base_case([A(['fobj', KEEP], raw, fn) for raw in (None, False, True) for fn in (None, 'o.yaml')] + [A(['fopen', 'f1.yaml']), A(['fopen', 'crlf.yaml'], False, 'n')]))
    # witnesses of repo fixes D48 (a directory / a path through a file given with raw_yaml=None raises) and D47 (no name is kept after a failed read)
    out.append(base_case([A('adir'), A('adir', False), A('f0.yaml/x'), A('d: 1', None, 'n.yaml')]))
    out.append(base_case([A('bin.yaml'), A('x: 1', True), A('y: 2', True)]))
    out.append(base_case([A('noperm.yaml'), A('noperm.yaml', False)]))
    # a source after another one inherits nothing; safe flags
    out.append(base_case([A('f0.yaml'), A('x: 1'), A('nofile.yaml', False), A('y: 2', True), A('a: b: c'), A('z: 3', None, None, True)], bdef=False))
    out.append(base_case([A('f0.yaml', None, None, s) for s in (None, True, False)], outer=False))
    # add_multiple_sources: scalars, per-source sequences, a str filename is a scalar, mismatches
    M = lambda ss, raw, fn, safe: {'api': 'add_multiple', 'sources': srcs(ss), 'raw': raw, 'filename': fn, 'safe': safe}
    out.append(base_case([M(['f0.yaml', 'x: 1'], SC(None), SC('ab'), SC(None)), M(['f1.yaml', KEEP, 'nofile.yaml'], SQ([False, True, None]), SQ([None, 'k', None], True), SC(False))]))
    out.append(base_case([M(['f0.yaml', 'x: 1'], SQ([None]), SC(None), SC(None)), M(['f0.yaml', 'x: 1'], SC(None), SQ(['a', 'b', 'c']), SQ([])), M(['f0.yaml'], SC(None), SC(None), SQ([True, False])),
                          M([], SC(None), SC('x'), SC(None)), M(['f0.yaml', 'nofile.yaml', 'f1.yaml'], SC(False), SC(None), SC(None))]))
    out.append(base_case([{'api': 'config_build', 'sources': srcs(['f0.yaml', '~/h.yaml', 'x: 1', ['path', 'sub/g.yaml']]), 'raw': SC(None), 'filename': SC(None)},
                          {'api': 'config_build', 'sources': srcs(['f0.yaml', 'x: 1']), 'raw': SQ([False, True]), 'filename': SQ(['m', None])},
                          {'api': 'config_build', 'sources': srcs(['f0.yaml']), 'raw': SC(None), 'filename': SQ([])}]))
    out.append(base_case([{'api': 'cmdline', 'options': ['g.yaml', '{a: 1}'], 'lookup': 'sub/'}, {'api': 'cmdline', 'options': [' g.yaml ', 'nofile.yaml'], 'lookup': '$ROOT/sub/'}]))
    out.append(base_case([{'api': 'cmdline', 'options': [' f0.yaml ', '{a: 1} ', 'a.b=2', KEEP]}, {'api': 'cmdline', 'options': ['nofile.yaml']},
                          {'api': 'cmdline', 'options': ['{x: 1}', 'k=v', 'a: b']}, {'api': 'cmdline', 'options': ['f0.yaml', '=5']}, {'api': 'cmdline', 'options': []}]))
    out.append(base_case([{'api': 'ways', 'sources': srcs(['f0.yaml', 'f1.yaml', KEEP, 'ws.yaml ']), 'raw': None, 'filename': None},
                          {'api': 'ways', 'sources': srcs(['f0.yaml', 'nofile.yaml', 'f1.yaml']), 'raw': False, 'filename': 'ab'},
                          {'api': 'ways', 'sources': srcs(['a: 1\n', ['path', 'f0.yaml']]), 'raw': True, 'filename': None}]))
    return out

# ------------------------------------------------------------------------------------------------
# the run on the implementation
# ------------------------------------------------------------------------------------------------
def _sub(s, root):
    return s.replace('$ROOT', root) if isinstance(s, str) else s

def _barg_py(b, root):
    if 'scalar' in b:
        return _sub(b['scalar'], root)
    l = [_sub(x, root) for x in b['seq']]
    return tuple(l) if b.get('tuple') else l

def _barg_model(b, root):
    return {'scalar': _sub(b['scalar'], root)} if 'scalar' in b else {'seq': [_sub(x, root) for x in b['seq']]}

def _step_sources(step):
    return [step['src']] if step['api'] == 'add_source' else step.get('sources', [])

def _classify(e, api):
    if isinstance(e, ayerrors.ParsingError): return {'err': 'ParsingError'}
    if isinstance(e, UnicodeDecodeError): return {'err': 'UnicodeDecodeError'}
    if isinstance(e, OSError):
        r = {'err': type(e).__name__, 'file': e.filename if isinstance(e.filename, str) else repr(e.filename)}
        if type(e) is OSError:
            r['errno'] = e.errno
        return r
    if isinstance(e, IndexError) and api == 'cmdline': return {'err': 'IndexError', 'what': 'cmdline'}
    if isinstance(e, ValueError):
        m = str(e)
        if 'source is expected to be string' in m: return {'err': 'ValueError', 'what': 'raw'}
        mm = re.match(r"Length of 'sources' and '(\w+)' must match", m)
        if mm: return {'err': 'ValueError', 'arg': mm.group(1)}
        if 'embedded null' in m: return {'err': 'ValueError', 'what': 'open'}
        if api == 'cmdline': return {'err': 'ValueError', 'what': 'cmdline'}
    return {'err': 'other:' + type(e).__name__ + ':' + str(e)[:100]}

def _probe_open(s):
    x = os.path.expanduser(s)
    try:
        with open(x, 'r') as f:
            try:
                return x, {'content': f.read()}
            except UnicodeDecodeError:
                return x, 'undecodable'
    except FileNotFoundError:
        return x, 'notfound'
    except OSError as e:
        return x, ({'oserror': e.errno} if type(e) is OSError else {'ossub': type(e).__name__})
    except ValueError:
        return x, 'valueerror'

def _strip(s):
    return s.strip()

def _plan_kind(case, s, root):
    """what the string s (as passed, $ROOT replaced) denotes according to what the harness created: ('file', content as read) |
    ('nofile',) | ('long',) | ('dir',) | ('notdir',) | ('loop',) | ('bin',) | ('unread',) | ('nul',) | ('other',)"""
    if '\x00' in s: return ('nul',)
    x = os.path.expanduser(s)
    if x == '': return ('nofile',)
    if x.endswith('/') or x.endswith('/.') or x in ('.', '..'): return ('other',)
    full = posixpath.normpath(posixpath.join(root, x))
    if not (full == root or full.startswith(root + '/')): return ('other',)
    files = dict((f, c) for f, c in case['files'])
    alldirs = set(case['dirs']) | {'.', 'home'}
    for f in list(files) + case['bins'] + case['unread'] + case['dirs']:
        d = posixpath.dirname(f)
        while d:
            alldirs.add(d); d = posixpath.dirname(d)
    if len(os.fsencode(full)) >= 4096 or any(len(os.fsencode(c)) > 255 for c in full.split('/')):
        comps = posixpath.relpath(full, root).split('/')
        first = next(k for k, c in enumerate(comps) if len(os.fsencode(c)) > 255) if len(os.fsencode(full)) < 4096 else 0
        return ('long',) if first == 0 or '/'.join(comps[:first]) in alldirs else ('other',)      # a missing directory before the long component: ENOENT wins
    rel = posixpath.relpath(full, root)
    if '..' in x.split('/') or '.' in x.split('/')[1:]:      # lexical normalisation is not what the OS does when a component is missing
        parts, cur, okdirs = x.split('/'), (root if not x.startswith('/') else ''), True
        for p in parts[:-1]:
            cur = posixpath.normpath(posixpath.join(cur, p)) if cur else '/' + p
            if cur.startswith(root) and posixpath.relpath(cur, root) not in alldirs: okdirs = False
        if not okdirs: return ('other',)
    if rel in files:
        return ('file', files[rel].replace('\r\n', '\n').replace('\r', '\n'))      # text mode: universal newlines
    if rel in case['bins']: return ('bin',)
    if rel in case['loops']: return ('loop',)
    if rel in case['unread']: return ('unread',) if os.geteuid() != 0 else ('file', 'q: 1\n')
    if rel in alldirs: return ('dir',)
    d = posixpath.dirname(rel)
    while d:
        if d in files or d in case['bins'] or d in case['unread']: return ('notdir',)
        if d in case['loops']: return ('other',)
        d = posixpath.dirname(d)
    return ('nofile',)

def _expect_one(case, root, src, raw, fname, safe, bdef, outer):
    """spec of ONE add_source from the plan: ('call', text, name, safe, fobj) | ('err', {...}) | None"""
    sf = bool((safe if safe is not None else bdef) and bdef and outer)
    kind = src[0]
    if raw and kind != 'str':
        return ('err', {'err': 'ValueError', 'what': 'raw'})
    if kind in ('fobj', 'fopen'):
        return ('call', src[1], fname, sf, True)
    s = src[1]
    if raw:
        return ('call', s, fname, sf, False)
    pk = _plan_kind(case, s, root)
    x = os.path.expanduser(s)
    if pk[0] == 'file':
        return ('call', pk[1], fname if fname is not None else s, sf, False)
    if pk[0] in ('nofile', 'long'):
        if raw is None:
            return ('call', s, fname, sf, False)
        return ('err', {'err': 'FileNotFoundError', 'file': x} if pk[0] == 'nofile' else {'err': 'OSError', 'errno': 36, 'file': x})
    if pk[0] == 'loop':
        return ('err', {'err': 'OSError', 'errno': 40, 'file': x})
    if pk[0] in ('dir', 'notdir', 'unread'):
        e = {'err': {'dir': 'IsADirectoryError', 'notdir': 'NotADirectoryError', 'unread': 'PermissionError'}[pk[0]], 'file': x}
        return ('err', e)
    if pk[0] == 'bin':
        return ('err', {'err': 'UnicodeDecodeError'})
    if pk[0] == 'nul':
        return ('err', {'err': 'ValueError', 'what': 'open'})
    return None

def _check_seq(case, root, label, per_source, got, bdef, outer, complete=True):
    """per_source: [(src, raw, fname, safe)..] given one by one; got: {'res','calls'(full records),'cur'}.  The first discrepancy, as a list."""
    calls, i, msgs = got['calls'], 0, []
    for (src, raw, fname, safe) in per_source:
        exp = _expect_one(case, root, src, raw, fname, safe, bdef, outer)
        if exp is None:
            return msgs
        if exp[0] == 'err':
            if len(calls) != i or got['res'] != exp[1]:
                return msgs + [f'{label}: source {src!r} raw_yaml={raw!r}: expected {exp[1]} and no parser call for it, got {got["res"]} after {len(calls)} call(s)']
            return msgs
        _, text, name, sf, fobj = exp
        if i >= len(calls):
            return msgs + [f'{label}: source {src!r} raw_yaml={raw!r}: no parser call (result {got["res"]}), expected text {text[:60]!r} name {name!r}']
        c = calls[i]
        if c['text'] != text:
            return msgs + [f'{label}: source {src!r} raw_yaml={raw!r}: the parser was handed {c["text"][:80]!r} ({len(c["text"])} characters), '
                           f'expected {text[:80]!r} ({len(text)} characters)']
        if c['name'] != name:
            return msgs + [f'{label}: source {src!r} raw_yaml={raw!r} filename={fname!r}: recorded file name {c["name"]!r}, expected {name!r}']
        if c['safe'] != sf:
            return msgs + [f'{label}: source {src!r} safe={safe!r} (builder default {bdef}, outer {outer}): default-safe flag in force {c["safe"]}, expected {sf}']
        if c['fobj'] != fobj:
            return msgs + [f'{label}: source {src!r}: the parser got a {"file object" if c["fobj"] else "str"}']
        if c['parse_error']:
            if got['res'] != {'err': 'ParsingError'} or len(calls) != i + 1:
                return msgs + [f'{label}: the parser raised on {text[:40]!r} but the call gives {got["res"]} after {len(calls)} call(s)']
            return msgs
        i += 1
    if complete and (got['res'] != 'ok' or len(calls) != i):
        return msgs + [f'{label}: every source is fine: expected {i} parser call(s) and no exception, got {len(calls)} and {got["res"]}']
    return msgs

def _spec_broadcast(b, n, root):
    """the broadcasting rule of the docstring: a scalar (str included) applies to every source, a sequence must have n items"""
    if 'scalar' in b:
        return [_sub(b['scalar'], root)] * n
    return [_sub(x, root) for x in b['seq']] if len(b['seq']) == n else None

def run_sources(case):
    """materialise, run every step through the real API, return the observation (temporary root replaced by VROOT_S)"""
    real = os.path.realpath(tempfile.mkdtemp(prefix='ayc06s_', dir=VBASE_S))
    old_cwd, old_home = os.getcwd(), os.environ.get('HOME')
    real_parse, real_builder, old_flag = ayyaml.parse, aybuilder.Builder, aybuilder.Builder._default_safe_flag
    opened, created = [], []
    try:
        for d in case['dirs'] + ['home']:
            os.makedirs(posixpath.join(real, d), exist_ok=True)
        for f, content in case['files']:
            os.makedirs(posixpath.dirname(posixpath.join(real, f)) or real, exist_ok=True)
            with open(posixpath.join(real, f), 'wb') as fh:
                fh.write(content.encode('utf-8'))
        for f in case['bins']:
            with open(posixpath.join(real, f), 'wb') as fh:
                fh.write(b'a: \xff\xfe\n')
        for f in case['loops']:
            os.symlink(f, posixpath.join(real, f))
        for f in case['unread']:
            with open(posixpath.join(real, f), 'w') as fh:
                fh.write('q: 1\n')
            os.chmod(posixpath.join(real, f), 0)
        os.chdir(real)
        os.environ['HOME'] = posixpath.join(real, 'home')

        rec, state = [], {'delegate': True}
        def fake_parse(data, filename_or_builder=None, config_nodes=True):
            fobj = not isinstance(data, str)
            text = data.read() if fobj else data
            b = filename_or_builder
            r = {'text': text, 'name': b.get_current_file() if hasattr(b, 'get_current_file') else None,
                 'dfname': getattr(ConfigNode._default_filename, 'value', None), 'safe': bool(getattr(ConfigNode._default_safe, 'value', True)),
                 'fobj': fobj, 'parse_error': False}
            rec.append(r)
            if not state['delegate']:
                return iter(())
            def gen():
                try:
                    yield from real_parse(text, b, config_nodes)
                except Exception:
                    r['parse_error'] = True
                    raise
            return gen()
        class RecBuilder(real_builder):
            def __init__(self):
                super().__init__()
                created.append(self)
        ayyaml.parse = fake_parse
        aybuilder.Builder = RecBuilder
        real_builder._default_safe_flag = case['bdef']

        def mk(src):
            if src[0] == 'str': return _sub(src[1], real)
            if src[0] == 'path': return pathlib.Path(_sub(src[1], real))
            if src[0] == 'fobj': return io.StringIO(src[1])
            try:
                fh = open(_sub(src[1], real), 'r'); opened.append(fh); return fh
            except OSError:
                return io.StringIO('')
        def src_model(src):
            if src[0] == 'str': return ['str', _sub(src[1], real)]
            if src[0] == 'path': return ['path', str(pathlib.PurePosixPath(_sub(src[1], real)))]
            if src[0] == 'fobj': return ['fobj', src[1]]
            try:
                with open(_sub(src[1], real), 'r') as fh: return ['fobj', fh.read()]
            except OSError:
                return ['fobj', '']
        def call(fn, api):
            del rec[:]
            try:
                with ConfigNode.default_safe_flag(case['outer']):
                    fn()
                return 'ok'
            except Exception as e:  # noqa
                return _classify(e, api)
        def snapshot(res, b, api):
            return {'res': res, 'calls': [dict(c) for c in rec], 'cur': b._current_file if b is not None else None,
                    'stages': len(b.stages) if b is not None else 0}

        shared = real_builder()
        steps_obs, checks, msteps = [], [], []
        bdef, outer = case['bdef'], case['outer']
        for k, step in enumerate(case['steps']):
            api, label = step['api'], f'step {k} {step["api"]}'
            if api == 'add_source':
                state['delegate'] = True
                res = call(lambda: shared.add_source(mk(step['src']), raw_yaml=step['raw'], filename=_sub(step['filename'], real), safe=step['safe']), api)
                o = snapshot(res, shared, api)
                steps_obs.append(o)
                msteps.append(dict(step, src=src_model(step['src']), filename=_sub(step['filename'], real)))
                checks.extend(_check_seq(case, real, label, [(src_model(step['src']), step['raw'], _sub(step['filename'], real), step['safe'])], o, bdef, outer))
            elif api == 'add_multiple':
                state['delegate'] = True
                res = call(lambda: shared.add_multiple_sources(*[mk(s) for s in step['sources']], raw_yaml=_barg_py(step['raw'], real),
                                                               filename=_barg_py(step['filename'], real), safe=_barg_py(step['safe'], real)), api)
                o = snapshot(res, shared, api)
                steps_obs.append(o)
                msteps.append({'api': api, 'sources': [src_model(s) for s in step['sources']], 'raw': _barg_model(step['raw'], real),
                               'filename': _barg_model(step['filename'], real), 'safe': _barg_model(step['safe'], real)})
                checks.extend(_check_multi(case, real, label, step, [src_model(s) for s in step['sources']], o, bdef, outer, ('raw', 'filename', 'safe')))
            elif api == 'config_build':
                state['delegate'] = False
                del created[:]
                res = call(lambda: Config.build(*[mk(s) for s in step['sources']], raw_yaml=_barg_py(step['raw'], real), filename=_barg_py(step['filename'], real)), api)
                o = snapshot(res, created[0] if created else None, api)
                steps_obs.append(o)
                msteps.append({'api': api, 'sources': [src_model(s) for s in step['sources']], 'raw': _barg_model(step['raw'], real),
                               'filename': _barg_model(step['filename'], real)})
                checks.extend(_check_multi(case, real, label, dict(step, safe=SC(None)), [src_model(s) for s in step['sources']], o, bdef, outer, ('raw', 'filename')))
            elif api == 'cmdline':
                state['delegate'] = False
                del created[:]
                opts = [_sub(x, real) for x in step['options']]
                lk = _sub(step['lookup'], real) if step.get('lookup') else None
                if lk:
                    # a file-name lookup function (names are mapped into a directory): the same as giving the mapped names - what is
                    # opened AND what is recorded as the file (seeded change S9-C06: the name as typed was recorded)
                    look = lambda n: lk + n
                    res = call(lambda: Config.build_from_cmdline(*opts, filename_lookup_fn=look), api)
                    def _is_file_opt(x):
                        t = x.strip()
                        return not ('\n' in t or (t.startswith('{') and t.endswith('}'))) and '=' not in t
                    opts = [(lk + x.strip()) if _is_file_opt(x) else x for x in opts]
                else:
                    res = call(lambda: Config.build_from_cmdline(*opts), api)
                o = snapshot(res, created[0] if created else None, api)
                steps_obs.append(o)
                msteps.append({'api': 'cmdline', 'options': opts})
                checks.extend(_check_cmdline(case, real, label, opts, o, bdef, outer))
            elif api == 'ways':
                state['delegate'] = False
                fn = _sub(step['filename'], real)
                ws = []
                b1 = real_builder()
                def one_by_one():
                    for s in step['sources']:
                        b1.add_source(mk(s), raw_yaml=step['raw'], filename=fn)
                ws.append(snapshot(call(one_by_one, api), b1, api))
                b2 = real_builder()
                ws.append(snapshot(call(lambda: b2.add_multiple_sources(*[mk(s) for s in step['sources']], raw_yaml=step['raw'], filename=fn), api), b2, api))
                del created[:]
                r3 = call(lambda: Config.build(*[mk(s) for s in step['sources']], raw_yaml=step['raw'], filename=fn), api)
                ws.append(snapshot(r3, created[0] if created else None, api))
                steps_obs.append({'ways': ws})
                msteps.append(dict(step, sources=[src_model(s) for s in step['sources']], filename=fn))
                key = lambda w: (json.dumps(w['res'], sort_keys=True), [(c['text'], c['name'], c['safe']) for c in w['calls']])
                for nm, w in zip(('add_multiple_sources', 'Config.build'), ws[1:]):
                    if key(w) != key(ws[0]):
                        checks.append(f'{label}: the same sources given one by one with add_source and with {nm} reach the parser differently: '
                                      f'{key(ws[0])!r:.300} vs {key(w)!r:.300}')
                checks.extend(_check_seq(case, real, label, [(src_model(s), step['raw'], fn, None) for s in step['sources']], ws[0], bdef, outer))
            else:
                raise ValueError(api)
            for o in (steps_obs[-1]['ways'] if 'ways' in steps_obs[-1] else [steps_obs[-1]]):
                for c in o['calls']:
                    if c['name'] != c['dfname']:
                        checks.append(f'{label}: builder.get_current_file() is {c["name"]!r} but ConfigNode default file name is {c["dfname"]!r} inside the parser call')
                if o['cur'] is not None:
                    checks.append(f'{label}: after the call the builder\'s current file is {o["cur"]!r}, not None: a later source without a name inherits it')

        # what the model is given: the file system as `open` shows it, the parser on every candidate text
        ayyaml.parse, aybuilder.Builder = real_parse, real_builder
        names, texts = [], []
        for st in msteps:
            for s in ([st['src']] if st['api'] == 'add_source' else st.get('sources', [])):
                if s[0] in ('str', 'path'):
                    names.append(s[1])
                texts.append(s[1])
            for o in st.get('options', []):
                names += [o, _strip(o)]
        fs, seen = [], set()
        for nm in names:
            if nm not in seen:
                seen.add(nm)
                x, out = _probe_open(nm)
                fs.append([nm, x, out])
                if isinstance(out, dict) and 'content' in out:
                    texts.append(out['content'])
        parser, seen = [], set()
        for t in texts:
            if t not in seen:
                seen.add(t)
                n = 0
                try:
                    for node in real_parse(t, real_builder()):
                        if node is not None:
                            n += 1
                    parser.append([t, n, False])
                except Exception:  # noqa
                    parser.append([t, n, True])
        obs = {'steps': steps_obs, 'checks': checks, 'request': {'op': 'sources', 'fs': fs, 'parser': parser, 'bdef': bdef, 'outer': outer, 'steps': msteps},
               'root': real}
    finally:
        ayyaml.parse, aybuilder.Builder = real_parse, real_builder
        real_builder._default_safe_flag = old_flag
        for fh in opened:
            try: fh.close()
            except Exception: pass
        os.chdir(old_cwd)
        if old_home is None: os.environ.pop('HOME', None)
        else: os.environ['HOME'] = old_home
        for f in case['unread']:
            try: os.chmod(posixpath.join(real, f), 0o600)
            except OSError: pass
        shutil.rmtree(real, ignore_errors=True)
    return json.loads(json.dumps(obs).replace(real, VROOT_S))

def _check_multi(case, root, label, step, msrcs, o, bdef, outer, argnames):
    n = len(msrcs)
    cols = {}
    for nm in ('raw', 'filename', 'safe'):
        cols[nm] = _spec_broadcast(step[nm], n, root)
    for nm, arg in (('raw', 'raw_yaml'), ('filename', 'filename'), ('safe', 'safe')):
        if cols[nm] is None:
            if nm not in argnames:
                return []
            if o['res'] != {'err': 'ValueError', 'arg': arg} or o['calls']:
                return [f'{label}: {arg} has {len(step[nm]["seq"])} item(s) for {n} source(s): expected ValueError naming {arg!r} before anything is parsed, '
                        f'got {o["res"]} after {len(o["calls"])} parser call(s)']
            return []
    return _check_seq(case, root, label, list(zip(msrcs, cols['raw'], cols['filename'], cols['safe'])), o, bdef, outer)

def _check_cmdline(case, root, label, opts, o, bdef, outer):
    per, complete = [], True
    for i, opt in enumerate(opts):
        s = opt.strip()
        if '\n' in s or (s.startswith('{') and s.endswith('}')):
            per.append((['str', opt], True, f'<Commandline argument #{i + 1}>', None))
        elif '=' in s:
            complete = False     # an inline override: the emitted text is C08's business; the options before it are checked
            break
        else:
            per.append((['str', s], False, s, None))
    if not complete and isinstance(o['res'], dict) and o['res'].get('what') == 'cmdline':
        return []                # process_cmdline raised on a later option before anything was added
    return _check_seq(case, root, label, per, o, bdef, outer, complete)

# ------------------------------------------------------------------------------------------------
# the interface used by props/c06.py
# ------------------------------------------------------------------------------------------------
_CACHE = {}
def _run_cached(case):
    k = json.dumps(case, sort_keys=True)
    if k not in _CACHE:
        if len(_CACHE) > 4000:
            _CACHE.clear()
        _CACHE[k] = run_sources(case)
    return _CACHE[k]

def impl(case):
    _CACHE.pop(json.dumps(case, sort_keys=True), None)
    return _run_cached(case)

def model_requests(case):
    return [_run_cached(case)['request']]

def model_obs(case, answers):
    return {'sources': answers[0]}

def _strip_call(c):
    return [c['text'], c['name'], c['safe']]

def _cmp_ans(label, i, m):
    if i['res'] != m['res']:
        return f'{label}: implementation {json.dumps(i["res"])}, model {json.dumps(m["res"])}'
    ic = [_strip_call(c) for c in i['calls']]
    if ic != m['calls']:
        for k, (a, b) in enumerate(zip(ic, m['calls'])):
            if a != b:
                return f'{label}: parser call {k}: implementation (text, name, safe) = {json.dumps(a, ensure_ascii=False)[:300]}, model {json.dumps(b, ensure_ascii=False)[:300]}'
        return f'{label}: implementation makes {len(ic)} parser call(s), model {len(m["calls"])}'
    if i['cur'] != m['cur']:
        return f'{label}: current file afterwards: implementation {i["cur"]!r}, model {m["cur"]!r}'
    if i['stages'] != m['stages']:
        return f'{label}: number of stages afterwards: implementation {i["stages"]}, model {m["stages"]}'
    return None

def compare(case, io, mo):
    a = mo['sources']
    if 'bad' in a:
        return 'driver op sources failed: ' + a['bad']
    if len(a['steps']) != len(io['steps']):
        return f'model answered {len(a["steps"])} steps for {len(io["steps"])}'
    for k, (st, i, m) in enumerate(zip(case['steps'], io['steps'], a['steps'])):
        label = f'step {k} {st["api"]}'
        if 'ways' in i:
            for w, (iw, mw) in enumerate(zip(i['ways'], m['ways'])):
                d = _cmp_ans(f'{label} way {w}', iw, mw)
                if d: return d
        else:
            d = _cmp_ans(label, i, m)
            if d: return d
    return None

def oracle(case, io, ans):
    checks = io.get('checks') or []
    return checks[0] if checks else None

def finding_key(case, desc):
    return None

def nontrivial(case, io):
    return any(o.get('calls') or any(w.get('calls') for w in o.get('ways', [])) for o in io.get('steps', []))

def features(case, io):
    f = {'kind:sources', f'src:steps={len(case["steps"])}', f'src:bdef={case["bdef"]}', f'src:outer={case["outer"]}'}
    root = VROOT_S
    for st, o in zip(case['steps'], io.get('steps', []) if isinstance(io, dict) else []):
        f.add('src:api:' + st['api'])
        for w in (o['ways'] if 'ways' in o else [o]):
            r = w['res']
            f.add('src:res:' + (r if isinstance(r, str) else r['err'][:30]))
            if len(w['calls']) > 1: f.add('src:calls>1')
        for s in _step_sources(st):
            f.add('src:kind:' + s[0])
            if s[0] == 'str':
                try:
                    f.add('src:denotes:' + _plan_kind(case, _sub(s[1], root), root)[0])
                except Exception:
                    pass
                if s[1] != s[1].strip(): f.add('src:text-with-outer-whitespace')
                if '|' in s[1] and s[1].endswith('\n\n'): f.add('src:block-scalar-with-trailing-breaks')
        if st['api'] in ('add_source', 'ways'):
            f.add(f'src:raw={st["raw"]}'); f.add('src:filename=' + ('given' if st['filename'] is not None else 'None'))
        for nm in ('raw', 'filename', 'safe'):
            if isinstance(st.get(nm), dict):
                f.add(f'src:{nm}:' + ('scalar' if 'scalar' in st[nm] else 'seq' + ('' if len(st[nm]['seq']) == len(st.get('sources', [])) else '-mismatch')))
    return sorted(f)

def shrink(case):
    steps = case['steps']
    for i in range(len(steps)):
        if len(steps) > 1:
            yield dict(case, steps=steps[:i] + steps[i + 1:])
    for i, st in enumerate(steps):
        ss = st.get('sources')
        if ss and len(ss) > 1 and all('scalar' in st[nm] for nm in ('raw', 'filename', 'safe') if isinstance(st.get(nm), dict)):
            for j in range(len(ss)):
                yield dict(case, steps=steps[:i] + [dict(st, sources=ss[:j] + ss[j + 1:])] + steps[i + 1:])
        if st['api'] == 'cmdline' and len(st['options']) > 1:
            for j in range(len(st['options'])):
                yield dict(case, steps=steps[:i] + [dict(st, options=st['options'][:j] + st['options'][j + 1:])] + steps[i + 1:])
        if st['api'] == 'add_source':
            for fld in ('filename', 'safe'):
                if st[fld] is not None:
                    yield dict(case, steps=steps[:i] + [dict(st, **{fld: None})] + steps[i + 1:])
    for fld, val in (('bdef', True), ('outer', True)):
        if case[fld] != val:
            yield dict(case, **{fld: val})
    for fld in ('files', 'dirs', 'bins', 'loops', 'unread'):
        for j in range(len(case[fld])):
            yield dict(case, **{fld: case[fld][:j] + case[fld][j + 1:]})

def render(case):
    return {'family': 'sources (working directory = a fresh temporary directory = $ROOT, HOME = $ROOT/home)',
            'files': {f: c for f, c in case['files']}, 'directories': case['dirs'], 'not-utf8': case['bins'], 'symlink-loops': case['loops'],
            'chmod-0': case['unread'], 'Builder._default_safe_flag': case['bdef'], 'ConfigNode default-safe around the calls': case['outer'],
            'steps': case['steps']}
