"""Generators of configs with dynamic nodes (xref / call / bind / restricted eval / import), unsafe
markers and per-source safe flags. Mostly-valid by construction: references are filled in after the
skeleton exists, arguments are chosen to fit the signatures; a separate error stream (p_bad) injects
dangling references, unknown names, misfit arguments, placeholders and cycles."""
import random
from common import S, Sempty, Stext, Q, M, sc_py, NodePath
import gen_merge as G

VARSIG = [['a', 'va', None], ['k', 'vk', None]]
WORLD = {
    'sigs': [['rec.f', VARSIG], ['rec.g', VARSIG], ['rec.none', VARSIG], ['rec.kw', VARSIG],
             ['sig.f1', [['a', 'pk', [0]], ['b', 'pk', [0]]]],
             ['sig.f2', [['a', 'pk', None], ['b', 'pk', ['B']], ['rest', 'va', None], ['k', 'ko', ['K']], ['kw', 'vk', None]]],
             ['sig.f3', [['x', 'pk', None], ['y', 'ko', None]]]],
    'modules': ['rec', 'sig'],
    'syms': ['T', 'S1'],
    'builtins': ['len', 'min'],
    'cwd': '/',
}
TOP = ['a', 'b', 'c', 'k', 'x', 'd', 'e']
P_OPS = 0.15    # share of list values written as !extend / !append
GOOD_ARGS = {  # key sets that bind successfully
    'rec.f': [[], [0], [0, 1], ['p'], [0, 'p'], [0, 1, 2, 'q']],
    'rec.g': [[], [0], ['p', 'q'], [0, 1]],
    'rec.none': [[], [0], ['p']], 'rec.kw': [[], ['p'], ['p', 'q'], ['a', 'z']],
    'sig.f1': [[], [0], [0, 1], ['a'], ['b'], ['a', 'b'], [0, 'b'], [1]],
    'sig.f2': [[0], ['a'], [0, 1], [0, 1, 2, 3], [0, 'k'], ['a', 'zz'], [0, 'b', 'k', 'w'], [0, 3]],
    'sig.f3': [[0, 'y'], ['x', 'y'], [0, 1]],
}
BAD_ARGS = {
    'rec.f': [[1], [0, 2]], 'rec.g': [[2]], 'rec.none': [[1]], 'rec.kw': [[1]], 'sig.f1': [[0, 'a'], [2], ['zz'], [0, 1, 2]], 'sig.f2': [[], ['b'], [0, 'a']],
    'sig.f3': [[0], ['y'], [0, 'x', 'y'], [5]],
}

# size amplification (seeded round 8): a share of the cases is BIG - lists of 10-13 mostly plain elements (with the usual share
# of !unsafe marks on single elements), 8-10 top-level keys (many forward references), one level deeper
EBIG = False
P_EBIG = 0.08
TOP_BIG = TOP + ['f', 'g', 'h', 'm', 'n', 'p', 'q', 'r']

def pstr(path):
    return NodePath.join_path(list(path))

class Hole:
    """placeholder for a reference / name list, filled once the skeleton is known"""
    def __init__(self, kind, kw): self.kind, self.kw = kind, kw

def gen_val(rng, depth, p_unsafe, p_bad, dyn=True):
    kw = {'safe': False} if rng.random() < p_unsafe else ({'safe': True} if rng.random() < p_unsafe * 0.3 else {})
    r = rng.random()
    if dyn and r < 0.20:
        return Hole('xref', kw)
    if dyn and r < 0.36:
        bad = rng.random() < p_bad
        f = rng.choice(['rec.f', 'rec.f', 'rec.g', 'sig.f1', 'sig.f2', 'sig.f3', 'rec.none', 'rec.kw'])
        kind = rng.choice(['call', 'call', 'bind'])
        keys = rng.choice((BAD_ARGS if bad and rng.random() < 0.7 else GOOD_ARGS)[f])
        if bad and rng.random() < 0.3:
            f = 'nope.f'
        if keys == list(range(len(keys))) and rng.random() < 0.4:
            return Q([gen_val(rng, depth - 1, p_unsafe, p_bad) for _ in keys], tag={'k': kind, 'f': f}, kw=kw)
        return M([(k, gen_val(rng, depth - 1, p_unsafe, p_bad)) for k in keys], tag={'k': kind, 'f': f}, kw=kw)
    if dyn and r < 0.46:
        return Hole('eval', kw)
    if dyn and r < 0.48:
        return Stext(rng.choice(['rec', 'sig'] + (['nomod'] if rng.random() < p_bad else [])), 'import')
    if dyn and r < 0.48 + 0.03 * p_bad:
        return Sempty('required')
    if depth <= 0 or r < 0.72:
        # plain strings that NAME a callable too: merged onto a !call / !bind node they re-target it (seeded change S5-C07: an unsafe
        # string must hand its unsafety to the function node it renames)
        return S(rng.choice([0, 1, 12, 'p', 'q', True, None, 1.5, 'rec.g', 'rec.f', 'rec.g']), kw=kw)
    if r < 0.84:
        if EBIG and rng.random() < 0.4:
            items = [gen_val(rng, 0, p_unsafe, p_bad, dyn=rng.random() < 0.1) for _ in range(rng.choice([10, 11, 12, 13]))]
        else:
            items = [gen_val(rng, depth - 1, p_unsafe, p_bad) for _ in range(rng.choice([0, 1, 2, 3]))]
        if dyn and rng.random() < P_OPS:
            # premerge operators holding dynamic nodes, with their own flags (seeded change S4-C07: an operator that turns
            # into a plain list must keep its marks); !extend needs no destination, !append fails without one
            if not items or rng.random() < 0.5:
                items = items + [gen_val(rng, 0, p_unsafe, p_bad), M([], tag={'k': rng.choice(['call', 'bind']), 'f': 'rec.f'})][rng.randrange(2):]
            if not kw and rng.random() < 0.4:
                kw = {'safe': False}
            return Q(items, tag=rng.choice(['extend', 'extend', 'append']), kw=kw)
        return Q(items, kw=kw)
    keys = rng.sample(['a', 'b', 'c', 'z', 'y'], rng.choice([0, 1, 2, 3]))
    return M([(k, gen_val(rng, depth - 1, p_unsafe, p_bad)) for k in keys], kw=kw)

def collect_paths(n, pre=()):
    out = []
    if isinstance(n, Hole):
        return [pre]
    out.append(pre)
    if 'm' in n:
        for k, c in n['m']:
            out += collect_paths(c, pre + (sc_py(k),))
    elif 'q' in n:
        for i, c in enumerate(n['q']):
            out += collect_paths(c, pre + (i,))
    return out

def _lists_of(n, pre=()):
    out = []
    if isinstance(n, Hole):
        return out
    if 'q' in n:
        out.append((pre, n))
        for i, c in enumerate(n['q']):
            out += _lists_of(c, pre + (i,))
    elif 'm' in n:
        for k, c in n['m']:
            out += _lists_of(c, pre + (sc_py(k),))
    return out

def fill(rng, n, paths, tops, p_bad, here=(), paths_src=None):
    if isinstance(n, Hole):
        if n.kind == 'xref':
            cands = [p for p in paths if p and p != here and here[:len(p)] != p]
            if cands and rng.random() >= p_bad:
                tgt = rng.choice(cands)
            else:
                # dangling references: unknown names, and positions outside a list that exists (past the end, or counted from the
                # end beyond its start: 'a[5]', 'a[-3]' for a two-element list; seeded change S5-C09)
                lists = [(p, len(nd['q'])) for p, nd in _lists_of(paths_src) ] if paths_src is not None else []
                off = []
                if lists:
                    lp, ln = rng.choice(lists)
                    off = [lp + (ln + rng.choice([0, 1, 3]),), lp + (-ln - rng.choice([1, 2]),)]
                tgt = rng.choice([here, here[:1], (rng.choice(TOP), 'zz'), ('nowhere',)] + (cands[:2]) + off + off)
                if not tgt: tgt = ('nowhere',)
            return Stext(pstr(tgt), 'xref', kw=n.kw)
        cands = [t for t in tops if t != (here[0] if here else None)]
        names = [rng.choice(cands + ['S1', 'len']) if rng.random() >= p_bad * 0.5 else rng.choice(['nope', here[0] if here else 'nope'])
                 for _ in range(rng.choice([0, 1, 2, 3]))] if cands else []
        return Stext('T(' + ', '.join(str(x) for x in names) + ')', 'eval', kw=n.kw)
    if 'm' in n:
        n['m'] = [[k, fill(rng, c, paths, tops, p_bad, here + (sc_py(k),), paths_src)] for k, c in n['m']]
    elif 'q' in n:
        n['q'] = [fill(rng, c, paths, tops, p_bad, here + (i,), paths_src) for i, c in enumerate(n['q'])]
    return n

def gen_dyn_doc(rng, depth=3, p_unsafe=0.06, p_bad=0.1, keys=None, known=None):
    keys = keys or (rng.sample(TOP_BIG, rng.choice([8, 9, 10])) if EBIG else rng.sample(TOP, rng.choice([2, 3, 4, 5])))
    kw = {'safe': False} if rng.random() < p_unsafe * 0.3 else {}
    doc = M([(k, gen_val(rng, depth, p_unsafe, p_bad)) for k in keys], kw=kw)
    paths = collect_paths(doc) + list(known or [])
    tops = sorted(set([p[0] for p in paths if p and isinstance(p[0], str)]))
    return fill(rng, doc, paths, tops, p_bad, paths_src=doc)

def gen_dyn_case(rng, nmax=3, depth=3, p_unsafe=0.06, p_bad=0.1, p_unsafe_src=0.12):
    global EBIG
    EBIG = rng.random() < P_EBIG
    try:
        return _gen_dyn_case(rng, nmax, depth + (1 if EBIG and rng.random() < 0.5 else 0), p_unsafe, p_bad, p_unsafe_src)
    finally:
        EBIG = False

def _gen_dyn_case(rng, nmax, depth, p_unsafe, p_bad, p_unsafe_src):
    n = rng.choice([1, 1, 2, 2, 3][:nmax + 2])
    docs, known = [], []
    for i in range(n):
        if i == 0 or rng.random() < 0.4:
            raw = gen_dyn_doc(rng, depth, p_unsafe, p_bad, known=known)
        else:
            # override some top-level keys of earlier documents (argument / target / placeholder overrides)
            prev_tops = sorted(set(p[0] for p in known if p and isinstance(p[0], str)))
            keys = rng.sample(prev_tops, min(len(prev_tops), rng.choice([1, 2]))) if prev_tops else ['a']
            raw = gen_dyn_doc(rng, rng.randrange(1, depth + 1), p_unsafe, p_bad, keys=keys, known=known)
        known += [p for p, _ in G.paths_of(raw)]
        d = {'raw': raw}
        if rng.random() < p_unsafe_src:
            d['safe'] = False
        docs.append(d)
    return docs
