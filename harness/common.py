"""Shared plumbing of the correspondence harness: import of the implementation from /repo's working
tree, the Raw document datatype (JSON form understood by the Lean driver) and its rendering to YAML
text, the driver wrapper, canonical dumps of real node trees and error classification."""
import os, sys, json, subprocess, tempfile, re, math, random

VERIF = os.path.dirname(os.path.dirname(os.path.abspath(__file__)))
REPO = os.environ.get('AY_REPO', '/repo')
GUARD = 'AWESOMEYAML_VERIF'
os.environ.setdefault(GUARD, '1')
if REPO not in sys.path[:1]:
    sys.path.insert(0, REPO)
import awesomeyaml  # noqa: E402
assert os.path.realpath(awesomeyaml.__file__).startswith(os.path.realpath(REPO) + os.sep), \
    f'awesomeyaml imported from {awesomeyaml.__file__}, not from {REPO}'
from awesomeyaml import errors as ayerrors  # noqa: E402
from awesomeyaml.nodes.node import ConfigNode  # noqa: E402
from awesomeyaml.nodes.composed import ComposedNode  # noqa: E402
from awesomeyaml.nodes.dict import ConfigDict  # noqa: E402
from awesomeyaml.nodes.list import ConfigList  # noqa: E402
from awesomeyaml.nodes.scalar import ConfigScalar  # noqa: E402
from awesomeyaml.nodes.call import CallNode  # noqa: E402
from awesomeyaml.nodes.bind import BindNode  # noqa: E402
from awesomeyaml.nodes.append import AppendNode  # noqa: E402
from awesomeyaml.nodes.extend import ExtendNode  # noqa: E402
from awesomeyaml.nodes.path import PathNode  # noqa: E402
from awesomeyaml.nodes.stream import StreamNode  # noqa: E402
from awesomeyaml.nodes.xref import XRefNode  # noqa: E402
from awesomeyaml.nodes.prev import PrevNode  # noqa: E402
from awesomeyaml.nodes.eval import EvalNode  # noqa: E402
from awesomeyaml.nodes.fstr import FStrNode  # noqa: E402
from awesomeyaml.nodes.required import RequiredNode  # noqa: E402
from awesomeyaml.nodes.clear import ClearNode  # noqa: E402
from awesomeyaml.nodes.include import IncludeNode  # noqa: E402
from awesomeyaml.nodes.node_path import NodePath  # noqa: E402
import importlib  # noqa: E402
ImportNode = importlib.import_module('awesomeyaml.nodes.import').ImportNode
from awesomeyaml.builder import Builder  # noqa: E402
from awesomeyaml.config import Config  # noqa: E402

AYD = os.path.join(VERIF, 'lean', '.lake', 'build', 'bin', 'ayd')

# ----------------------------------------------------------------------------------------------
# scalars / keys in protocol form
# ----------------------------------------------------------------------------------------------

def sc_json(v):
    """python scalar -> protocol scalar"""
    if v is None or isinstance(v, bool) or isinstance(v, str):
        return v
    if isinstance(v, int):
        return int(v)
    if isinstance(v, float):
        return {'f': repr(float(v))}
    raise TypeError(f'not a scalar: {v!r} ({type(v)})')

def sc_py(j):
    if isinstance(j, dict):
        return float(j['f'])
    return j

# ----------------------------------------------------------------------------------------------
# Raw documents.  A Raw node is a dict in protocol form:
#   {'s': {'e':1} | {'l': scalar} | {'x': text}, 't': tag?, 'kw': kw?}
#   {'q': [raw...], 't':..., 'kw':...}
#   {'m': [[key, raw], ...], 't':..., 'kw':...}
# tag = {'k': kind, 'f': name-or-refpoint}; kw = {'prio','del','new','safe','md':[[k, scalar]...]}
# 'txt' (not sent to the model) optionally pins the tag text used when rendering.
# ----------------------------------------------------------------------------------------------

def _probe_simple_tags():
    """tag text -> constructor kwargs, read back from the real loader (also recorded in Gen/Tables.lean)"""
    from awesomeyaml import yaml as _ayyaml
    out = {}
    for t in ['!force', '!weak', '!del', '!merge', '!new', '!notnew', '!unsafe']:
        c = dict.__getitem__(list(_ayyaml.parse(f'x: {t} 5'))[0], 'x')
        kw = {}
        for name, attr in (('prio', '_priority'), ('del', '_delete'), ('new', '_allow_new'), ('safe', '_safe')):
            if getattr(c, attr) is not None:
                kw[name] = getattr(c, attr)
        out[t] = kw
    return out
SIMPLE_TAGS = _probe_simple_tags()

def S(v, tag=None, kw=None, txt=None):
    n = {'s': {'l': sc_json(v)}}
    return _tagged(n, tag, kw, txt)
def Sempty(tag=None, kw=None, txt=None):
    return _tagged({'s': {'e': 1}}, tag, kw, txt)
def Stext(text, tag, kw=None, txt=None):
    return _tagged({'s': {'x': text}}, tag, kw, txt)
def Q(items, tag=None, kw=None, txt=None):
    return _tagged({'q': list(items)}, tag, kw, txt)
def M(items, tag=None, kw=None, txt=None):
    if isinstance(items, dict):
        items = list(items.items())
    return _tagged({'m': [[sc_json(k), v] for k, v in items]}, tag, kw, txt)
def _tagged(n, tag, kw, txt):
    if tag is not None:
        n['t'] = tag if isinstance(tag, dict) else {'k': tag}
    if kw:
        n['kw'] = kw
        if tag is None:
            n['t'] = {'k': 'plain'}
    if txt:
        n['txt'] = txt
    return n

def strip_render_hints(raw):
    """protocol form without the rendering hints"""
    if isinstance(raw, list):
        return [strip_render_hints(x) for x in raw]
    if isinstance(raw, dict):
        return {k: strip_render_hints(v) for k, v in raw.items() if k not in ('txt', 'style')}
    return raw

_PLAIN_STR = re.compile(r'[a-zA-Z_][a-zA-Z0-9_]*\Z')
_RESERVED = {'true', 'false', 'yes', 'no', 'on', 'off', 'null', 'y', 'n', 'True', 'False', 'Yes', 'No', 'On', 'Off',
             'Null', 'NULL', 'TRUE', 'FALSE', 'YES', 'NO', 'ON', 'OFF', 'Y', 'N', 'f'}

def render_scalar_value(v, quote_style=0):
    if v is None:
        return '~' if quote_style % 2 == 0 else 'null'
    if isinstance(v, bool):
        return 'true' if v else 'false'
    if isinstance(v, int):
        return str(v)
    if isinstance(v, float):
        r = repr(v)
        if 'e' in r or 'inf' in r or 'nan' in r:
            raise ValueError('float not representable plainly')
        return r
    if isinstance(v, str):
        if quote_style == 0 and _PLAIN_STR.match(v) and v not in _RESERVED:
            return v
        return json.dumps(v)
    raise TypeError(v)

def render_key(k):
    k = sc_py(k)
    if isinstance(k, str):
        return render_scalar_value(k, 0)
    return render_scalar_value(k)

def md_literal(kw):
    """python dict literal for the {{...}} metadata syntax"""
    d = {}
    names = {'prio': 'priority', 'del': 'delete', 'new': 'allow_new', 'safe': 'safe'}
    for k, name in names.items():
        if kw.get(k) is not None:
            d[name] = kw[k]
    for k, v in kw.get('md', []):
        d[k] = sc_py(v)
    return d

def tag_text(n, md_style=0):
    """tag text for a Raw node ('' when untagged)"""
    if 'txt' in n:
        return n['txt']
    t = n.get('t')
    if not t:
        return ''
    kw = n.get('kw') or {}
    k = t['k']
    nonempty = {a: b for a, b in kw.items() if b not in (None, [])}
    def md_suffix(sep_needed=True):
        if not nonempty:
            return ''
        lit = md_literal(kw)
        if md_style in (0, 2):
            return '{' + repr(lit) + '}'
        import pickle
        return ':' + pickle.dumps(lit).hex()
    if k == 'plain':
        # md_style 2 / 3: always a metadata block ({{...}} literal / pickled form), also where a simple tag would do - the same
        # block text then occurs many times in one stream and across files (round 8: caches keyed by the block text)
        if md_style < 2 and len(nonempty) == 1 and 'md' not in nonempty:
            for txt, tk in SIMPLE_TAGS.items():
                if tk == nonempty:
                    return txt
        return '!metadata' + md_suffix()
    base = {'xref': '!xref', 'required': '!required', 'null': '!null', 'clear': '!clear', 'extend': '!extend',
            'eval': '!eval', 'append': '!append', 'prev': '!prev', 'fstr': '!fstr', 'import': '!import',
            'include': '!include'}.get(k)      # every one of these has a `:metadata` constructor (since repair D17i)
    if base:
        return base + md_suffix()
    if k in ('call', 'bind'):
        s = md_suffix()
        return f'!{k}:{t["f"]}' + s
    if k == 'path':
        s = md_suffix()
        if t.get('f'):
            return '!path:' + t['f'] + s
        if s:
            raise ValueError('!path without reference point cannot carry metadata')
        return '!path'
    plain = {'prev': '!prev', 'append': '!append', 'fstr': '!fstr', 'import': '!import', 'callName': '!call',
             'bindName': '!bind', 'include': '!include'}[k]
    if nonempty:
        raise ValueError(f'tag {plain} cannot carry metadata')
    return plain

def render_flow(n, md_style=0, qs=0):
    # YAML anchors / aliases (rendering hints 'anchor': name on a node, {'alias': name} as a node): the same node object at
    # several paths. Outside the model's domain (trees without sharing); used by oracle-only case families.
    if 'alias' in n:
        return '*' + n['alias'] + ' '
    tt = tag_text(n, md_style)
    if 'anchor' in n:
        tt = '&' + n['anchor'] + (' ' + tt if tt else '')
    pre = tt + ' ' if tt else ''
    if 's' in n:
        s = n['s']
        if 'e' in s:
            return pre if tt else ''
        if 'x' in s:
            return pre + json.dumps(s['x'])
        if 'p' in s:
            # a PLAIN (unquoted) scalar written verbatim, so that PyYAML's implicit resolvers see it (an implicit f-string
            # `f'{T(1)}'`). Block context only; outside the model's domain (oracle-only case families).
            return pre + s['p']
        return pre + render_scalar_value(sc_py(s['l']), qs)
    if 'q' in n:
        return pre + '[' + ', '.join(render_flow(c, md_style, qs) or '~' for c in n['q']) + ']'
    return pre + '{' + ', '.join(f'{render_key(k)}: {render_flow(c, md_style, qs)}' for k, c in n['m']) + '}'

def render_block(n, md_style=0, qs=0, ind=0, lit=False):
    """block style; returns text that follows 'key:' or '-' (starting with ' ' or a newline); with `lit`, single-line string
    scalars are written as block scalars (`|-` literal or `>-` folded): still strings, whatever their text looks like"""
    if 'alias' in n:
        return ' *' + n['alias'] + '\n'
    tt = tag_text(n, md_style)
    if 'anchor' in n:
        tt = '&' + n['anchor'] + (' ' + tt if tt else '')
    pad = '  ' * ind
    if lit and 's' in n and isinstance(n['s'].get('l'), str):
        v = n['s']['l']
        if v and v == v.strip() and '\n' not in v and v.isprintable() and not v.startswith('#'):
            return (' ' + tt if tt else '') + (' |-' if len(v) % 2 else ' >-') + '\n' + pad + '  ' + v + '\n'
        w = v[:-1]
        if v.endswith('\n') and w and w == w.strip() and '\n' not in w and w.isprintable() and not w.startswith('#'):
            return (' ' + tt if tt else '') + ' |' + '\n' + pad + '  ' + w + '\n'      # clip: the value keeps its final line break
    if 's' in n:
        body = render_flow({k: v for k, v in n.items() if k not in ('t', 'kw', 'txt')}, md_style, qs)
        return (' ' + tt if tt else '') + (' ' + body if body else '') + '\n'
    if 'q' in n:
        if not n['q']:
            return (' ' + tt if tt else '') + ' []\n'
        out = (' ' + tt if tt else '') + '\n'
        for c in n['q']:
            out += pad + '-' + render_block(c, md_style, qs, ind + 1, lit)
        return out
    if not n['m']:
        return (' ' + tt if tt else '') + ' {}\n'
    out = (' ' + tt if tt else '') + '\n'
    for k, c in n['m']:
        out += pad + render_key(k) + ':' + render_block(c, md_style, qs, ind + 1, lit)
    return out

def render_doc(raw, style='flow', md_style=0, qs=0):
    if style == 'flow' or 'm' not in raw or not raw['m']:
        return render_flow(raw, md_style, qs) + '\n'
    tt = tag_text(raw, md_style)
    out = (tt + '\n') if tt else ''
    for k, c in raw['m']:
        out += render_key(k) + ':' + render_block(c, md_style, qs, 1, style == 'blocklit')
    return out

# ----------------------------------------------------------------------------------------------
# the Lean driver
# ----------------------------------------------------------------------------------------------

def run_model(requests, timeout=600):
    """send requests (list of dicts) to the driver, return the list of answers"""
    if not requests:
        return []
    if not os.path.exists(AYD):
        raise RuntimeError(f'driver {AYD} missing - run ./check --setup')
    inp = '\n'.join(json.dumps(strip_render_hints(r), separators=(',', ':')) for r in requests) + '\n'
    p = subprocess.run([AYD], input=inp.encode(), stdout=subprocess.PIPE, stderr=subprocess.PIPE, timeout=timeout)
    if p.returncode != 0:
        raise RuntimeError(f'driver failed rc={p.returncode}: {p.stderr.decode()[-500:]}')
    lines = p.stdout.decode().splitlines()
    if len(lines) != len(requests):
        raise RuntimeError(f'driver answered {len(lines)} lines for {len(requests)} requests')
    return [json.loads(l) for l in lines]

# ----------------------------------------------------------------------------------------------
# canonical dump of real node trees / errors
# ----------------------------------------------------------------------------------------------

def native_key(k):
    if isinstance(k, ConfigNode):
        k = k.ayns.native_value
    return sc_json(k)

def node_kind(n):
    t = type(n)
    if t is ConfigDict: return 'dict', None
    if t is ConfigList: return 'list', None
    if t is CallNode: return 'call', str(n._func) if isinstance(n._func, str) else repr(n._func)
    if t is BindNode: return 'bind', str(n._func) if isinstance(n._func, str) else repr(n._func)
    if t is AppendNode: return 'append', None
    if t is ExtendNode: return 'extend', None
    if t is PathNode: return 'path', n.ref_point
    if t is StreamNode: return 'stream', None
    if t is XRefNode: return 'xref', str(n)
    if t is PrevNode: return 'prev', str(n)
    if t is FStrNode: return 'fstr', str(n)
    if t is EvalNode: return 'eval', str(n)
    if t is ImportNode: return 'import', str(n)
    if t is RequiredNode: return 'required', None
    if t is ClearNode: return 'clear', None
    if t is IncludeNode: return 'include', list(n.filenames)
    if isinstance(n, ConfigScalar): return 'scalar', sc_json(n.ayns.native_value)
    return 'other:' + t.__name__, None

def dump_node(n):
    """real node -> the same JSON shape as the driver's nodeJ"""
    kind, v = node_kind(n)
    f = {
        'prio': n._priority, 'del': n._delete, 'new': n._allow_new, 'safe': n._safe,
        'iDel': n._implicit_delete, 'iNew': n._implicit_allow_new, 'iSafe': n._implicit_safe,
        'dSafe': bool(n._default_safe), 'md': [[k, sc_json(x)] for k, x in n._metadata.items()],
        'src': n._source_file,
        'ePrio': n.ayns.priority, 'eDel': bool(n.ayns.delete), 'eNew': bool(n.ayns.allow_new), 'eSafe': bool(n.ayns.safe),
    }
    out = {'k': kind, 'f': f}
    if kind in ('scalar',):
        out['v'] = v
    elif v is not None:
        out['v'] = v
    if isinstance(n, ComposedNode):
        out['c'] = [[native_key(k), dump_node(c)] for k, c in n.ayns.named_children()]
        # the builtin storage must agree with the child map (C17 checks this in depth)
        if isinstance(n, dict):
            st = [[native_key(k), id(c)] for k, c in dict.items(n)]
        else:
            st = [[i, id(c)] for i, c in enumerate(list.__iter__(n))]
        ch = [[native_key(k), id(c)] for k, c in n.ayns.named_children()]
        if st != ch:
            out['storage_mismatch'] = True
    return out

def classify_error(e):
    """exception -> protocol error dict"""
    chain = []
    x = e
    seen = set()
    while x is not None and id(x) not in seen:
        seen.add(id(x)); chain.append(x)
        x = x.__cause__ or x.__context__
    if isinstance(e, ayerrors.ParsingError): return {'err': 'parsing'}
    if isinstance(e, ayerrors.PreprocessError):
        return {'err': 'preprocess'}
    if isinstance(e, ayerrors.PremergeError): return {'err': 'premerge'}
    if isinstance(e, ayerrors.MergeError):
        m = re.search(r"Node '([^']*)' \(source file", str(e))
        if m:
            return {'err': 'merge', 'notnew': m.group(1)}
        return {'err': 'merge'}
    if isinstance(e, ayerrors.EvalError):
        if any(isinstance(c, ayerrors.UnsafeError) for c in chain):
            return {'err': 'unsafe'}
        return {'err': 'eval'}
    if isinstance(e, ValueError) and 'required nodes have not been set' in str(e):
        paths = [l.strip().strip("'") for l in str(e).splitlines()[1:]]
        return {'err': 'required', 'paths': paths}
    if isinstance(e, ValueError): return {'err': 'value'}
    return {'err': 'other:' + type(e).__name__ + ':' + str(e)[:100]}

def canon_model_answer(a):
    """bring the driver's answer to the comparable form (paths as strings)"""
    if 'notnew' in a:
        a = dict(a); a['notnew'] = NodePath.join_path([sc_py(k) for k in a['notnew']])
    if 'paths' in a:
        a = dict(a); a['paths'] = [NodePath.join_path([sc_py(k) for k in p]) for p in a['paths']]
    return a

def first_diff(a, b, path='$'):
    """first difference between two JSON values, as text (None if equal)"""
    if type(a) != type(b) and not (isinstance(a, (int, float)) and isinstance(b, (int, float)) and not isinstance(a, bool) and not isinstance(b, bool)):
        return f'{path}: {json.dumps(a)[:80]} != {json.dumps(b)[:80]}'
    if isinstance(a, dict):
        for k in sorted(set(a) | set(b)):
            if k not in a: return f'{path}.{k}: missing on the left; right={json.dumps(b[k])[:80]}'
            if k not in b: return f'{path}.{k}: missing on the right; left={json.dumps(a[k])[:80]}'
            d = first_diff(a[k], b[k], f'{path}.{k}')
            if d: return d
        return None
    if isinstance(a, list):
        if len(a) != len(b):
            return f'{path}: length {len(a)} != {len(b)}: {json.dumps(a)[:100]} vs {json.dumps(b)[:100]}'
        for i, (x, y) in enumerate(zip(a, b)):
            d = first_diff(x, y, f'{path}[{i}]')
            if d: return d
        return None
    return None if a == b else f'{path}: {json.dumps(a)[:80]} != {json.dumps(b)[:80]}'

# ----------------------------------------------------------------------------------------------
# implementation runs
# ----------------------------------------------------------------------------------------------

def impl_merge(docs, style='flow', md_style=0, qs=0):
    """docs: list of {'raw':..., 'safe':bool?, 'src':str?}; returns protocol answer of op 'merge'"""
    try:
        b = Builder()
        for d in docs:
            text = render_doc(d['raw'], style, md_style, qs)
            b.add_source(text, raw_yaml=(None if d.get('auto') else True), filename=d.get('src'), safe=d.get('safe'))   # 'auto': the default of Config.build - file name or YAML text is guessed
        root = b.build()
        return {'ok': None if root is None else dump_node(root)}
    except RecursionError:
        return {'err': 'recursion'}
    except Exception as e:  # noqa
        return classify_error(e)

def impl_parse(docs, style='flow', md_style=0, qs=0):
    try:
        b = Builder()
        for d in docs:
            text = render_doc(d['raw'], style, md_style, qs)
            b.add_source(text, raw_yaml=(None if d.get('auto') else True), filename=d.get('src'), safe=d.get('safe'))   # 'auto': the default of Config.build - file name or YAML text is guessed
        return {'ok': [dump_node(s) for s in b.stages]}
    except Exception as e:  # noqa
        return classify_error(e)
