"""Implementation side of the evaluation correspondence: free symbols as recording callables,
conversion of evaluated configs to the driver's value JSON, identity canonicalisation."""
import sys, types, functools, pathlib, json
from common import *
from awesomeyaml.eval_context import EvalContext
from awesomeyaml.utils import Bunch

class Rec:
    """result of calling a recording function"""
    __slots__ = ('f', 'named', 'va', 'vk')
    def __init__(self, f, named, va, vk):
        self.f, self.named, self.va, self.vk = f, named, va, vk
    def __eq__(self, o):
        return isinstance(o, Rec) and (self.f, self.named, self.va, self.vk) == (o.f, o.named, o.va, o.vk)
    __hash__ = None
class TupleRec:
    __slots__ = ('items',)
    def __init__(self, items):
        self.items = items
    def __eq__(self, o):
        return isinstance(o, TupleRec) and self.items == o.items
    __hash__ = None

INTERPRETED = ('rec.none', 'rec.kw')

def interp(v):
    """model value JSON -> the same with the interpreted free symbols replaced by what they return"""
    if isinstance(v, list):
        return [interp(x) for x in v]
    if isinstance(v, dict):
        if v.get('app') == 'rec.none':
            return None
        if v.get('app') == 'rec.kw':
            return {'d': [[k, interp(x)] for k, x in v.get('vk', [])], 'o': v.get('o')}
        return {k: interp(x) for k, x in v.items()}
    return v

EXEC_LOG = []   # (what, node path, node safe flag, received arguments) of every execution, attributed by frame inspection

def _who():
    """the dynamic node on whose behalf the current recording callable runs: the nearest caller frame that is an
    on_evaluate_impl of nodes/call.py, bind.py or eval.py"""
    f = sys._getframe(2)
    while f is not None:
        co = f.f_code
        if co.co_name == 'on_evaluate_impl' and co.co_filename.replace('\\', '/').rsplit('/', 1)[-1] in ('call.py', 'bind.py', 'eval.py'):
            node, path = f.f_locals.get('self'), f.f_locals.get('path')
            try:
                return (str(path), bool(node.ayns.safe), id(node))
            except Exception:
                return (str(path), None, id(node))
        f = f.f_back
    return (None, None, None)

class WorldImpl:
    """materialises a world spec: module(s) with recording functions, eval symbols, log"""
    def __init__(self, spec):
        self.spec = spec
        self.log = []
        self.mods = {}
        self.fnames = {}
        for fname, sig in spec.get('sigs', []):
            mod, _, short = fname.rpartition('.')
            m = self.mods.setdefault(mod, types.ModuleType(mod))
            params, names = [], []
            seen_va = False
            for nm, kind, dflt in sig:
                if kind == 'pk':
                    params.append(nm if dflt is None else f'{nm}={sc_py(dflt[0])!r}'); names.append(nm)
                elif kind == 'va':
                    params.append('*' + nm); seen_va = True
                elif kind == 'ko':
                    if not seen_va:
                        params.append('*'); seen_va = True
                    params.append(nm if dflt is None else f'{nm}={sc_py(dflt[0])!r}'); names.append(nm)
                elif kind == 'vk':
                    params.append('**' + nm)
            va = next((nm for nm, k, _ in sig if k == 'va'), None)
            vk = next((nm for nm, k, _ in sig if k == 'vk'), None)
            src = f"def {short}({', '.join(params)}):\n" \
                  f"    _log.append('call:{fname}'); _xlog.append(('call:{fname}',) + _who() + (([{', '.join(names)}], {va or '()'}, {vk or '{}'}),))\n" \
                  f"    return _Rec({fname!r}, [{', '.join(f'({n!r}, {n})' for n in names)}], {va or '()'}, {vk or '{}'})\n"
            # interpreted free symbols: the model treats every callable as a free symbol (its result is the term `app`); two names
            # are given a concrete meaning on the implementation side and the model's term is mapped to it before comparing
            # (`interp`): rec.none returns None, rec.kw returns a plain dict of its keyword arguments
            if fname in INTERPRETED:
                src = src.rsplit('    return ', 1)[0] + {'rec.none': '    return None\n', 'rec.kw': f'    return dict({vk})\n'}[fname]
            ns = {'_log': self.log, '_Rec': Rec, '_xlog': EXEC_LOG, '_who': _who}
            exec(src, ns)
            fn = ns[short]
            fn.__module__ = mod
            setattr(m, short, fn)
            self.fnames[id(fn)] = fname
        for mname in spec.get('modules', []):
            self.mods.setdefault(mname, types.ModuleType(mname))
        log = self.log
        def T(*a):
            log.append('eval'); EXEC_LOG.append(('eval',) + _who() + ((list(a), (), {}),))
            return TupleRec(a)
        self.syms = {}
        for s in spec.get('syms', []):
            self.syms[s] = T if s == 'T' else Sym(s)
        self.symnames = {id(v): k for k, v in self.syms.items()}
        for mname, m in self.mods.items():
            self.symnames[id(m)] = mname
        import builtins
        for b in spec.get('builtins', []):
            self.symnames[id(getattr(builtins, b))] = b

    def __enter__(self):
        del EXEC_LOG[:]
        self.saved = {k: sys.modules.get(k) for k in self.mods}
        sys.modules.update(self.mods)
        return self
    def __exit__(self, *a):
        for k, v in self.saved.items():
            if v is None:
                sys.modules.pop(k, None)
            else:
                sys.modules[k] = v

class Sym:
    def __init__(self, name): self.name = name

def conv_val(v, w, ids):
    """evaluated python object -> value JSON; `ids` maps id(obj) -> first-occurrence index"""
    def oid(x):
        return id(x)
    if isinstance(v, ConfigNode) or isinstance(v, EvalContext.PartialChild):
        return {'LEAK': type(v).__name__}
    if v is None or type(v) in (bool, str):
        return v
    if type(v) is int:
        return v
    if type(v) is float:
        return {'f': repr(v)}
    if isinstance(v, (bool, str, int, float)):
        return {'LEAK': 'scalar-subclass:' + type(v).__name__}
    if isinstance(v, Rec):
        o = oid(v)
        return {'app': v.f, 'named': [[k, conv_val(x, w, ids)] for k, x in v.named], 'va': [conv_val(x, w, ids) for x in v.va],
                'vk': [[k, conv_val(x, w, ids)] for k, x in v.vk.items()], 'o': o}
    if isinstance(v, TupleRec):
        o = oid(v)
        return {'t': [conv_val(x, w, ids) for x in v.items], 'o': o}
    if isinstance(v, functools.partial):
        o = oid(v)
        return {'part': w.fnames.get(id(v.func), repr(v.func)), 'pos': [conv_val(x, w, ids) for x in v.args],
                'kw': [[k, conv_val(x, w, ids)] for k, x in v.keywords.items()], 'o': o}
    if isinstance(v, pathlib.PurePath):
        return {'path': str(v)}
    if isinstance(v, dict):
        o = oid(v)
        return {'d': [[native_key(k) if not isinstance(k, ConfigNode) else {'LEAK': 'key'}, conv_val(x, w, ids)] for k, x in v.items()], 'o': o}
    if isinstance(v, (list, tuple)):
        o = oid(v)
        return {'l': [conv_val(x, w, ids) for x in v], 'o': o}
    if id(v) in w.symnames:
        return {'sym': w.symnames[id(v)]}
    if id(v) in w.fnames:
        return {'sym': w.fnames[id(v)]}
    return {'other': type(v).__name__}

def renumber(v, ids=None):
    """number identity-bearing objects ('o') by first occurrence in a fixed DFS order (the object
    itself before its content, content fields in sorted order); applied to both sides"""
    if ids is None:
        ids = {}
    if isinstance(v, list):
        return [renumber(x, ids) for x in v]
    if isinstance(v, dict):
        out = {}
        if 'o' in v:
            key = json.dumps(v['o']) if v['o'] is not None else ('fresh', len(ids))
            out['o'] = ids.setdefault(key, len(ids))
        for k in sorted(v):
            if k == 'o':
                continue
            out[k] = v[k] if k in ('f', 'sym', 'path', 'app', 'part', 'LEAK', 'other') else renumber(v[k], ids)
        return out
    return v

def has_leak(v):
    if isinstance(v, list):
        return any(has_leak(x) for x in v)
    if isinstance(v, dict):
        return 'LEAK' in v or any(has_leak(x) for x in v.values())
    return False

def build_root(docs, style='flow', md_style=0, qs=0):
    b = Builder()
    for d in docs:
        text = render_doc(d['raw'], style, md_style, qs)
        b.add_source(text, raw_yaml=(None if d.get('auto') else True), filename=d.get('src'), safe=d.get('safe'))
    return b.build()

def impl_config(docs, world, style='flow', md_style=0, qs=0):
    with WorldImpl(world) as w:
        try:
            root = build_root(docs, style, md_style, qs)
            cfg = Config(root, eval_ctx=EvalContext(eval_symbols=w.syms))
            return {'ok': renumber(conv_val(cfg, w, {})), 'log': [l for l in w.log]}
        except RecursionError:
            return {'err': 'recursion', 'log': list(w.log)}
        except Exception as e:  # noqa
            r = classify_error(e)
            r['log'] = list(w.log)
            return r

def canon_model_config(a):
    a = canon_model_answer(a)
    if 'ok' in a:
        a = dict(a)
        a['ok'] = renumber(interp(a['ok']))
        a['log'] = [e['w'] for e in a.get('log', []) if e['w'].startswith('call:') or e['w'] == 'eval']
    return a

def compare_config(impl, model):
    """None if equal, else a description"""
    m = canon_model_config(model)
    if 'err' in m:
        if m['err'] == 'unsupported':
            return 'SKIP'
        if m['err'] == 'recursion':
            if impl.get('err') in ('eval', 'unsafe', 'recursion'):
                return None
            if 'ok' in impl and (has_leak(impl['ok']) or 'eval' in impl.get('log', [])):
                # D21: the model (exact on cycles, C10_builds_iff_denotation) sees a dependency cycle, the implementation builds:
                # only possible through an !eval name lookup (reference-only cycles are refused, C09); the placeholder leaks into
                # the result unless the values on the cycle are None / plain (interpreted symbols)
                return 'KNOWN:D21'
            return f"model: recursion, impl: {json.dumps(impl)[:120]}"
        i = {k: v for k, v in impl.items() if k != 'log'}
        return first_diff(i, m)
    return first_diff(impl, m)
