/-
  ayd — line-protocol driver: one JSON request per line on stdin, one JSON answer per line.
  Requests: {"op": <name>, ...}; see `dispatch`.
-/
import AY.Driver.Codec
import AY.Driver.OpsC17
import AY.Driver.OpsC20
import AY.Driver.OpsC06
import AY.Driver.OpsC19
import AY.Driver.OpsC18
import AY.Driver.OpsC12
import AY.Driver.OpsC08
import AY.Driver.OpsMeta
import AY.Driver.OpsBunch
import AY.Driver.OpsImportName
import AY.Driver.OpsErrWrap
import AY.Driver.OpsSources
import AY.Driver.OpsFromPy
open Lean AY AY.Codec

def parseDocs (j : Json) : Except String (List (Env × Raw)) :=
  match j.getObjVal? "docs" with
  | .ok (.arr a) => a.toList.mapM (fun d => do
      let env ← envOf d
      let raw ← match d.getObjVal? "raw" with
        | .ok r => rawOf r
        | .error e => .error e
      pure (env, raw))
  | _ => .error "docs expected"

def constructAll : List (Env × Raw) → Except Err (List Node)
  | [] => .ok []
  | (env, r) :: rest =>
    match construct env r with
    | .error e => .error e
    | .ok n =>
      match constructAll rest with
      | .error e => .error e
      | .ok ns => .ok (n :: ns)

/-- op "parse": construct every document, return the node trees -/
def opParse (j : Json) : Json :=
  match parseDocs j with
  | .error e => Json.mkObj [("bad", .str e)]
  | .ok docs =>
    match constructAll docs with
    | .error e => errJ e
    | .ok ns => Json.mkObj [("ok", .arr (ns.map nodeJ).toArray)]

/-- op "merge": construct + flatten, return the merged tree -/
def opMerge (j : Json) : Json :=
  match parseDocs j with
  | .error e => Json.mkObj [("bad", .str e)]
  | .ok docs =>
    match constructAll docs with
    | .error e => errJ e
    | .ok [] => Json.mkObj [("ok", .null)]
    | .ok ns =>
      match flatten ns with
      | .error e => errJ e
      | .ok r => Json.mkObj [("ok", nodeJ r)]

/-- op "config": construct + flatten + Config(...) with a world of free symbols -/
def opConfig (j : Json) : Json :=
  match parseDocs j, worldOf j with
  | .error e, _ => Json.mkObj [("bad", .str e)]
  | _, .error e => Json.mkObj [("bad", .str e)]
  | .ok docs, .ok w =>
    match constructAll docs with
    | .error e => errJ e
    | .ok [] => Json.mkObj [("ok", Json.mkObj [("d", .arr #[]), ("o", .arr #[])]), ("log", .arr #[])]
    | .ok ns =>
      match flatten ns with
      | .error e => errJ e
      | .ok r =>
        match config w r with
        | .error e => errJ e
        | .ok (v, st) =>
          Json.mkObj [("ok", valJ v), ("log", .arr (st.log.map (fun e => Json.mkObj [("p", pathJ e.path), ("w", .str e.what)])).toArray)]

/-- op "upd": the C02 specification — fold the tag-erased documents with `upd` -/
def opUpd (j : Json) : Json :=
  match parseDocs j with
  | .error e => Json.mkObj [("bad", .str e)]
  | .ok docs =>
    match foldUpd (docs.map (fun d => plainOfRaw d.2)) with
    | .error e => errJ e
    | .ok p => Json.mkObj [("ok", plainJ p)]

/-- op "erase": the C01 specification — the tag-erased data of every document -/
def opErase (j : Json) : Json :=
  match parseDocs j with
  | .error e => Json.mkObj [("bad", .str e)]
  | .ok docs => Json.mkObj [("ok", .arr (docs.map (fun d => plainJ (plainOfRaw d.2))).toArray)]

def dispatch (j : Json) : Json :=
  match j.getObjVal? "op" with
  | .ok (.str "parse") => opParse j
  | .ok (.str "merge") => opMerge j
  | .ok (.str "config") => opConfig j
  | .ok (.str "upd") => opUpd j
  | .ok (.str "erase") => opErase j
  | .ok (.str "c17") => AY.OpsC17.opC17 j
  | .ok (.str "splitPath") => AY.OpsC17.opSplitPath j
  | .ok (.str "joinPath") => AY.OpsC17.opJoinPath j
  | .ok (.str "c17path") => AY.OpsC17.opC17Path j
  | .ok (.str "c17reserved") => AY.OpsC17.opC17Reserved j
  | .ok (.str "c20") => opC20 j
  | .ok (.str "c06") => AY.OpsC06.opC06 j
  | .ok (.str "c06path") => AY.OpsC06.opC06Path j
  | .ok (.str "c19") => AY.OpsC19.opC19 j
  | .ok (.str "c18") => AY.OpsC18.opC18 j
  | .ok (.str "c12") => AY.opC12 j
  | .ok (.str "c08tokens") => AY.OpsC08.opC08 j
  | .ok (.str "c08int") => AY.OpsC08.opC08Int j
  | .ok (.str "metaSplice") => AY.OpsMeta.opMetaSplice j
  | .ok (.str "metaSplit") => AY.OpsMeta.opMetaSplit j
  | .ok (.str "bunch") => AY.OpsBunch.opBunch j
  | .ok (.str "importName") => AY.OpsImportName.opImportName j
  | .ok (.str "errwrap") => AY.OpsErrWrap.opErrWrap j
  | .ok (.str "sources") => AY.OpsSources.opSources j
  | .ok (.str "fromPy") => AY.OpsFromPy.opFromPy j
  | _ => Json.mkObj [("bad", .str "unknown op")]

partial def loop (h : IO.FS.Stream) (out : IO.FS.Stream) : IO Unit := do
  let line ← h.getLine
  if line.isEmpty then return ()
  let ans := match Json.parse line with
    | .ok j => dispatch j
    | .error e => Json.mkObj [("bad", .str e)]
  out.putStrLn ans.compress
  loop h out

def main : IO Unit := do
  let out ← IO.getStdout
  loop (← IO.getStdin) out
  out.flush
