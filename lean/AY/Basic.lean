def hello := "world"
