/-
  AY.Spec.Plain — plain data and the reference semantics of merging tag-free documents:
  a right-biased recursive update (`upd`), folded left to right (`foldUpd`).
  This file is the *specification* side of C01/C02: it mentions no flags, no priorities,
  no filtering — only data.
-/
import AY.Model.Construct
namespace AY

/-- plain Python data as PyYAML would load it -/
inductive Plain where
  | scalar (s : Scalar)
  | list (items : List Plain)
  | dict (items : List (Key × Plain))
  deriving Repr, Inhabited

mutual
/-- the data of a node tree whose nodes are all plain containers / scalars -/
def native : Node → Plain
  | .leaf _ (.scalar v) => .scalar v
  | .leaf _ _ => .scalar .null
  | .comp _ k cs => if k.isDictFam then .dict (nativeList cs) else .list (nativeVals cs)
def nativeList : List (Key × Node) → List (Key × Plain)
  | [] => []
  | (k, c) :: rest => (k, native c) :: nativeList rest
def nativeVals : List (Key × Node) → List Plain
  | [] => []
  | (_, c) :: rest => native c :: nativeVals rest
end

mutual
/-- what PyYAML loads from a document once every awesomeyaml tag is erased -/
def plainOfRaw : Raw → Plain
  | .scalar _ _ v => .scalar v.toScalar
  | .seq _ _ items => .list (plainOfRawList items)
  | .map _ _ items => .dict (plainOfRawMap items)
def plainOfRawList : List Raw → List Plain
  | [] => []
  | r :: rest => plainOfRaw r :: plainOfRawList rest
def plainOfRawMap : List (Key × Raw) → List (Key × Plain)
  | [] => []
  | (k, r) :: rest => (k, plainOfRaw r) :: plainOfRawMap rest
end

/-- replace the element at position `i` -/
def setAt : Nat → Plain → List Plain → List Plain
  | _, _, [] => []
  | 0, v, _ :: xs => v :: xs
  | i + 1, v, x :: xs => x :: setAt i v xs

/-- a mapping key addressing an existing list position: `-len ≤ i < len` -/
def listIndex (len : Nat) : Key → Option Nat
  | .int i =>
    if i.natAbs > len || i = (len : Int) then none
    else some (if i < 0 then ((len : Int) + i).toNat else i.toNat)
  | _ => none

def allIndices (len : Nat) : List (Key × Plain) → Bool
  | [] => true
  | (k, _) :: rest => (listIndex len k).isSome && allIndices len rest

/-- Right-biased recursive update. `fuel` bounds the depth of the newer value. -/
def updF : Nat → Plain → Plain → Except Err Plain
  | 0, _, _ => .error .unsupported
  | fuel + 1, a, b =>
    match a, b with
    | .dict as, .dict bs => (updDict (updF fuel) as bs).map Plain.dict
    | .list as, .dict bs =>
      if allIndices as.length bs then (updList (updF fuel) as bs).map Plain.list else .error .merge
    | _, b => .ok b
where
  /-- mapping ⊕ mapping: common keys recursively (position kept), new keys appended -/
  updDict (rec : Plain → Plain → Except Err Plain) :
      List (Key × Plain) → List (Key × Plain) → Except Err (List (Key × Plain))
    | as, [] => .ok as
    | as, (k, vb) :: rest =>
      match alookup k as with
      | none => updDict rec (as ++ [(k, vb)]) rest
      | some va =>
        match rec va vb with
        | .error e => .error e
        | .ok v => updDict rec (aset k v as) rest
  /-- mapping onto list: existing (possibly negative) indices only -/
  updList (rec : Plain → Plain → Except Err Plain) :
      List Plain → List (Key × Plain) → Except Err (List Plain)
    | as, [] => .ok as
    | as, (k, vb) :: rest =>
      match listIndex as.length k with
      | none => .error .merge
      | some i =>
        match as[i]? with
        | none => .error .merge
        | some va =>
          match rec va vb with
          | .error e => .error e
          | .ok v => updList rec (setAt i v as) rest

mutual
def Plain.depth : Plain → Nat
  | .scalar _ => 0
  | .list xs => plainDepthL xs + 1
  | .dict xs => plainDepthD xs + 1
def plainDepthL : List Plain → Nat
  | [] => 0
  | x :: xs => max x.depth (plainDepthL xs)
def plainDepthD : List (Key × Plain) → Nat
  | [] => 0
  | (_, x) :: xs => max x.depth (plainDepthD xs)
end

def upd (a b : Plain) : Except Err Plain := updF (b.depth + 1) a b

/-- fold of a sequence of mapping documents -/
def foldUpd : List Plain → Except Err Plain
  | [] => .error .value
  | d :: ds => ds.foldl (fun acc x => match acc with | .error e => .error e | .ok a => upd a x) (.ok d)

end AY
